// Replay / probe driver: runs ONE operation of the real rivia crate (path dependency on the tree under test) per input
// line and prints its observable result.  Used only to turn an already-failed obligation into a concrete failing input
// (witness search / Kani counterexample replay); never to decide a property.
// Line format:  op \t hexarg \t hexarg ...      (every argument hex-encoded UTF-8 / raw bytes; integers as decimal text)
use std::io::{BufRead, Cursor, Read, Seek, SeekFrom, Write};
use std::panic;
use std::path::PathBuf;

use rivia::prelude::*;

fn unhex(s: &str) -> Vec<u8> {
    (0..s.len() / 2).map(|i| u8::from_str_radix(&s[2 * i..2 * i + 2], 16).unwrap()).collect()
}
fn hex(b: &[u8]) -> String {
    b.iter().map(|x| format!("{:02x}", x)).collect()
}
fn s(a: &str) -> String {
    String::from_utf8(unhex(a)).unwrap()
}
fn okp(p: PathBuf) -> String {
    format!("OK\t{}", hex(p.to_str().unwrap_or("<non-utf8>").as_bytes()))
}
fn res<T: std::fmt::Debug>(r: RvResult<T>, f: impl Fn(T) -> String) -> String {
    match r {
        Ok(v) => f(v),
        Err(e) => format!("ERR\t{}", hex(format!("{:?}", e).as_bytes())),
    }
}
fn seekfrom(kind: &str, off: &str) -> SeekFrom {
    match kind {
        "start" => SeekFrom::Start(off.parse().unwrap()),
        "current" => SeekFrom::Current(off.parse().unwrap()),
        _ => SeekFrom::End(off.parse().unwrap()),
    }
}

fn run(a: &[&str]) -> String {
    match a[0] {
        // seek data pos kind off : handle from Memfs::read positioned at pos, then the seek under test, compared with std::io::Cursor
        "seek" => {
            let data = unhex(a[1]);
            let pos: u64 = a[2].parse().unwrap();
            let vfs = Memfs::new();
            vfs.write_all("/f", &data).unwrap();
            let mut h = vfs.read("/f").unwrap();
            let mut c = Cursor::new(data.clone());
            h.seek(SeekFrom::Start(pos)).unwrap();
            c.seek(SeekFrom::Start(pos)).unwrap();
            let rh = h.seek(seekfrom(a[3], a[4]));
            let rc = c.seek(seekfrom(a[3], a[4]));
            let ph = h.seek(SeekFrom::Current(0));
            let pc = c.seek(SeekFrom::Current(0));
            let same = match (&rh, &rc) {
                (Ok(x), Ok(y)) => x == y,
                (Err(_), Err(_)) => true,
                _ => false,
            } && match (&ph, &pc) {
                (Ok(x), Ok(y)) => x == y,
                _ => false,
            };
            format!("{}\trivia={:?} pos_after={:?}\tcursor={:?} pos_after={:?}", if same { "SAME" } else { "DIFF" }, rh.map_err(|e| e.kind()), ph.map_err(|e| e.kind()), rc.map_err(|e| e.kind()), pc.map_err(|e| e.kind()))
        },
        // read data pos n : read n bytes at pos, compared with Cursor
        "read" => {
            let data = unhex(a[1]);
            let pos: u64 = a[2].parse().unwrap();
            let n: usize = a[3].parse().unwrap();
            let vfs = Memfs::new();
            vfs.write_all("/f", &data).unwrap();
            let mut h = vfs.read("/f").unwrap();
            let mut c = Cursor::new(data.clone());
            h.seek(SeekFrom::Start(pos)).unwrap();
            c.seek(SeekFrom::Start(pos)).unwrap();
            let mut b1 = vec![0xAAu8; n];
            let mut b2 = vec![0xAAu8; n];
            let r1 = h.read(&mut b1);
            let r2 = c.read(&mut b2);
            let same = match (&r1, &r2) {
                (Ok(x), Ok(y)) => x == y && b1 == b2,
                _ => false,
            };
            format!("{}\trivia={:?} {}\tcursor={:?} {}", if same { "SAME" } else { "DIFF" }, r1.map_err(|e| e.kind()), hex(&b1), r2.map_err(|e| e.kind()), hex(&b2))
        },
        "clean" => okp(sys::clean(s(a[1]))),
        "relative" => res(sys::relative(s(a[1]), s(a[2])), okp),
        "mash" => okp(sys::mash(s(a[1]), s(a[2]))),
        "trim_prefix" => okp(sys::trim_prefix(s(a[1]), s(a[2]))),
        "trim_suffix" => okp(sys::trim_suffix(s(a[1]), s(a[2]))),
        "trim_first" => okp(sys::trim_first(s(a[1]))),
        "trim_last" => okp(sys::trim_last(s(a[1]))),
        "trim_protocol" => okp(sys::trim_protocol(s(a[1]))),
        "expand" => res(sys::expand(s(a[1])), okp),
        "slice" => {
            let n: usize = a[1].parse().unwrap();
            let l: isize = a[2].parse().unwrap();
            let r: isize = a[3].parse().unwrap();
            let v: Vec<usize> = (0..n).collect();
            let out: Vec<String> = v.into_iter().slice(l, r).map(|x| x.to_string()).collect();
            format!("OK\t{}", out.join(","))
        },
        "drop" => {
            let n: usize = a[1].parse().unwrap();
            let k: isize = a[2].parse().unwrap();
            let v: Vec<usize> = (0..n).collect();
            let out: Vec<String> = v.into_iter().drop(k).map(|x| x.to_string()).collect();
            format!("OK\t{}", out.join(","))
        },
        "str_trim_suffix" => format!("OK\t{}", hex(s(a[1]).as_str().trim_suffix(s(a[2])).as_bytes())),
        "str_size" => format!("OK\t{}", s(a[1]).as_str().size()),
        "abs" => {
            let vfs = Memfs::new();
            if a.len() > 2 && !a[2].is_empty() {
                let _ = vfs.mkdir_p(s(a[2]));
                let _ = vfs.set_cwd(s(a[2]));
            }
            res(vfs.abs(s(a[1])), okp)
        },
        "chmod_sym" => {
            // chmod_sym kind(f|d) mode0(octal) sym : apply a symbolic mode to a fresh entry, report the resulting mode
            let vfs = Memfs::new();
            let p = "/x";
            if a[1] == "d" {
                vfs.mkdir_m(p, u32::from_str_radix(a[2], 8).unwrap()).unwrap();
            } else {
                vfs.mkfile_m(p, u32::from_str_radix(a[2], 8).unwrap()).unwrap();
            }
            let r = vfs.chmod_b(p).and_then(|b| b.sym(&s(a[3])).exec());
            match r {
                Ok(_) => format!("OK\t{:o}", vfs.mode(p).unwrap()),
                Err(e) => format!("ERR\t{:?}\t{:o}", e, vfs.mode(p).unwrap()),
            }
        },
        // fs <script-hex> : run a history on a fresh Memfs; script = ops separated by ';', fields by ' ' (paths plain, data hex, modes octal).
        // Prints every result (OK / ERR kind) and the final observable tree (kind, mode, owner, content, link target per path).
        "fs" => {
            let script = s(a[1]);
            let vfs = Memfs::new();
            let mut out: Vec<String> = vec![];
            let kind = |e: &RvError| -> String { let t = format!("{:?}", e); t.split(|c: char| c == '(' || c == ' ' || c == '{').take(2).collect::<Vec<_>>().join("/") };
            for op in script.split(';') {
                let f: Vec<&str> = op.split(' ').filter(|x| !x.is_empty()).collect();
                if f.is_empty() { continue; }
                let m = |i: usize| u32::from_str_radix(f[i], 8).unwrap();
                let r: Result<String, RvError> = match f[0] {
                    "mkdir_p" => vfs.mkdir_p(f[1]).map(|_| "".into()),
                    "mkdir_m" => vfs.mkdir_m(f[1], m(2)).map(|_| "".into()),
                    "mkfile" => vfs.mkfile(f[1]).map(|_| "".into()),
                    "write_all" => vfs.write_all(f[1], &unhex(f.get(2).unwrap_or(&""))).map(|_| "".into()),
                    "append_all" => vfs.append_all(f[1], &unhex(f.get(2).unwrap_or(&""))).map(|_| "".into()),
                    "symlink" => vfs.symlink(f[1], f[2]).map(|_| "".into()),
                    "remove" => vfs.remove(f[1]).map(|_| "".into()),
                    "remove_all" => vfs.remove_all(f[1]).map(|_| "".into()),
                    "copy" => vfs.copy(f[1], f[2]).map(|_| "".into()),
                    "copy_follow" => vfs.copy_b(f[1], f[2]).and_then(|b| b.follow(true).exec()).map(|_| "".into()),
                    "copy_mode" => vfs.copy_b(f[1], f[2]).and_then(|b| b.chmod_all(m(3)).exec()).map(|_| "".into()),
                    "copy_dirs" => vfs.copy_b(f[1], f[2]).and_then(|b| b.chmod_dirs(m(3)).exec()).map(|_| "".into()),
                    "copy_files" => vfs.copy_b(f[1], f[2]).and_then(|b| b.chmod_files(m(3)).exec()).map(|_| "".into()),
                    "move_p" => vfs.move_p(f[1], f[2]).map(|_| "".into()),
                    "set_cwd" => vfs.set_cwd(f[1]).map(|_| "".into()),
                    "chmod" => vfs.chmod(f[1], m(2)).map(|_| "".into()),
                    "chmod_files" => vfs.chmod_b(f[1]).and_then(|b| b.files(m(2)).exec()).map(|_| "".into()),
                    "chmod_dirs" => vfs.chmod_b(f[1]).and_then(|b| b.dirs(m(2)).exec()).map(|_| "".into()),
                    "chmod_sym" => vfs.chmod_b(f[1]).and_then(|b| b.sym(f[2]).exec()).map(|_| "".into()),
                    "chmod_nr" => vfs.chmod_b(f[1]).and_then(|b| b.all(m(2)).no_recurse().exec()).map(|_| "".into()),
                    "chown" => vfs.chown(f[1], f[2].parse().unwrap(), f[3].parse().unwrap()).map(|_| "".into()),
                    "chown_nr" => vfs.chown_b(f[1]).and_then(|b| b.owner(f[2].parse().unwrap(), f[3].parse().unwrap()).recurse(false).exec()).map(|_| "".into()),
                    "read_all" => vfs.read_all(f[1]),
                    "read_lines" => vfs.read_lines(f[1]).map(|v| v.join("|")),
                    "readlink" => vfs.readlink(f[1]).map(|p| p.to_string_lossy().to_string()),
                    "readlink_abs" => vfs.readlink_abs(f[1]).map(|p| p.to_string_lossy().to_string()),
                    "abs" => vfs.abs(f[1]).map(|p| p.to_string_lossy().to_string()),
                    "paths" => vfs.paths(f[1]).map(|v| v.iter().map(|p| p.to_string_lossy().to_string()).collect::<Vec<_>>().join("|")),
                    "all_paths" => vfs.all_paths(f[1]).map(|v| v.iter().map(|p| p.to_string_lossy().to_string()).collect::<Vec<_>>().join("|")),
                    "dirs" => vfs.dirs(f[1]).map(|v| v.iter().map(|p| p.to_string_lossy().to_string()).collect::<Vec<_>>().join("|")),
                    "files" => vfs.files(f[1]).map(|v| v.iter().map(|p| p.to_string_lossy().to_string()).collect::<Vec<_>>().join("|")),
                    // entries <path> <flags>: flags separated by ',': d(irs) f(iles) F(ollow) c(ontents_first) s(ort_by_name) D(irs_first) I(files_first)
                    // m<N> min_depth M<N> max_depth p<suffix> filter_p(path has suffix); "-" = none.  Yields joined by '|', errors as ERR(kind)
                    "entries" => vfs.entries(f[1]).map(|mut e| {
                        let mut suffix: Option<String> = None;
                        for fl in f.get(2).unwrap_or(&"-").split(',') {
                            let (k, v) = fl.split_at(if fl.is_empty() { 0 } else { 1 });
                            e = match k {
                                "d" => e.dirs(), "f" => e.files(), "F" => e.follow(true), "c" => e.contents_first(), "s" => e.sort_by_name(),
                                "D" => e.dirs_first(), "I" => e.files_first(), "m" => e.min_depth(v.parse().unwrap()), "M" => e.max_depth(v.parse().unwrap()),
                                "p" => { suffix = Some(v.to_string()); e },
                                _ => e,
                            };
                        }
                        let it = e.into_iter();
                        let it = match suffix { Some(sfx) => it.filter_p(move |x| x.path().to_string_lossy().ends_with(&sfx)), None => it };
                        it.take(500).map(|x| match x { Ok(en) => en.path().to_string_lossy().to_string(), Err(er) => format!("ERR({})", kind(&er)) }).collect::<Vec<_>>().join("|")
                    }),
                    "is_dir" => Ok(vfs.is_dir(f[1]).to_string()),
                    "is_file" => Ok(vfs.is_file(f[1]).to_string()),
                    "is_symlink" => Ok(vfs.is_symlink(f[1]).to_string()),
                    "exists" => Ok(vfs.exists(f[1]).to_string()),
                    _ => Ok("?".into()),
                };
                out.push(match r { Ok(v) => format!("{}=OK({})", f[0], v), Err(e) => format!("{}=ERR({})", f[0], kind(&e)) });
            }
            // final observable tree, through the public API only
            let mut tree: Vec<String> = vec![];
            let mut stack = vec![PathBuf::from("/")];
            let mut seen = 0;
            while let Some(p) = stack.pop() {
                seen += 1;
                if seen > 400 { tree.push("...".into()); break; }
                let ps = p.to_string_lossy().to_string();
                let k = if vfs.is_symlink(&p) { "l" } else if vfs.is_dir(&p) { "d" } else if vfs.is_file(&p) { "f" } else { "?" };
                let mode = vfs.mode(&p).map(|m| format!("{:o}", m)).unwrap_or("-".into());
                let own = vfs.owner(&p).map(|(u, g)| format!("{}:{}", u, g)).unwrap_or("-".into());
                let extra = if k == "l" { vfs.readlink_abs(&p).map(|t| t.to_string_lossy().to_string()).unwrap_or("-".into()) } else if k == "f" { vfs.read_all(&p).map(|c| hex(c.as_bytes())).unwrap_or("!".into()) } else { "".into() };
                tree.push(format!("{} {} {} {} {}", ps, k, mode, own, extra));
                if k == "d" {
                    if let Ok(mut kids) = vfs.paths(&p) { kids.sort(); kids.reverse(); for c in kids { stack.push(c); } }
                }
            }
            format!("OK\t{}\tcwd={}\t{}", out.join(";"), vfs.cwd().map(|p| p.to_string_lossy().to_string()).unwrap_or("-".into()), tree.join("|"))
        },
        _ => "UNKNOWN-OP".to_string(),
    }
}

fn main() {
    panic::set_hook(Box::new(|_| {}));
    let stdin = std::io::stdin();
    let out = std::io::stdout();
    for line in stdin.lock().lines() {
        let line = line.unwrap();
        let parts: Vec<String> = line.split('\t').map(|x| x.to_string()).collect();
        let r = panic::catch_unwind(move || {
            let a: Vec<&str> = parts.iter().map(|x| x.as_str()).collect();
            run(&a)
        });
        let txt = match r {
            Ok(t) => t,
            Err(e) => {
                let m = if let Some(s) = e.downcast_ref::<String>() { s.clone() } else if let Some(s) = e.downcast_ref::<&str>() { s.to_string() } else { "?".into() };
                format!("PANIC\t{}", m.replace('\t', " ").replace('\n', " "))
            },
        };
        let mut o = out.lock();
        writeln!(o, "{}", txt).unwrap();
    }
}
