import os, sys
sys.path.insert(0, os.path.join(os.path.dirname(os.path.abspath(__file__)), '..', 'vc'))
import oracles as O


def find(d, fn, seed):
    if fn not in ('clean', 'is_empty', 'has'):
        return None
    ins = [s for s in O.strings(['/', '.', 'a', ' '], 6)]
    outs = d.run(['clean\t%s' % O.hexs(s) for s in ins])
    for s, o in zip(ins, outs):
        exp = O.go_clean(s)
        got = O.unhex(o.split('\t')[1]) if o.startswith('OK\t') and len(o.split('\t')) > 1 else o
        if o.startswith('OK') and len(o.split('\t')) == 1:
            got = ''
        if got != exp:
            return {'driver_line': 'clean\t%s' % O.hexs(s), 'input': {'path': s}, 'expected': exp, 'got': got,
                    'oracle': "Go path.Clean (vc/oracles.py go_clean)"}
    return None
