//@ unit memfs_clone
//@ props C12 C01
// Memfs::_clone_entries: the work-list that snapshots the branch a traversal will visit (children and existing link targets).
// Property C12 needs it to terminate on every well-formed tree, including link cycles; C01 that the snapshot holds stored entries.
//@ prelude base errors io iter path_abs memfs_state memfs_api
//@ struct file=src/sys/fs/memfs/file.rs name=MemfsFile
//@ endstruct
//@ struct file=src/sys/fs/memfs/entry.rs name=MemfsEntry
//@ rw R4 * ⟦Option<HashSet<String>>⟧ => ⟦Option<NameSet>⟧
//@ endstruct

// HashMap<PathBuf, MemfsEntry> as a finite map keyed by the absolute clean path (ASSUMED[hashmap])
#[verifier::external_body] pub struct MemfsEntries { x: u8 }
impl MemfsEntries {
    pub uninterp spec fn view(&self) -> Map<PathV, EntryV>;
    #[verifier::external_body] pub fn new() -> (r: MemfsEntries) ensures r@ == Map::<PathV, EntryV>::empty() { unimplemented!() }
    #[verifier::external_body] pub fn insert(&mut self, k: PathBuf, v: MemfsEntry) requires k.abs_clean() ensures final(self)@ == old(self)@.insert(k@, v.ev()) { unimplemented!() }
    #[verifier::external_body] pub fn contains_key(&self, k: &PathBuf) -> (b: bool) requires k.abs_clean() ensures b == self@.contains_key(k@) { unimplemented!() }
}
#[verifier::external_body]
pub fn vec_of1(p: PathBuf) -> (r: Vec<PathBuf>) ensures r@.len() == 1, r@[0]@ == p@, r@[0].abs_clean() == p.abs_clean() { unimplemented!() }
impl MemfsEntry {
    #[verifier::external_body] pub fn path_buf(&self) -> (r: PathBuf) ensures r@ == self.path@, r.abs_clean() == self.path.abs_clean() { unimplemented!() }
    #[verifier::external_body] pub fn alt(&self) -> (r: &PathBuf) ensures r.comps() == self.alt.comps(), r@ == self.alt@, r.abs_clean() == self.alt.abs_clean() { unimplemented!() }
    #[verifier::external_body] pub fn alt_buf(&self) -> (r: PathBuf) ensures r.comps() == self.alt.comps(), r@ == self.alt@, r.abs_clean() == self.alt.abs_clean() { unimplemented!() }
}
// every link records an absolute clean target (established by _symlink: alt = abs(target)); not part of wf, stated as a precondition
pub open spec fn links_abs(s: St) -> bool {
    forall|p: PathV| s.entries.contains_key(p) && (#[trigger] s.entries[p]).link ==> exists|v: PathV| s.entries[p].alt == abs_comps(v)
}
pub open spec fn alt_of(e: EntryV) -> PathV { choose|v: PathV| e.alt == abs_comps(v) }

// ---- termination measure: (entries not yet snapshotted, total size of the subtrees waiting on the stack)
pub open spec fn sub_dom(s: St, a: PathV) -> Set<PathV> { s.entries.dom().filter(|k: PathV| in_sub(a, k)) }
pub open spec fn tsize(s: St, x: PathV) -> nat { sub_dom(s, x).len() }
pub open spec fn tsum(s: St, ps: Seq<PathBuf>) -> nat decreases ps.len() {
    if ps.len() == 0 { 0 } else { tsum(s, ps.drop_last()) + tsize(s, ps.last()@) }
}
pub proof fn lemma_tsum_push(s: St, ps: Seq<PathBuf>, x: PathBuf)
    ensures tsum(s, ps.push(x)) == tsum(s, ps) + tsize(s, x@)
{
    assert(ps.push(x).drop_last() =~= ps);
}
//@ obligation lemma_tsum_push props=C12
// the subtree of x is x itself plus the subtrees of its listed children, which are pairwise disjoint
pub open spec fn cover(s: St, x: PathV, ns: Seq<NameStr>, i: nat) -> Set<PathV> decreases i {
    if i == 0 { set![x] } else { cover(s, x, ns, (i - 1) as nat).union(sub_dom(s, x.push(ns[i - 1]@))) }
}
pub open spec fn csum(s: St, x: PathV, ns: Seq<NameStr>, i: nat) -> nat decreases i {
    if i == 0 { 0 } else { csum(s, x, ns, (i - 1) as nat) + tsize(s, x.push(ns[i - 1]@)) }
}
pub proof fn lemma_sub_finite(s: St, a: PathV)
    requires s.entries.dom().finite()
    ensures sub_dom(s, a).finite(), sub_dom(s, a).len() <= s.entries.dom().len()
{
    s.entries.dom().lemma_len_filter(|k: PathV| in_sub(a, k));
}
//@ obligation lemma_sub_finite props=C12
pub proof fn lemma_cover(s: St, x: PathV, ns: Seq<NameStr>, i: nat)
    requires s.entries.dom().finite(), i <= ns.len(), ns.no_duplicates_by_view()
    ensures cover(s, x, ns, i).finite(), cover(s, x, ns, i).len() == 1 + csum(s, x, ns, i),
            forall|k: PathV| #[trigger] cover(s, x, ns, i).contains(k) ==> (k == x || exists|j: int| 0 <= j < i && in_sub(x.push(ns[j]@), k)),
    decreases i
{
    if i > 0 {
        let i1 = (i - 1) as nat;
        lemma_cover(s, x, ns, i1);
        let c = x.push(ns[i1 as int]@);
        let A = cover(s, x, ns, i1);
        let B = sub_dom(s, c);
        lemma_sub_finite(s, c);
        assert(A.disjoint(B)) by {
            assert forall|k: PathV| A.contains(k) && B.contains(k) implies false by {
                assert(in_sub(c, k));
                assert(k.len() > x.len());
                if k == x { assert(false); }
                let j = choose|j: int| 0 <= j < i1 && in_sub(x.push(ns[j]@), k);
                assert(k.take(x.len() as int + 1)[x.len() as int] == ns[j]@) by { assert(k.take(x.len() as int + 1) == x.push(ns[j]@)); assert(x.push(ns[j]@)[x.len() as int] == ns[j]@); }
                assert(k.take(x.len() as int + 1)[x.len() as int] == ns[i1 as int]@) by { assert(k.take(x.len() as int + 1) == c); assert(c[x.len() as int] == ns[i1 as int]@); }
            }
        }
        vstd::set_lib::lemma_set_disjoint_lens(A, B);
        assert(A + B =~= A.union(B));
        assert forall|k: PathV| #[trigger] cover(s, x, ns, i).contains(k) implies (k == x || exists|j: int| 0 <= j < i && in_sub(x.push(ns[j]@), k)) by {
            if A.contains(k) { if k != x { let j = choose|j: int| 0 <= j < i1 && in_sub(x.push(ns[j]@), k); assert(0 <= j < i && in_sub(x.push(ns[j]@), k)); } }
            else { assert(B.contains(k)); assert(0 <= i1 < i && in_sub(x.push(ns[i1 as int]@), k)); }
        }
    }
}
//@ obligation lemma_cover props=C12
pub proof fn lemma_cover_has(s: St, x: PathV, ns: Seq<NameStr>, n: nat, j: int, k: PathV)
    requires 0 <= j < n <= ns.len(), sub_dom(s, x.push(ns[j]@)).contains(k)
    ensures cover(s, x, ns, n).contains(k)
    decreases n
{
    if j < n - 1 { lemma_cover_has(s, x, ns, (n - 1) as nat, j, k); }
}
pub proof fn lemma_cover_x(s: St, x: PathV, ns: Seq<NameStr>, n: nat)
    requires n <= ns.len()
    ensures cover(s, x, ns, n).contains(x), forall|k: PathV| #[trigger] cover(s, x, ns, n).contains(k) && k != x ==> s.entries.contains_key(k)
    decreases n
{
    if n > 0 { lemma_cover_x(s, x, ns, (n - 1) as nat); }
}
pub open spec fn lists_kids(s: St, x: PathV, ns: Seq<NameStr>) -> bool {
    let kids = s.entries[x].kids;
    &&& ns.no_duplicates_by_view()
    &&& (kids is None ==> ns.len() == 0)
    &&& (kids is Some ==> forall|n: Name| kids->Some_0.contains(n) <==> exists|i: int| 0 <= i < ns.len() && (#[trigger] ns[i])@ == n)
}
// size of a subtree = 1 + sizes of the children's subtrees
pub proof fn lemma_tsize_children(s: St, x: PathV, ns: Seq<NameStr>)
    requires wf(s), s.entries.dom().finite(), s.entries.contains_key(x), lists_kids(s, x, ns)
    ensures tsize(s, x) == 1 + csum(s, x, ns, ns.len())
{
    let n = ns.len();
    lemma_cover(s, x, ns, n);
    lemma_cover_x(s, x, ns, n);
    let C = cover(s, x, ns, n);
    assert(in_sub(x, x)) by { assert(x.take(x.len() as int) =~= x); }
    assert forall|k: PathV| C.contains(k) == sub_dom(s, x).contains(k) by {
        if C.contains(k) {
            if k != x {
                let j = choose|j: int| 0 <= j < n && in_sub(x.push(ns[j]@), k);
                let c = x.push(ns[j]@);
                assert(in_sub(x, k)) by { assert(k.take(x.len() as int) =~= k.take(c.len() as int).take(x.len() as int)); assert(c.take(x.len() as int) =~= x); }
            }
        }
        if sub_dom(s, x).contains(k) && k != x {
            assert(k.len() > x.len()) by { if k.len() == x.len() { assert(k.take(x.len() as int) =~= k); } }
            let c = k.take(x.len() as int + 1);
            lemma_prefix_exists(s, k, x.len() as int + 1);
            assert(entry_ok(s, c));
            assert(c.drop_last() =~= x) by { assert(c.drop_last() =~= k.take(x.len() as int)); }
            let nm = c.last();
            assert(s.entries[x].kids->Some_0.contains(nm));
            let i = choose|i: int| 0 <= i < ns.len() && (#[trigger] ns[i])@ == nm;
            assert(x.push(ns[i]@) =~= c);
            assert(in_sub(c, k));
            lemma_cover_has(s, x, ns, n, i, k);
        }
    }
    assert(C =~= sub_dom(s, x));
}
//@ obligation lemma_cover_has props=C12
//@ obligation lemma_cover_x props=C12
//@ obligation lemma_tsize_children props=C12
//@ obligation lemma_prefix_exists props=C12
pub proof fn lemma_prefix_exists(s: St, q: PathV, n: int)
    requires wf(s), s.entries.contains_key(q), 0 <= n <= q.len()
    ensures s.entries.contains_key(q.take(n))
    decreases q.len() - n
{
    if n == q.len() { assert(q.take(n) =~= q); } else {
        assert(entry_ok(s, q));
        let d = q.drop_last();
        assert(d.take(n) =~= q.take(n));
        lemma_prefix_exists(s, d, n);
    }
}

// snapshot invariant: everything cloned so far is a stored entry, and every cloned link whose target exists has its target cloned
// already, or waiting on top of the stack (the loop-detection argument)
pub open spec fn snap_ok(g: St, e: Map<PathV, EntryV>) -> bool {
    forall|k: PathV| #[trigger] e.contains_key(k) ==> g.entries.contains_key(k) && e[k] == g.entries[k]
}
pub open spec fn targets_ok(g: St, e: Map<PathV, EntryV>, ps: Seq<PathBuf>) -> bool {
    forall|k: PathV| #[trigger] e.contains_key(k) && g.entries[k].link && g.entries.contains_key(alt_of(g.entries[k]))
        ==> e.contains_key(alt_of(g.entries[k])) || (ps.len() > 0 && ps.last()@ == alt_of(g.entries[k]))
}
pub open spec fn stack_ok(g: St, ps: Seq<PathBuf>) -> bool {
    forall|i: int| 0 <= i < ps.len() ==> (#[trigger] ps[i]).abs_clean() && g.entries.contains_key(ps[i]@)
}

//@ item _clone_entries file=src/sys/fs/memfs/vfs.rs block="impl Memfs" fn=_clone_entries props=C12,C01,C11,C09,C08,C03
//@ sig pub(crate) fn _clone_entries<T: AsRef<Path>>(&self, guard: &MemfsGuard, path: T) -> RvResult<MemfsEntries>
// R2: the parameter `path` is renamed `path0` (the loop's `while let Some(path)` binding shadows it; Verus cannot name a shadowed parameter in an invariant)
//@ rw R11 1 ⟦self._abs(guard, path)?⟧ => ⟦_abs(guard, path0)?⟧
//@ rw R4 * ⟦HashMap::new()⟧ => ⟦MemfsEntries::new()⟧
//@ rw R9 1 re⟦vec!\[abs(\.clone\(\))?\]⟧ => ⟦vec_of1(abs\1)⟧
//@ rw R3 1 ⟦for name in files {⟧ => ⟦for name in files.iter() {⟧
//@ rw R1 * ⟦paths.push(entry.path().mash(name));⟧ => ⟦paths.push(entry.path().mash_name(&name));⟧
//@ rw R3 1 for
//@ ins after re⟦let mut paths = vec_of1\(abs(?:\.clone\(\))?\);⟧
        let ghost g = guard.st();
        let ghost a0 = paths@[0]@;
        let ghost mut started = false;
        let ghost pc0 = path0.comps();
        let ghost mut old_paths = paths@;
        proof { guard.ax_finite(); assert(tsum(g, paths@.drop_last()) == 0); }
//@ endins
//@ loop 1
            invariant
                g == guard.st(), wf(g), links_abs(g), g.entries.dom().finite(),
                old_paths == paths@,
                forall|i: int| 0 <= i < paths@.len() ==> (#[trigger] paths@[i]).abs_clean(),
                !started ==> paths@.len() == 1 && paths@[0]@ == a0 && entries@ =~= Map::<PathV, EntryV>::empty(),
                spec_abs(g.cwd, pc0) == Some(a0), pc0 == path0.comps(),
                started ==> stack_ok(g, paths@) && g.entries.contains_key(a0) && entries@.contains_key(a0),
                snap_ok(g, entries@), targets_ok(g, entries@, paths@),
            ensures started && paths@.len() == 0,
            decreases g.entries.dom().difference(entries@.dom()).len(), tsum(g, paths@)
//@ endloop
//@ ins before ⟦if let Some(entry) = guard.get_entry(&path) {⟧
            let ghost x = path@;
            let ghost base = paths@;
            let ghost e0 = entries@;
            proof {
                assert(old_paths =~= base.push(path)); lemma_tsum_push(g, base, path);
                assert(old_paths[base.len() as int] == path);
                if started { assert(g.entries.contains_key(x)); } else { assert(x == a0); }
            }
//@ endins
//@ ins before ⟦entries.insert(entry.path_buf(), entry.clone());⟧
                proof { assert(entry_ok(g, x)); assert(entry.ev() == g.entries[x]); }
//@ endins
//@ ins after ⟦entries.insert(entry.path_buf(), entry.clone());⟧
                let ghost e1 = entries@;
                let ghost mut ns_g: Seq<NameStr> = Seq::empty();
                proof {
                    assert(entry_ok(g, x));
                    assert(e1 == e0.insert(x, g.entries[x]));
                    if e0.contains_key(x) { assert(e1.dom() =~= e0.dom()); } else {
                        assert(g.entries.dom().difference(e1.dom()) =~= g.entries.dom().difference(e0.dom()).remove(x));
                    }
                }
//@ endins
//@ loop 2
                    invariant
                        entry.path.abs_clean(), entry.path@ == x,
                        0 <= ci <= ns.len(), __it1.rest() == ns.skip(ci),
                        paths@.len() == base.len() + ci,
                        forall|i: int| 0 <= i < base.len() ==> paths@[i] == base[i],
                        forall|i: int| 0 <= i < ci ==> (#[trigger] paths@[base.len() + i]).abs_clean() && paths@[base.len() + i]@ == x.push(ns[i]@),
                        tsum(g, paths@) == tsum(g, base) + csum(g, x, ns, ci as nat),
                    ensures ci == ns.len(),
                    decreases ns.len() - ci
//@ endloop
//@ ins after ⟦{ let mut __it1 = files.iter();⟧
                    let ghost ns = __it1.rest();
                    let ghost mut ci: int = 0;
                    proof { ns_g = ns; }
//@ endins
//@ ins after ⟦None => break };⟧
                        proof { assert(name == ns[ci]); }
                        let ghost before = paths@;
//@ endins
//@ ins after ⟦paths.push(entry.path().mash_name(&name));⟧
                        proof { lemma_tsum_push(g, before, paths@.last()); ci = ci + 1; }
//@ endins
//@ ins before re⟦if entry\.is_symlink\(\)\s*&&[^{]*\{⟧
                let ghost mid = paths@;
                proof {
                    // children listed by the stored entry exist and their subtree sizes add up to the popped node's size minus one
                    assert(lists_kids(g, x, ns_g)) by { assert(entry.ev() == g.entries[x]); }
                    lemma_tsize_children(g, x, ns_g);
                    assert(tsum(g, mid) == tsum(g, base) + csum(g, x, ns_g, ns_g.len()));
                    assert forall|i: int| 0 <= i < mid.len() implies (#[trigger] mid[i]).abs_clean() && ((started || i >= base.len()) ==> g.entries.contains_key(mid[i]@)) by {
                        if i >= base.len() {
                            let c = i - base.len();
                            assert(mid[base.len() + c]@ == x.push(ns_g[c]@));
                            assert(g.entries[x].kids->Some_0.contains(ns_g[c]@));
                            assert(kids_ok(g, x, ns_g[c]@));
                        } else { assert(mid[i] == base[i]); assert(base[i] == old_paths[i]); }
                    }
                    if entry.link { entry.alt.ax_abs_of(alt_of(entry.ev())); }
                }
//@ endins
//@ ins after ⟦paths.push(entry.alt_buf());⟧
                    proof {
                        paths@.last().ax_abs_of(alt_of(entry.ev())); lemma_tsum_push(g, mid, paths@.last());
                        assert(g.entries.contains_key(paths@.last()@));
                        assert forall|i: int| 0 <= i < paths@.len() implies (#[trigger] paths@[i]).abs_clean() && ((started || i >= base.len()) ==> g.entries.contains_key(paths@[i]@)) by {
                            if i < mid.len() { assert(paths@[i] == mid[i]); }
                        }
                    }
//@ endins
//@ ins loopend 1
            proof {
                assert forall|i: int| 0 <= i < paths@.len() implies (#[trigger] paths@[i]).abs_clean() && g.entries.contains_key(paths@[i]@) by {
                    if i < base.len() && !started { assert(base.len() == 0); }
                }
                started = true;
                old_paths = paths@;
            }
//@ endins
pub fn _clone_entries(guard: &MemfsGuard, path0: &PathBuf) -> (r: RvResult<MemfsEntries>)
    requires wf(guard.st()), links_abs(guard.st()),
    ensures
        // terminates for every well formed tree, link cycles included (decreases clause of the work-list)      //@ clause clone_entries.terminates_on_link_cycles [C12]
        spec_abs(guard.st().cwd, path0.comps()) is None ==> r is Err,
        spec_abs(guard.st().cwd, path0.comps()) is Some ==> ({
            let a = spec_abs(guard.st().cwd, path0.comps())->Some_0;
            &&& (r is Err) == !guard.st().entries.contains_key(a)                                            //@ clause clone_entries.fails_only_for_a_missing_root [C01]
            &&& r is Err ==> r->Err_0.kind == ErrKind::DoesNotExist
            &&& r is Ok ==> r->Ok_0@.contains_key(a) && snap_ok(guard.st(), r->Ok_0@)                        //@ clause clone_entries.snapshot_holds_stored_entries [C01]
        }),
//@ body
