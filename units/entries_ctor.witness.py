# the engine's searcher covers the whole traversal (EntryIter, the constructors and the lister are exercised through entries())
import os, importlib.util
_spec = importlib.util.spec_from_file_location('w_engine', os.path.join(os.path.dirname(os.path.abspath(__file__)), 'entries_engine.witness.py'))
_m = importlib.util.module_from_spec(_spec)
_spec.loader.exec_module(_m)
find = _m.find
