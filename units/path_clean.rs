//@ unit path_clean
//@ props C14 C12
// path::clean against Go's path.Clean written as a left fold over the component sequence (the six documented rules).
//@ prelude base errors iter path_comps spec_clean

// ---- core::option::OptionExt::has (real body below), used by clean
pub trait OptionExt {
    fn has(&self, c: Component) -> (b: bool);
}
impl OptionExt for Option<Component> {
//@ item has file=src/core/option.rs block="impl<T> OptionExt<T> for Option<T>" fn=has reach=no props=C19,C14,C12
//@ sig fn has<U>(&self, x: U) -> bool where U: PartialEq<T>
    fn has(&self, x: Component) -> (b: bool)
        ensures b == (*self == Some(x))     //@ clause has.post [C19,C14]
//@ body
}

// string containment helpers of the same module (ASSUMED[has-contracts]: proved in unit path_helpers): literal or path arguments
#[verifier::external_body]
pub fn has_prefix<U: PathLike>(path: &PathBuf, prefix: U) -> (r: bool) ensures r == (path.utf8_ok() && prefix.lu() && is_prefix(prefix.lp(), path.pstr())) { unimplemented!() }
#[verifier::external_body]
pub fn has_suffix<U: PathLike>(path: &PathBuf, suffix: U) -> (r: bool) ensures r == (path.utf8_ok() && suffix.lu() && is_suffix(suffix.lp(), path.pstr())) { unimplemented!() }
#[verifier::external_body]
pub fn has_sub<U: PathLike>(path: &PathBuf, val: U) -> (r: bool)
    ensures (path.utf8_ok() && val.lu()) ==> r == (exists|i: int| 0 <= i && i + val.lp().len() <= path.pstr().len() && #[trigger] path.pstr().subrange(i, i + val.lp().len()) == val.lp()),
            !(path.utf8_ok() && val.lu()) ==> !r
{ unimplemented!() }
//@ item is_empty file=src/sys/fs/path.rs fn=is_empty props=C14,C15,C12
//@ sig pub fn is_empty<T: Into<PathBuf>>(path: T) -> bool
//@ rw R1 * ⟦path.into() == PathBuf::new()⟧ => ⟦path.to_path_buf().eq(&PathBuf::new())⟧
//@ rw R1 * ⟦path.into()⟧ => ⟦path.to_path_buf()⟧
//@ ins start
    proof { assert(path.comps().len() == 0 ==> path.comps() =~= Seq::<Component>::empty()); }
//@ endins
pub fn is_empty(path: &PathBuf) -> (b: bool)
    ensures b == (path.comps().len() == 0)     //@ clause is_empty.post [C14,C15]
//@ body

//@ item clean file=src/sys/fs/path.rs fn=clean props=C14,C12,C05,C01,C16
//@ rw R1 * re⟦(?<![.\w])has\(⟧ => ⟦has_sub(⟧
//@ sig pub fn clean<T: AsRef<Path>>(path: T) -> PathBuf
//@ rw R3 1 for
//@ rw R8 * ⟦path_buf.push(".");⟧ => ⟦path_buf.push(Component::CurDir);⟧
//@ rw R9 1 ⟦let mut cnt = 0;⟧ => ⟦let mut cnt: usize = 0;⟧
//@ rw R9 1 ⟦let mut prev = None;⟧ => ⟦let mut prev: Option<Component> = None;⟧
//@ ins after ⟦let mut path_buf = PathBuf::new();⟧
    let ghost all = path.comps();
    let ghost mut k: int = 0;
//@ endins
//@ loop 1
        invariant
            0 <= k <= all.len(),
            __it1.rest() == all.skip(k),
            all == path.comps(), std_comps(all), all.len() < usize::MAX,
            cnt == path_buf.comps().len(),
            k == 0 ==> path_buf.comps().len() == 0,
            prev == last_opt(path_buf.comps()),
            stack_ok(path_buf.comps()), path_buf.canonical(),
            fold(path_buf.comps(), __it1.rest()) == fold(Seq::empty(), all),
            cnt <= k,
        ensures
            __it1.rest().len() == 0,
        decreases all.len() - k
//@ endloop
//@ ins after ⟦None => break };⟧
        proof { k = k + 1; }
//@ endins
pub fn clean(path: &PathBuf) -> (out: PathBuf)
    requires path.comps().len() < usize::MAX,       // a path has fewer than usize::MAX components (it is held in memory)
    ensures out.comps() == spec_clean(path.comps()),     //@ clause clean.post.go_path_clean [C14,C05]
            out.canonical(),                             //@ clause clean.result_string_is_canonical [C14]
//@ body

// ---- consequences of the specification: the lemmas live in prelude/spec_clean.rs (shared with unit abs_both) and are counted here
//@ obligation lemma_step_form props=C14
//@ obligation lemma_fold_form props=C14
//@ obligation lemma_clean_normal_form props=C14
//@ obligation lemma_fold_fix props=C14
//@ obligation lemma_clean_idempotent props=C14
//@ obligation lemma_fold_abs props=C14
//@ obligation lemma_fold_rel props=C14
//@ obligation lemma_clean_preserves_absoluteness props=C14
