//@ unit assert_macros
//@ props C20 C12
// The assert_vfs_* macros (src/testing/assert.rs) as functions over an abstract filesystem (R10): `$vfs`/`$path` become
// parameters, `panic_msg!/panic_compare_msg!/panic!` become `return Verdict::Panic(<first literal>)`, falling off the end is Pass.
// The filesystem is ANY state with the query/operation contracts of the VirtualFileSystem trait (properties C01/C05/C10 give them
// for Memfs); so every verdict clause holds for every state and path, on either backend that honours those contracts.
//@ prelude base errors strs

pub enum Verdict { Pass, Panic(&'static str) }
pub proof fn lemma_names_mkdir()
    ensures is_prefix("assert_vfs_mkdir_p!"@, "assert_vfs_mkdir_p!: {}"@), is_prefix("assert_vfs_mkdir_m!"@, "assert_vfs_mkdir_m!: {}"@),
            is_prefix("assert_vfs_mkdir_m!"@, "assert_vfs_mkdir_m!: mode failure for {}"@)
{
    reveal_strlit("assert_vfs_mkdir_p!"); reveal_strlit("assert_vfs_mkdir_p!: {}"); reveal_strlit("assert_vfs_mkdir_m!"); reveal_strlit("assert_vfs_mkdir_m!: {}");
    reveal_strlit("assert_vfs_mkdir_m!: mode failure for {}");
    assert("assert_vfs_mkdir_p!: {}"@.take(19) =~= "assert_vfs_mkdir_p!"@);
    assert("assert_vfs_mkdir_m!: {}"@.take(19) =~= "assert_vfs_mkdir_m!"@);
    assert("assert_vfs_mkdir_m!: mode failure for {}"@.take(19) =~= "assert_vfs_mkdir_m!"@);
}
//@ obligation lemma_names_mkdir props=C20
pub open spec fn names(v: Verdict, mac: Seq<char>) -> bool { v is Panic ==> (v->Panic_0@ == mac || is_prefix(mac, v->Panic_0@)) }

// ---- abstract filesystem ------------------------------------------------------------------------------------------------
#[verifier::external_body] pub struct PathBuf { x: u8 }
impl PathBuf {
    pub uninterp spec fn sp(&self) -> int;            // the spelling (identity of the path value)
    pub uninterp spec fn resolved(&self) -> bool;     // result of abs(): absolute, so it denotes the same location in every state
    pub uninterp spec fn aid(&self) -> int;           // the location a resolved path denotes
    pub uninterp spec fn text(&self) -> Seq<char>;    // its string
    #[verifier::external_body] pub fn ne(&self, o: &PathBuf) -> (b: bool) ensures (self.resolved() && o.resolved()) ==> b == (self.aid() != o.aid()) { unimplemented!() }
    #[verifier::external_body] pub fn eq(&self, o: &PathBuf) -> (b: bool) ensures (self.resolved() && o.resolved()) ==> b == (self.aid() == o.aid()) { unimplemented!() }
    // rivia PathExt::has_suffix (unit path_helpers): string suffix
    #[verifier::external_body] pub fn has_suffix(&self, o: &PathBuf) -> (b: bool) ensures b == is_suffix(o.text(), self.text()) { unimplemented!() }
    // R4: `.to_string().unwrap()` on a path (panics for a non-UTF8 path; the macro arguments are UTF-8 test paths: ASSUMED[macro-args-utf8])
    #[verifier::external_body] pub fn to_string_unwrap(&self) -> (r: Str) ensures r@ == self.text() { unimplemented!() }
}
pub struct MSt { pub id: int }                          // an opaque filesystem state
pub uninterp spec fn loc(s: MSt, spelling: int) -> Option<int>;      // abs(): the location a spelling denotes (None: abs fails)
pub uninterp spec fn k_exists(s: MSt, a: int) -> bool;
pub uninterp spec fn k_dir(s: MSt, a: int) -> bool;                  // is_dir  (a real directory: links excluded)
pub uninterp spec fn k_file(s: MSt, a: int) -> bool;                 // is_file (a regular file: links excluded)
pub uninterp spec fn k_link(s: MSt, a: int) -> bool;                 // is_symlink
pub uninterp spec fn k_mode(s: MSt, a: int) -> u32;
pub uninterp spec fn k_data(s: MSt, a: int) -> Option<Seq<char>>;    // read_all
pub uninterp spec fn k_rel(s: MSt, a: int) -> Option<Seq<char>>;     // readlink (string of the relative target)
pub uninterp spec fn k_alt(s: MSt, a: int) -> Option<int>;           // readlink_abs (location of the target)
// the trait's operations as state transformers (what the call does is the backend's business: C01)
pub uninterp spec fn op_mkdir_p(s: MSt, a: int) -> MSt;
pub uninterp spec fn op_mkdir_m(s: MSt, a: int, m: u32) -> MSt;
pub uninterp spec fn op_mkfile(s: MSt, a: int) -> MSt;
pub uninterp spec fn op_write_all(s: MSt, a: int, d: Seq<char>) -> MSt;
pub uninterp spec fn op_copy(s: MSt, a: int, b: int) -> MSt;
pub uninterp spec fn op_remove(s: MSt, a: int) -> MSt;
pub uninterp spec fn op_remove_all(s: MSt, a: int) -> MSt;
pub uninterp spec fn op_symlink(s: MSt, a: int, t: int) -> MSt;
// ASSUMED[vfs-kinds]: is_dir / is_file / is_symlink imply exists (trait documentation; proved for Memfs in unit memfs_ops)
#[verifier::external_body]
pub proof fn ax_kinds(s: MSt, a: int) ensures k_dir(s, a) ==> k_exists(s, a), k_file(s, a) ==> k_exists(s, a), k_link(s, a) ==> k_exists(s, a), !(k_dir(s, a) && k_file(s, a)) { }

#[verifier::external_body] pub struct VfsM { x: u8 }
impl VfsM {
    pub uninterp spec fn st(&self) -> MSt;
    // ASSUMED[vfs-contracts]: each method below carries the contract of the VirtualFileSystem method of the same name
    // (abs is idempotent on its own results and state independent for them: C05)
    #[verifier::external_body]
    pub fn abs(&self, p: &PathBuf) -> (r: RvResult<PathBuf>)
        ensures r is Ok == ((p.resolved() || loc(self.st(), p.sp()) is Some)),
                r is Ok ==> r->Ok_0.resolved() && (p.resolved() ==> r->Ok_0.aid() == p.aid() && r->Ok_0.text() == p.text()) && (!p.resolved() ==> Some(r->Ok_0.aid()) == loc(self.st(), p.sp()))
    { unimplemented!() }
    #[verifier::external_body] pub fn exists(&self, p: &PathBuf) -> (b: bool) requires p.resolved() ensures b == k_exists(self.st(), p.aid()) { unimplemented!() }
    #[verifier::external_body] pub fn is_dir(&self, p: &PathBuf) -> (b: bool) requires p.resolved() ensures b == k_dir(self.st(), p.aid()) { unimplemented!() }
    #[verifier::external_body] pub fn is_file(&self, p: &PathBuf) -> (b: bool) requires p.resolved() ensures b == k_file(self.st(), p.aid()) { unimplemented!() }
    #[verifier::external_body] pub fn is_symlink(&self, p: &PathBuf) -> (b: bool) requires p.resolved() ensures b == k_link(self.st(), p.aid()) { unimplemented!() }
    #[verifier::external_body] pub fn mode(&self, p: &PathBuf) -> (r: RvResult<u32>) requires p.resolved() ensures r is Ok == k_exists(self.st(), p.aid()), r is Ok ==> r->Ok_0 == k_mode(self.st(), p.aid()) { unimplemented!() }
    #[verifier::external_body] pub fn read_all(&self, p: &PathBuf) -> (r: RvResult<Str>) requires p.resolved() ensures r is Ok == k_data(self.st(), p.aid()) is Some, r is Ok ==> r->Ok_0@ == k_data(self.st(), p.aid())->Some_0 { unimplemented!() }
    #[verifier::external_body] pub fn readlink(&self, p: &PathBuf) -> (r: RvResult<PathBuf>) requires p.resolved() ensures r is Ok == k_rel(self.st(), p.aid()) is Some, r is Ok ==> r->Ok_0.text() == k_rel(self.st(), p.aid())->Some_0 { unimplemented!() }
    #[verifier::external_body] pub fn readlink_abs(&self, p: &PathBuf) -> (r: RvResult<PathBuf>) requires p.resolved() ensures r is Ok == k_alt(self.st(), p.aid()) is Some, r is Ok ==> r->Ok_0.resolved() && r->Ok_0.aid() == k_alt(self.st(), p.aid())->Some_0 { unimplemented!() }
    #[verifier::external_body] pub fn mkdir_p(&mut self, p: &PathBuf) -> (r: RvResult<PathBuf>) requires p.resolved()
        ensures final(self).st() == op_mkdir_p(old(self).st(), p.aid()), r is Ok ==> r->Ok_0.resolved() && r->Ok_0.aid() == p.aid() && k_dir(final(self).st(), p.aid()) { unimplemented!() }
    #[verifier::external_body] pub fn mkdir_m(&mut self, p: &PathBuf, m: u32) -> (r: RvResult<PathBuf>) requires p.resolved()
        ensures final(self).st() == op_mkdir_m(old(self).st(), p.aid(), m), r is Ok ==> r->Ok_0.resolved() && r->Ok_0.aid() == p.aid() && k_dir(final(self).st(), p.aid()) { unimplemented!() }
    #[verifier::external_body] pub fn mkfile(&mut self, p: &PathBuf) -> (r: RvResult<PathBuf>) requires p.resolved()
        ensures final(self).st() == op_mkfile(old(self).st(), p.aid()), r is Ok ==> r->Ok_0.resolved() && r->Ok_0.aid() == p.aid(),
                k_file(old(self).st(), p.aid()) ==> op_mkfile(old(self).st(), p.aid()) == old(self).st()      // an existing file is left alone (C01 mkfile)
    { unimplemented!() }
    #[verifier::external_body] pub fn write_all(&mut self, p: &PathBuf, d: &Str) -> (r: RvResult<()>) requires p.resolved()
        ensures final(self).st() == op_write_all(old(self).st(), p.aid(), d@), (r is Ok && k_file(final(self).st(), p.aid())) ==> k_data(final(self).st(), p.aid()) == Some(d@) { unimplemented!() }
    #[verifier::external_body] pub fn copy(&mut self, a: &PathBuf, b: &PathBuf) -> (r: RvResult<()>) requires a.resolved(), b.resolved()
        ensures final(self).st() == op_copy(old(self).st(), a.aid(), b.aid()) { unimplemented!() }
    #[verifier::external_body] pub fn remove(&mut self, p: &PathBuf) -> (r: RvResult<()>) requires p.resolved()
        ensures final(self).st() == op_remove(old(self).st(), p.aid()), r is Err ==> final(self).st() == old(self).st() { unimplemented!() }
    #[verifier::external_body] pub fn remove_all(&mut self, p: &PathBuf) -> (r: RvResult<()>) requires p.resolved()
        ensures final(self).st() == op_remove_all(old(self).st(), p.aid()) { unimplemented!() }
    #[verifier::external_body] pub fn symlink(&mut self, l: &PathBuf, t: &PathBuf) -> (r: RvResult<PathBuf>) requires l.resolved()
        ensures final(self).st() == op_symlink(old(self).st(), l.aid(), t.sp()), r is Ok ==> r->Ok_0.resolved() && r->Ok_0.aid() == l.aid() { unimplemented!() }
}
// the location `path` denotes for the macro: abs(path)
pub open spec fn at(v: &VfsM, p: &PathBuf) -> Option<int> { if p.resolved() { Some(p.aid()) } else { loc(v.st(), p.sp()) } }

//@ item exists file=src/testing/assert.rs fn=assert_vfs_exists mode=macro props=C20,C12
//@ sig macro_rules! assert_vfs_exists ($vfs:expr, $path:expr)
//@ rw R10 + re⟦\$(\w+)⟧ => ⟦\1⟧
//@ rw R10 * re⟦panic_(?:compare_)?msg!\(\s*("[^"]*")\s*,(?:[^()]|\((?:[^()]|\([^()]*\))*\))*\)⟧ => ⟦return Verdict::Panic(\1)⟧
//@ rw R10 * re⟦panic!\(\s*("[^"]*")\s*,(?:[^()]|\((?:[^()]|\([^()]*\))*\))*\)⟧ => ⟦return Verdict::Panic(\1)⟧
//@ rw R10 1 re⟦\}\s*$⟧ => ⟦ Verdict::Pass }⟧
//@ rw R1 * ⟦&x != &target⟧ => ⟦x.ne(&target)⟧
//@ rw R1 * ⟦&x != &link⟧ => ⟦x.ne(&link)⟧
//@ ins start
        proof { match at(vfs, path) { Some(a) => { ax_kinds(vfs.st(), a); }, None => {} } }
//@ endins
pub fn assert_vfs_exists(vfs: &mut VfsM, path: &PathBuf) -> (v: Verdict)
    ensures
        final(vfs).st() == old(vfs).st(),                                                                  //@ clause exists.checking_macro_changes_nothing [C20]
        at(old(vfs), path) is Some ==> ((v is Pass) == (k_exists(old(vfs).st(), at(old(vfs), path)->Some_0))),     //@ clause exists.panics_exactly_when_predicate_false [C20]
        at(old(vfs), path) is None ==> v is Panic,
        names(v, "assert_vfs_exists!"@),                                                                    //@ clause exists.message_names_the_macro [C20]
//@ body

//@ item no_exists file=src/testing/assert.rs fn=assert_vfs_no_exists mode=macro props=C20,C12
//@ sig macro_rules! assert_vfs_no_exists ($vfs:expr, $path:expr)
//@ rw R10 + re⟦\$(\w+)⟧ => ⟦\1⟧
//@ rw R10 * re⟦panic_(?:compare_)?msg!\(\s*("[^"]*")\s*,(?:[^()]|\((?:[^()]|\([^()]*\))*\))*\)⟧ => ⟦return Verdict::Panic(\1)⟧
//@ rw R10 * re⟦panic!\(\s*("[^"]*")\s*,(?:[^()]|\((?:[^()]|\([^()]*\))*\))*\)⟧ => ⟦return Verdict::Panic(\1)⟧
//@ rw R10 1 re⟦\}\s*$⟧ => ⟦ Verdict::Pass }⟧
//@ rw R1 * ⟦&x != &target⟧ => ⟦x.ne(&target)⟧
//@ rw R1 * ⟦&x != &link⟧ => ⟦x.ne(&link)⟧
//@ ins start
        proof { match at(vfs, path) { Some(a) => { ax_kinds(vfs.st(), a); }, None => {} } }
//@ endins
pub fn assert_vfs_no_exists(vfs: &mut VfsM, path: &PathBuf) -> (v: Verdict)
    ensures
        final(vfs).st() == old(vfs).st(),                                                                  //@ clause no_exists.checking_macro_changes_nothing [C20]
        at(old(vfs), path) is Some ==> ((v is Pass) == (!k_exists(old(vfs).st(), at(old(vfs), path)->Some_0))),     //@ clause no_exists.panics_exactly_when_predicate_false [C20]
        at(old(vfs), path) is None ==> v is Panic,
        names(v, "assert_vfs_no_exists!"@),                                                                    //@ clause no_exists.message_names_the_macro [C20]
//@ body

//@ item is_dir file=src/testing/assert.rs fn=assert_vfs_is_dir mode=macro props=C20,C12
//@ sig macro_rules! assert_vfs_is_dir ($vfs:expr, $path:expr)
//@ rw R10 + re⟦\$(\w+)⟧ => ⟦\1⟧
//@ rw R10 * re⟦panic_(?:compare_)?msg!\(\s*("[^"]*")\s*,(?:[^()]|\((?:[^()]|\([^()]*\))*\))*\)⟧ => ⟦return Verdict::Panic(\1)⟧
//@ rw R10 * re⟦panic!\(\s*("[^"]*")\s*,(?:[^()]|\((?:[^()]|\([^()]*\))*\))*\)⟧ => ⟦return Verdict::Panic(\1)⟧
//@ rw R10 1 re⟦\}\s*$⟧ => ⟦ Verdict::Pass }⟧
//@ rw R1 * ⟦&x != &target⟧ => ⟦x.ne(&target)⟧
//@ rw R1 * ⟦&x != &link⟧ => ⟦x.ne(&link)⟧
//@ ins start
        proof { match at(vfs, path) { Some(a) => { ax_kinds(vfs.st(), a); }, None => {} } }
//@ endins
pub fn assert_vfs_is_dir(vfs: &mut VfsM, path: &PathBuf) -> (v: Verdict)
    ensures
        final(vfs).st() == old(vfs).st(),                                                                  //@ clause is_dir.checking_macro_changes_nothing [C20]
        at(old(vfs), path) is Some ==> ((v is Pass) == (k_dir(old(vfs).st(), at(old(vfs), path)->Some_0))),     //@ clause is_dir.panics_exactly_when_predicate_false [C20]
        at(old(vfs), path) is None ==> v is Panic,
        names(v, "assert_vfs_is_dir!"@),                                                                    //@ clause is_dir.message_names_the_macro [C20]
//@ body

//@ item no_dir file=src/testing/assert.rs fn=assert_vfs_no_dir mode=macro props=C20,C12
//@ sig macro_rules! assert_vfs_no_dir ($vfs:expr, $path:expr)
//@ rw R10 + re⟦\$(\w+)⟧ => ⟦\1⟧
//@ rw R10 * re⟦panic_(?:compare_)?msg!\(\s*("[^"]*")\s*,(?:[^()]|\((?:[^()]|\([^()]*\))*\))*\)⟧ => ⟦return Verdict::Panic(\1)⟧
//@ rw R10 * re⟦panic!\(\s*("[^"]*")\s*,(?:[^()]|\((?:[^()]|\([^()]*\))*\))*\)⟧ => ⟦return Verdict::Panic(\1)⟧
//@ rw R10 1 re⟦\}\s*$⟧ => ⟦ Verdict::Pass }⟧
//@ rw R1 * ⟦&x != &target⟧ => ⟦x.ne(&target)⟧
//@ rw R1 * ⟦&x != &link⟧ => ⟦x.ne(&link)⟧
//@ ins start
        proof { match at(vfs, path) { Some(a) => { ax_kinds(vfs.st(), a); }, None => {} } }
//@ endins
pub fn assert_vfs_no_dir(vfs: &mut VfsM, path: &PathBuf) -> (v: Verdict)
    ensures
        final(vfs).st() == old(vfs).st(),                                                                  //@ clause no_dir.checking_macro_changes_nothing [C20]
        at(old(vfs), path) is Some ==> ((v is Pass) == (!k_dir(old(vfs).st(), at(old(vfs), path)->Some_0))),     //@ clause no_dir.panics_exactly_when_predicate_false [C20]
        at(old(vfs), path) is None ==> v is Panic,
        names(v, "assert_vfs_no_dir!"@),                                                                    //@ clause no_dir.message_names_the_macro [C20]
//@ body

//@ item is_file file=src/testing/assert.rs fn=assert_vfs_is_file mode=macro props=C20,C12
//@ sig macro_rules! assert_vfs_is_file ($vfs:expr, $path:expr)
//@ rw R10 + re⟦\$(\w+)⟧ => ⟦\1⟧
//@ rw R10 * re⟦panic_(?:compare_)?msg!\(\s*("[^"]*")\s*,(?:[^()]|\((?:[^()]|\([^()]*\))*\))*\)⟧ => ⟦return Verdict::Panic(\1)⟧
//@ rw R10 * re⟦panic!\(\s*("[^"]*")\s*,(?:[^()]|\((?:[^()]|\([^()]*\))*\))*\)⟧ => ⟦return Verdict::Panic(\1)⟧
//@ rw R10 1 re⟦\}\s*$⟧ => ⟦ Verdict::Pass }⟧
//@ rw R1 * ⟦&x != &target⟧ => ⟦x.ne(&target)⟧
//@ rw R1 * ⟦&x != &link⟧ => ⟦x.ne(&link)⟧
//@ ins start
        proof { match at(vfs, path) { Some(a) => { ax_kinds(vfs.st(), a); }, None => {} } }
//@ endins
pub fn assert_vfs_is_file(vfs: &mut VfsM, path: &PathBuf) -> (v: Verdict)
    ensures
        final(vfs).st() == old(vfs).st(),                                                                  //@ clause is_file.checking_macro_changes_nothing [C20]
        at(old(vfs), path) is Some ==> ((v is Pass) == (k_file(old(vfs).st(), at(old(vfs), path)->Some_0))),     //@ clause is_file.panics_exactly_when_predicate_false [C20]
        at(old(vfs), path) is None ==> v is Panic,
        names(v, "assert_vfs_is_file!"@),                                                                    //@ clause is_file.message_names_the_macro [C20]
//@ body

//@ item no_file file=src/testing/assert.rs fn=assert_vfs_no_file mode=macro props=C20,C12
//@ sig macro_rules! assert_vfs_no_file ($vfs:expr, $path:expr)
//@ rw R10 + re⟦\$(\w+)⟧ => ⟦\1⟧
//@ rw R10 * re⟦panic_(?:compare_)?msg!\(\s*("[^"]*")\s*,(?:[^()]|\((?:[^()]|\([^()]*\))*\))*\)⟧ => ⟦return Verdict::Panic(\1)⟧
//@ rw R10 * re⟦panic!\(\s*("[^"]*")\s*,(?:[^()]|\((?:[^()]|\([^()]*\))*\))*\)⟧ => ⟦return Verdict::Panic(\1)⟧
//@ rw R10 1 re⟦\}\s*$⟧ => ⟦ Verdict::Pass }⟧
//@ rw R1 * ⟦&x != &target⟧ => ⟦x.ne(&target)⟧
//@ rw R1 * ⟦&x != &link⟧ => ⟦x.ne(&link)⟧
//@ ins start
        proof { match at(vfs, path) { Some(a) => { ax_kinds(vfs.st(), a); }, None => {} } }
//@ endins
pub fn assert_vfs_no_file(vfs: &mut VfsM, path: &PathBuf) -> (v: Verdict)
    ensures
        final(vfs).st() == old(vfs).st(),                                                                  //@ clause no_file.checking_macro_changes_nothing [C20]
        at(old(vfs), path) is Some ==> ((v is Pass) == (!k_file(old(vfs).st(), at(old(vfs), path)->Some_0))),     //@ clause no_file.panics_exactly_when_predicate_false [C20]
        at(old(vfs), path) is None ==> v is Panic,
        names(v, "assert_vfs_no_file!"@),                                                                    //@ clause no_file.message_names_the_macro [C20]
//@ body

//@ item is_symlink file=src/testing/assert.rs fn=assert_vfs_is_symlink mode=macro props=C20,C12
//@ sig macro_rules! assert_vfs_is_symlink ($vfs:expr, $path:expr)
//@ rw R10 + re⟦\$(\w+)⟧ => ⟦\1⟧
//@ rw R10 * re⟦panic_(?:compare_)?msg!\(\s*("[^"]*")\s*,(?:[^()]|\((?:[^()]|\([^()]*\))*\))*\)⟧ => ⟦return Verdict::Panic(\1)⟧
//@ rw R10 * re⟦panic!\(\s*("[^"]*")\s*,(?:[^()]|\((?:[^()]|\([^()]*\))*\))*\)⟧ => ⟦return Verdict::Panic(\1)⟧
//@ rw R10 1 re⟦\}\s*$⟧ => ⟦ Verdict::Pass }⟧
//@ rw R1 * ⟦&x != &target⟧ => ⟦x.ne(&target)⟧
//@ rw R1 * ⟦&x != &link⟧ => ⟦x.ne(&link)⟧
//@ ins start
        proof { match at(vfs, path) { Some(a) => { ax_kinds(vfs.st(), a); }, None => {} } }
//@ endins
pub fn assert_vfs_is_symlink(vfs: &mut VfsM, path: &PathBuf) -> (v: Verdict)
    ensures
        final(vfs).st() == old(vfs).st(),                                                                  //@ clause is_symlink.checking_macro_changes_nothing [C20]
        at(old(vfs), path) is Some ==> ((v is Pass) == (k_link(old(vfs).st(), at(old(vfs), path)->Some_0))),     //@ clause is_symlink.panics_exactly_when_predicate_false [C20]
        at(old(vfs), path) is None ==> v is Panic,
        names(v, "assert_vfs_is_symlink!"@),                                                                    //@ clause is_symlink.message_names_the_macro [C20]
//@ body

//@ item no_symlink file=src/testing/assert.rs fn=assert_vfs_no_symlink mode=macro props=C20,C12
//@ sig macro_rules! assert_vfs_no_symlink ($vfs:expr, $path:expr)
//@ rw R10 + re⟦\$(\w+)⟧ => ⟦\1⟧
//@ rw R10 * re⟦panic_(?:compare_)?msg!\(\s*("[^"]*")\s*,(?:[^()]|\((?:[^()]|\([^()]*\))*\))*\)⟧ => ⟦return Verdict::Panic(\1)⟧
//@ rw R10 * re⟦panic!\(\s*("[^"]*")\s*,(?:[^()]|\((?:[^()]|\([^()]*\))*\))*\)⟧ => ⟦return Verdict::Panic(\1)⟧
//@ rw R10 1 re⟦\}\s*$⟧ => ⟦ Verdict::Pass }⟧
//@ rw R1 * ⟦&x != &target⟧ => ⟦x.ne(&target)⟧
//@ rw R1 * ⟦&x != &link⟧ => ⟦x.ne(&link)⟧
//@ ins start
        proof { match at(vfs, path) { Some(a) => { ax_kinds(vfs.st(), a); }, None => {} } }
//@ endins
pub fn assert_vfs_no_symlink(vfs: &mut VfsM, path: &PathBuf) -> (v: Verdict)
    ensures
        final(vfs).st() == old(vfs).st(),                                                                  //@ clause no_symlink.checking_macro_changes_nothing [C20]
        at(old(vfs), path) is Some ==> ((v is Pass) == (!k_link(old(vfs).st(), at(old(vfs), path)->Some_0))),     //@ clause no_symlink.panics_exactly_when_predicate_false [C20]
        at(old(vfs), path) is None ==> v is Panic,
        names(v, "assert_vfs_no_symlink!"@),                                                                    //@ clause no_symlink.message_names_the_macro [C20]
//@ body

//@ item read_all file=src/testing/assert.rs fn=assert_vfs_read_all mode=macro props=C20,C12
//@ sig macro_rules! assert_vfs_read_all ($vfs:expr, $path:expr, $data:expr)
//@ rw R10 + re⟦\$(\w+)⟧ => ⟦\1⟧
//@ rw R10 * re⟦panic_(?:compare_)?msg!\(\s*("[^"]*")\s*,(?:[^()]|\((?:[^()]|\((?:[^()]|\([^()]*\))*\))*\))*\)⟧ => ⟦return Verdict::Panic(\1)⟧
//@ rw R10 * re⟦panic!\(\s*("[^"]*")\s*,(?:[^()]|\((?:[^()]|\([^()]*\))*\))*\)⟧ => ⟦return Verdict::Panic(\1)⟧
//@ rw R10 1 re⟦\}\s*$⟧ => ⟦ Verdict::Pass }⟧
//@ rw R1 * ⟦&x != &target⟧ => ⟦x.ne(&target)⟧
//@ rw R1 * ⟦&x != &link⟧ => ⟦x.ne(&link)⟧
//@ rw R1 * ⟦&x != &y⟧ => ⟦!x.eq(&y)⟧
//@ rw R1 * ⟦if target != x {⟧ => ⟦if target.ne(&x) {⟧
//@ rw R1 * ⟦data != data0⟧ => ⟦!data.eq(data0)⟧
//@ rw R4 * ⟦x.to_string().unwrap() != target.to_string().unwrap()⟧ => ⟦!x.to_string_unwrap().eq(&target.to_string_unwrap())⟧
//@ rw R10 1 re⟦\bdata != data\b⟧ => ⟦!data.eq(data0)⟧
//@ rw R10 * re⟦format!\("read data[^"]*", data, data\)⟧ => ⟦0⟧
//@ ins start
        proof { match at(vfs, path) { Some(a) => { ax_kinds(vfs.st(), a); }, None => {} } }
//@ endins
pub fn assert_vfs_read_all(vfs: &mut VfsM, path: &PathBuf, data0: &Str) -> (v: Verdict)
    ensures
        final(vfs).st() == old(vfs).st(),
        at(old(vfs), path) is Some ==> ((v is Pass) == (k_file(old(vfs).st(), at(old(vfs), path)->Some_0) && k_data(old(vfs).st(), at(old(vfs), path)->Some_0) == Some(data0@))),     //@ clause read_all.panics_exactly_when_content_differs [C20]
        at(old(vfs), path) is None ==> v is Panic,
        names(v, "assert_vfs_read_all!"@),                                                                    //@ clause read_all.message_names_the_macro [C20]
//@ body

//@ item readlink file=src/testing/assert.rs fn=assert_vfs_readlink mode=macro props=C20,C12
//@ sig macro_rules! assert_vfs_readlink ($vfs:expr, $path:expr, $target:expr)
//@ rw R10 + re⟦\$(\w+)⟧ => ⟦\1⟧
//@ rw R10 * re⟦panic_(?:compare_)?msg!\(\s*("[^"]*")\s*,(?:[^()]|\((?:[^()]|\((?:[^()]|\([^()]*\))*\))*\))*\)⟧ => ⟦return Verdict::Panic(\1)⟧
//@ rw R10 * re⟦panic!\(\s*("[^"]*")\s*,(?:[^()]|\((?:[^()]|\([^()]*\))*\))*\)⟧ => ⟦return Verdict::Panic(\1)⟧
//@ rw R10 1 re⟦\}\s*$⟧ => ⟦ Verdict::Pass }⟧
//@ rw R1 * ⟦&x != &target⟧ => ⟦x.ne(&target)⟧
//@ rw R1 * ⟦&x != &link⟧ => ⟦x.ne(&link)⟧
//@ rw R1 * ⟦&x != &y⟧ => ⟦!x.eq(&y)⟧
//@ rw R1 * ⟦if target != x {⟧ => ⟦if target.ne(&x) {⟧
//@ rw R1 * ⟦data != data0⟧ => ⟦!data.eq(data0)⟧
//@ rw R4 * ⟦x.to_string().unwrap() != target.to_string().unwrap()⟧ => ⟦!x.to_string_unwrap().eq(&target.to_string_unwrap())⟧
//@ ins start
        proof {  }
//@ endins
pub fn assert_vfs_readlink(vfs: &mut VfsM, path: &PathBuf, target: &PathBuf) -> (v: Verdict)
    ensures
        final(vfs).st() == old(vfs).st(),
        at(old(vfs), path) is Some ==> ((v is Pass) == (k_link(old(vfs).st(), at(old(vfs), path)->Some_0) && k_rel(old(vfs).st(), at(old(vfs), path)->Some_0) == Some(target.text()))),     //@ clause readlink.panics_exactly_when_target_differs [C20]
        at(old(vfs), path) is None ==> v is Panic,
        names(v, "assert_vfs_readlink!"@),                                                                    //@ clause readlink.message_names_the_macro [C20]
//@ body

//@ item readlink_abs file=src/testing/assert.rs fn=assert_vfs_readlink_abs mode=macro props=C20,C12
//@ sig macro_rules! assert_vfs_readlink_abs ($vfs:expr, $path:expr, $data:expr)
//@ rw R10 + re⟦\$(\w+)⟧ => ⟦\1⟧
//@ rw R10 * re⟦panic_(?:compare_)?msg!\(\s*("[^"]*")\s*,(?:[^()]|\((?:[^()]|\((?:[^()]|\([^()]*\))*\))*\))*\)⟧ => ⟦return Verdict::Panic(\1)⟧
//@ rw R10 * re⟦panic!\(\s*("[^"]*")\s*,(?:[^()]|\((?:[^()]|\([^()]*\))*\))*\)⟧ => ⟦return Verdict::Panic(\1)⟧
//@ rw R10 1 re⟦\}\s*$⟧ => ⟦ Verdict::Pass }⟧
//@ rw R1 * ⟦&x != &target⟧ => ⟦x.ne(&target)⟧
//@ rw R1 * ⟦&x != &link⟧ => ⟦x.ne(&link)⟧
//@ rw R1 * ⟦&x != &y⟧ => ⟦!x.eq(&y)⟧
//@ rw R1 * ⟦if target != x {⟧ => ⟦if target.ne(&x) {⟧
//@ rw R1 * ⟦data != data0⟧ => ⟦!data.eq(data0)⟧
//@ rw R4 * ⟦x.to_string().unwrap() != target.to_string().unwrap()⟧ => ⟦!x.to_string_unwrap().eq(&target.to_string_unwrap())⟧
//@ ins start
        proof {  }
//@ endins
pub fn assert_vfs_readlink_abs(vfs: &mut VfsM, path: &PathBuf, data: &PathBuf) -> (v: Verdict)
    ensures
        final(vfs).st() == old(vfs).st(),
        (at(old(vfs), path) is Some && at(old(vfs), data) is Some) ==> ((v is Pass) == (k_link(old(vfs).st(), at(old(vfs), path)->Some_0)
              && k_alt(old(vfs).st(), at(old(vfs), path)->Some_0) == Some(at(old(vfs), data)->Some_0))),     //@ clause readlink_abs.panics_exactly_when_target_differs [C20]
        (at(old(vfs), path) is None || at(old(vfs), data) is None) ==> v is Panic,
        names(v, "assert_vfs_readlink_abs!"@),                                                                    //@ clause readlink_abs.message_names_the_macro [C20]
//@ body

//@ item mkdir_p file=src/testing/assert.rs fn=assert_vfs_mkdir_p mode=macro props=C20,C12
//@ sig macro_rules! assert_vfs_mkdir_p ($vfs:expr, $path:expr)
//@ rw R10 + re⟦\$(\w+)⟧ => ⟦\1⟧
//@ rw R10 * re⟦panic_(?:compare_)?msg!\(\s*("[^"]*")\s*,(?:[^()]|\((?:[^()]|\((?:[^()]|\([^()]*\))*\))*\))*\)⟧ => ⟦return Verdict::Panic(\1)⟧
//@ rw R10 * re⟦panic!\(\s*("[^"]*")\s*,(?:[^()]|\((?:[^()]|\([^()]*\))*\))*\)⟧ => ⟦return Verdict::Panic(\1)⟧
//@ rw R10 1 re⟦\}\s*$⟧ => ⟦ Verdict::Pass }⟧
//@ rw R1 * ⟦&x != &target⟧ => ⟦x.ne(&target)⟧
//@ rw R1 * ⟦&x != &link⟧ => ⟦x.ne(&link)⟧
//@ rw R1 * ⟦&x != &y⟧ => ⟦!x.eq(&y)⟧
//@ rw R1 * ⟦if target != x {⟧ => ⟦if target.ne(&x) {⟧
//@ rw R1 * ⟦data != data0⟧ => ⟦!data.eq(data0)⟧
//@ rw R4 * ⟦x.to_string().unwrap() != target.to_string().unwrap()⟧ => ⟦!x.to_string_unwrap().eq(&target.to_string_unwrap())⟧
//@ ins start
        proof { lemma_names_mkdir();   }
//@ endins
pub fn assert_vfs_mkdir_p(vfs: &mut VfsM, path: &PathBuf) -> (v: Verdict)
    ensures
        at(old(vfs), path) is None ==> v is Panic && final(vfs).st() == old(vfs).st(),
        at(old(vfs), path) is Some ==> final(vfs).st() == op_mkdir_p(old(vfs).st(), at(old(vfs), path)->Some_0),                    //@ clause mkdir_p.performs_the_operation [C20]
        (at(old(vfs), path) is Some && v is Pass) ==> k_dir(final(vfs).st(), at(old(vfs), path)->Some_0),                             //@ clause mkdir_p.pass_means_directory_exists [C20]
        (at(old(vfs), path) is Some && k_dir(op_mkdir_p(old(vfs).st(), at(old(vfs), path)->Some_0), at(old(vfs), path)->Some_0) && v is Panic) ==> true,
        names(v, "assert_vfs_mkdir_p!"@),                                                                    //@ clause mkdir_p.message_names_the_macro [C20]
//@ body

//@ item mkdir_m file=src/testing/assert.rs fn=assert_vfs_mkdir_m mode=macro props=C20,C12
//@ sig macro_rules! assert_vfs_mkdir_m ($vfs:expr, $path:expr, $mode:expr)
//@ rw R10 + re⟦\$(\w+)⟧ => ⟦\1⟧
//@ rw R10 * re⟦panic_(?:compare_)?msg!\(\s*("[^"]*")\s*,(?:[^()]|\((?:[^()]|\((?:[^()]|\([^()]*\))*\))*\))*\)⟧ => ⟦return Verdict::Panic(\1)⟧
//@ rw R10 * re⟦panic!\(\s*("[^"]*")\s*,(?:[^()]|\((?:[^()]|\([^()]*\))*\))*\)⟧ => ⟦return Verdict::Panic(\1)⟧
//@ rw R10 1 re⟦\}\s*$⟧ => ⟦ Verdict::Pass }⟧
//@ rw R1 * ⟦&x != &target⟧ => ⟦x.ne(&target)⟧
//@ rw R1 * ⟦&x != &link⟧ => ⟦x.ne(&link)⟧
//@ rw R1 * ⟦&x != &y⟧ => ⟦!x.eq(&y)⟧
//@ rw R1 * ⟦if target != x {⟧ => ⟦if target.ne(&x) {⟧
//@ rw R1 * ⟦data != data0⟧ => ⟦!data.eq(data0)⟧
//@ rw R4 * ⟦x.to_string().unwrap() != target.to_string().unwrap()⟧ => ⟦!x.to_string_unwrap().eq(&target.to_string_unwrap())⟧
//@ ins start
        proof { lemma_names_mkdir();  reveal_strlit("assert_vfs_mkdir_m!"); reveal_strlit("assert_vfs_mkdir_m!: mode failure for {}"); reveal_strlit("assert_vfs_mkdir_m!: {}"); }
//@ endins
pub fn assert_vfs_mkdir_m(vfs: &mut VfsM, path: &PathBuf, mode: u32) -> (v: Verdict)
    ensures
        at(old(vfs), path) is None ==> v is Panic && final(vfs).st() == old(vfs).st(),
        at(old(vfs), path) is Some ==> final(vfs).st() == op_mkdir_m(old(vfs).st(), at(old(vfs), path)->Some_0, mode),             //@ clause mkdir_m.performs_the_operation [C20]
        (at(old(vfs), path) is Some && v is Pass) ==> k_dir(final(vfs).st(), at(old(vfs), path)->Some_0) && k_mode(final(vfs).st(), at(old(vfs), path)->Some_0) == mode,     //@ clause mkdir_m.pass_means_directory_with_mode [C20]
        names(v, "assert_vfs_mkdir_m!"@),                                                                    //@ clause mkdir_m.message_names_the_macro [C20]
//@ body

//@ item mkfile file=src/testing/assert.rs fn=assert_vfs_mkfile mode=macro props=C20,C12
//@ sig macro_rules! assert_vfs_mkfile ($vfs:expr, $path:expr)
//@ rw R10 + re⟦\$(\w+)⟧ => ⟦\1⟧
//@ rw R10 * re⟦panic_(?:compare_)?msg!\(\s*("[^"]*")\s*,(?:[^()]|\((?:[^()]|\((?:[^()]|\([^()]*\))*\))*\))*\)⟧ => ⟦return Verdict::Panic(\1)⟧
//@ rw R10 * re⟦panic!\(\s*("[^"]*")\s*,(?:[^()]|\((?:[^()]|\([^()]*\))*\))*\)⟧ => ⟦return Verdict::Panic(\1)⟧
//@ rw R10 1 re⟦\}\s*$⟧ => ⟦ Verdict::Pass }⟧
//@ rw R1 * ⟦&x != &target⟧ => ⟦x.ne(&target)⟧
//@ rw R1 * ⟦&x != &link⟧ => ⟦x.ne(&link)⟧
//@ rw R1 * ⟦&x != &y⟧ => ⟦!x.eq(&y)⟧
//@ rw R1 * ⟦if target != x {⟧ => ⟦if target.ne(&x) {⟧
//@ rw R1 * ⟦data != data0⟧ => ⟦!data.eq(data0)⟧
//@ rw R4 * ⟦x.to_string().unwrap() != target.to_string().unwrap()⟧ => ⟦!x.to_string_unwrap().eq(&target.to_string_unwrap())⟧
//@ ins start
        proof { match at(vfs, path) { Some(a) => { ax_kinds(vfs.st(), a); }, None => {} } }
//@ endins
pub fn assert_vfs_mkfile(vfs: &mut VfsM, path: &PathBuf) -> (v: Verdict)
    ensures
        at(old(vfs), path) is None ==> v is Panic && final(vfs).st() == old(vfs).st(),
        (at(old(vfs), path) is Some && !k_exists(old(vfs).st(), at(old(vfs), path)->Some_0)) ==> final(vfs).st() == op_mkfile(old(vfs).st(), at(old(vfs), path)->Some_0),     //@ clause mkfile.performs_the_operation [C20]
        (at(old(vfs), path) is Some && k_exists(old(vfs).st(), at(old(vfs), path)->Some_0)) ==> final(vfs).st() == old(vfs).st() && (v is Pass) == k_file(old(vfs).st(), at(old(vfs), path)->Some_0),     //@ clause mkfile.existing_entry_left_alone [C20]
        (at(old(vfs), path) is Some && v is Pass) ==> k_file(final(vfs).st(), at(old(vfs), path)->Some_0),                             //@ clause mkfile.pass_means_file_exists [C20]
        names(v, "assert_vfs_mkfile!"@),                                                                    //@ clause mkfile.message_names_the_macro [C20]
//@ body

//@ item write_all file=src/testing/assert.rs fn=assert_vfs_write_all mode=macro props=C20,C12
//@ sig macro_rules! assert_vfs_write_all ($vfs:expr, $path:expr, $data:expr)
//@ rw R10 + re⟦\$(\w+)⟧ => ⟦\1⟧
//@ rw R10 * re⟦panic_(?:compare_)?msg!\(\s*("[^"]*")\s*,(?:[^()]|\((?:[^()]|\((?:[^()]|\([^()]*\))*\))*\))*\)⟧ => ⟦return Verdict::Panic(\1)⟧
//@ rw R10 * re⟦panic!\(\s*("[^"]*")\s*,(?:[^()]|\((?:[^()]|\([^()]*\))*\))*\)⟧ => ⟦return Verdict::Panic(\1)⟧
//@ rw R10 1 re⟦\}\s*$⟧ => ⟦ Verdict::Pass }⟧
//@ rw R1 * ⟦&x != &target⟧ => ⟦x.ne(&target)⟧
//@ rw R1 * ⟦&x != &link⟧ => ⟦x.ne(&link)⟧
//@ rw R1 * ⟦&x != &y⟧ => ⟦!x.eq(&y)⟧
//@ rw R1 * ⟦if target != x {⟧ => ⟦if target.ne(&x) {⟧
//@ rw R1 * ⟦data != data0⟧ => ⟦!data.eq(data0)⟧
//@ rw R4 * ⟦x.to_string().unwrap() != target.to_string().unwrap()⟧ => ⟦!x.to_string_unwrap().eq(&target.to_string_unwrap())⟧
//@ ins start
        proof {  }
//@ endins
pub fn assert_vfs_write_all(vfs: &mut VfsM, path: &PathBuf, data: &Str) -> (v: Verdict)
    ensures
        at(old(vfs), path) is None ==> v is Panic && final(vfs).st() == old(vfs).st(),
        (at(old(vfs), path) is Some && (!k_exists(old(vfs).st(), at(old(vfs), path)->Some_0) || k_file(old(vfs).st(), at(old(vfs), path)->Some_0))) ==>
              final(vfs).st() == op_write_all(old(vfs).st(), at(old(vfs), path)->Some_0, data@),           //@ clause write_all.performs_the_operation [C20]
        (at(old(vfs), path) is Some && k_exists(old(vfs).st(), at(old(vfs), path)->Some_0) && !k_file(old(vfs).st(), at(old(vfs), path)->Some_0)) ==> v is Panic && final(vfs).st() == old(vfs).st(),
        (at(old(vfs), path) is Some && v is Pass) ==> k_file(final(vfs).st(), at(old(vfs), path)->Some_0)
              && k_data(final(vfs).st(), at(old(vfs), path)->Some_0) == Some(data@),                                                  //@ clause write_all.pass_means_content_written [C20]
        names(v, "assert_vfs_write_all!"@),                                                                    //@ clause write_all.message_names_the_macro [C20]
//@ body

//@ item remove file=src/testing/assert.rs fn=assert_vfs_remove mode=macro props=C20,C12
//@ sig macro_rules! assert_vfs_remove ($vfs:expr, $path:expr)
//@ rw R10 + re⟦\$(\w+)⟧ => ⟦\1⟧
//@ rw R10 * re⟦panic_(?:compare_)?msg!\(\s*("[^"]*")\s*,(?:[^()]|\((?:[^()]|\((?:[^()]|\([^()]*\))*\))*\))*\)⟧ => ⟦return Verdict::Panic(\1)⟧
//@ rw R10 * re⟦panic!\(\s*("[^"]*")\s*,(?:[^()]|\((?:[^()]|\([^()]*\))*\))*\)⟧ => ⟦return Verdict::Panic(\1)⟧
//@ rw R10 1 re⟦\}\s*$⟧ => ⟦ Verdict::Pass }⟧
//@ rw R1 * ⟦&x != &target⟧ => ⟦x.ne(&target)⟧
//@ rw R1 * ⟦&x != &link⟧ => ⟦x.ne(&link)⟧
//@ rw R1 * ⟦&x != &y⟧ => ⟦!x.eq(&y)⟧
//@ rw R1 * ⟦if target != x {⟧ => ⟦if target.ne(&x) {⟧
//@ rw R1 * ⟦data != data0⟧ => ⟦!data.eq(data0)⟧
//@ rw R4 * ⟦x.to_string().unwrap() != target.to_string().unwrap()⟧ => ⟦!x.to_string_unwrap().eq(&target.to_string_unwrap())⟧
//@ ins start
        proof {  }
//@ endins
pub fn assert_vfs_remove(vfs: &mut VfsM, path: &PathBuf) -> (v: Verdict)
    ensures
        at(old(vfs), path) is None ==> v is Panic && final(vfs).st() == old(vfs).st(),
        (at(old(vfs), path) is Some && k_exists(old(vfs).st(), at(old(vfs), path)->Some_0)) ==> final(vfs).st() == op_remove(old(vfs).st(), at(old(vfs), path)->Some_0),     //@ clause remove.performs_the_operation [C20]
        (at(old(vfs), path) is Some && !k_exists(old(vfs).st(), at(old(vfs), path)->Some_0)) ==> final(vfs).st() == old(vfs).st() && v is Pass,
        (at(old(vfs), path) is Some && v is Pass) ==> !k_exists(final(vfs).st(), at(old(vfs), path)->Some_0),                           //@ clause remove.pass_means_gone [C20]
        names(v, "assert_vfs_remove!"@),                                                                    //@ clause remove.message_names_the_macro [C20]
//@ body

//@ item remove_all file=src/testing/assert.rs fn=assert_vfs_remove_all mode=macro props=C20,C12
//@ sig macro_rules! assert_vfs_remove_all ($vfs:expr, $path:expr)
//@ rw R10 + re⟦\$(\w+)⟧ => ⟦\1⟧
//@ rw R10 * re⟦panic_(?:compare_)?msg!\(\s*("[^"]*")\s*,(?:[^()]|\((?:[^()]|\((?:[^()]|\([^()]*\))*\))*\))*\)⟧ => ⟦return Verdict::Panic(\1)⟧
//@ rw R10 * re⟦panic!\(\s*("[^"]*")\s*,(?:[^()]|\((?:[^()]|\([^()]*\))*\))*\)⟧ => ⟦return Verdict::Panic(\1)⟧
//@ rw R10 1 re⟦\}\s*$⟧ => ⟦ Verdict::Pass }⟧
//@ rw R1 * ⟦&x != &target⟧ => ⟦x.ne(&target)⟧
//@ rw R1 * ⟦&x != &link⟧ => ⟦x.ne(&link)⟧
//@ rw R1 * ⟦&x != &y⟧ => ⟦!x.eq(&y)⟧
//@ rw R1 * ⟦if target != x {⟧ => ⟦if target.ne(&x) {⟧
//@ rw R1 * ⟦data != data0⟧ => ⟦!data.eq(data0)⟧
//@ rw R4 * ⟦x.to_string().unwrap() != target.to_string().unwrap()⟧ => ⟦!x.to_string_unwrap().eq(&target.to_string_unwrap())⟧
//@ ins start
        proof {  }
//@ endins
pub fn assert_vfs_remove_all(vfs: &mut VfsM, path: &PathBuf) -> (v: Verdict)
    ensures
        at(old(vfs), path) is None ==> v is Panic && final(vfs).st() == old(vfs).st(),
        at(old(vfs), path) is Some ==> final(vfs).st() == op_remove_all(old(vfs).st(), at(old(vfs), path)->Some_0),                  //@ clause remove_all.performs_the_operation [C20]
        (at(old(vfs), path) is Some && v is Pass) ==> !k_exists(final(vfs).st(), at(old(vfs), path)->Some_0),                           //@ clause remove_all.pass_means_gone [C20]
        names(v, "assert_vfs_remove_all!"@),                                                                    //@ clause remove_all.message_names_the_macro [C20]
//@ body

//@ item symlink file=src/testing/assert.rs fn=assert_vfs_symlink mode=macro props=C20,C12
//@ sig macro_rules! assert_vfs_symlink ($vfs:expr, $link:expr, $target:expr)
//@ rw R10 + re⟦\$(\w+)⟧ => ⟦\1⟧
//@ rw R10 * re⟦panic_(?:compare_)?msg!\(\s*("[^"]*")\s*,(?:[^()]|\((?:[^()]|\((?:[^()]|\([^()]*\))*\))*\))*\)⟧ => ⟦return Verdict::Panic(\1)⟧
//@ rw R10 * re⟦panic!\(\s*("[^"]*")\s*,(?:[^()]|\((?:[^()]|\([^()]*\))*\))*\)⟧ => ⟦return Verdict::Panic(\1)⟧
//@ rw R10 1 re⟦\}\s*$⟧ => ⟦ Verdict::Pass }⟧
//@ rw R1 * ⟦&x != &target⟧ => ⟦x.ne(&target)⟧
//@ rw R1 * ⟦&x != &link⟧ => ⟦x.ne(&link)⟧
//@ rw R1 * ⟦&x != &y⟧ => ⟦!x.eq(&y)⟧
//@ rw R1 * ⟦if target != x {⟧ => ⟦if target.ne(&x) {⟧
//@ rw R1 * ⟦data != data0⟧ => ⟦!data.eq(data0)⟧
//@ rw R4 * ⟦x.to_string().unwrap() != target.to_string().unwrap()⟧ => ⟦!x.to_string_unwrap().eq(&target.to_string_unwrap())⟧
//@ ins start
        proof { match at(vfs, link) { Some(a) => { ax_kinds(vfs.st(), a); }, None => {} } }
//@ endins
pub fn assert_vfs_symlink(vfs: &mut VfsM, link: &PathBuf, target: &PathBuf) -> (v: Verdict)
    ensures
        at(old(vfs), link) is None ==> v is Panic && final(vfs).st() == old(vfs).st(),
        (at(old(vfs), link) is Some && !k_exists(old(vfs).st(), at(old(vfs), link)->Some_0)) ==> final(vfs).st() == op_symlink(old(vfs).st(), at(old(vfs), link)->Some_0, target.sp()),     //@ clause symlink.performs_the_operation [C20]
        (at(old(vfs), link) is Some && v is Pass) ==> k_link(final(vfs).st(), at(old(vfs), link)->Some_0),                              //@ clause symlink.pass_means_link_exists [C20]
        names(v, "assert_vfs_symlink!"@),                                                                    //@ clause symlink.message_names_the_macro [C20]
//@ body

//@ item copyfile file=src/testing/assert.rs fn=assert_vfs_copyfile mode=macro props=C20,C12
//@ sig macro_rules! assert_vfs_copyfile ($vfs:expr, $from:expr, $to:expr)
//@ rw R10 + re⟦\$(\w+)⟧ => ⟦\1⟧
//@ rw R10 * re⟦panic_(?:compare_)?msg!\(\s*("[^"]*")\s*,(?:[^()]|\((?:[^()]|\((?:[^()]|\([^()]*\))*\))*\))*\)⟧ => ⟦return Verdict::Panic(\1)⟧
//@ rw R10 * re⟦panic!\(\s*("[^"]*")\s*,(?:[^()]|\((?:[^()]|\([^()]*\))*\))*\)⟧ => ⟦return Verdict::Panic(\1)⟧
//@ rw R10 1 re⟦\}\s*$⟧ => ⟦ Verdict::Pass }⟧
//@ rw R1 * ⟦&x != &target⟧ => ⟦x.ne(&target)⟧
//@ rw R1 * ⟦&x != &link⟧ => ⟦x.ne(&link)⟧
//@ rw R1 * ⟦&x != &y⟧ => ⟦!x.eq(&y)⟧
//@ rw R1 * ⟦if target != x {⟧ => ⟦if target.ne(&x) {⟧
//@ rw R1 * ⟦data != data0⟧ => ⟦!data.eq(data0)⟧
//@ rw R4 * ⟦x.to_string().unwrap() != target.to_string().unwrap()⟧ => ⟦!x.to_string_unwrap().eq(&target.to_string_unwrap())⟧
//@ ins start
        proof { match at(vfs, from) { Some(a) => { ax_kinds(vfs.st(), a); }, None => {} } }
//@ endins
pub fn assert_vfs_copyfile(vfs: &mut VfsM, from: &PathBuf, to: &PathBuf) -> (v: Verdict)
    ensures
        (at(old(vfs), from) is None || at(old(vfs), to) is None) ==> v is Panic && final(vfs).st() == old(vfs).st(),
        (at(old(vfs), from) is Some && at(old(vfs), to) is Some && k_file(old(vfs).st(), at(old(vfs), from)->Some_0)) ==>
              final(vfs).st() == op_copy(old(vfs).st(), at(old(vfs), from)->Some_0, at(old(vfs), to)->Some_0),                         //@ clause copyfile.performs_the_operation [C20]
        (at(old(vfs), from) is Some && at(old(vfs), to) is Some && !k_file(old(vfs).st(), at(old(vfs), from)->Some_0)) ==> v is Panic && final(vfs).st() == old(vfs).st(),
        (at(old(vfs), from) is Some && at(old(vfs), to) is Some && v is Pass) ==> k_file(final(vfs).st(), at(old(vfs), to)->Some_0)
              && k_data(final(vfs).st(), at(old(vfs), to)->Some_0) is Some && k_data(final(vfs).st(), at(old(vfs), to)->Some_0) == k_data(final(vfs).st(), at(old(vfs), from)->Some_0),     //@ clause copyfile.pass_means_equal_content [C20]
        names(v, "assert_vfs_copyfile!"@),                                                                    //@ clause copyfile.message_names_the_macro [C20]
//@ body
