//@ unit memfs_remove_all
//@ props C01 C03 C12
// Memfs::remove_all: post-order deletion of a subtree with a work stack (a node is re-pushed below its children and removed when
// it comes back childless).  Verified: termination, wf preservation on every exit, the subtree is gone, nothing else changed.
//@ prelude base errors io iter path_abs memfs_state memfs_api
//@ struct file=src/sys/fs/memfs/file.rs name=MemfsFile
//@ endstruct
//@ struct file=src/sys/fs/memfs/entry.rs name=MemfsEntry
//@ rw R4 * ⟦Option<HashSet<String>>⟧ => ⟦Option<NameSet>⟧
//@ endstruct

#[verifier::external_body]
pub fn vec_of1(p: PathBuf) -> (r: Vec<PathBuf>) ensures r@.len() == 1, r@[0]@ == p@, r@[0].abs_clean() == p.abs_clean() { unimplemented!() }
pub open spec fn ent_of(s: St, k: PathV) -> Option<EntryV> { if s.entries.contains_key(k) { Some(s.entries[k]) } else { None } }
pub open spec fn file_of(s: St, k: PathV) -> Option<FileV> { if s.files.contains_key(k) { Some(s.files[k]) } else { None } }
pub open spec fn has_kids(s: St, a: PathV) -> bool { s.entries.contains_key(a) && s.entries[a].kids is Some && !(s.entries[a].kids->Some_0 =~= Set::<Name>::empty()) }
// removal of one childless entry (same transition as Memfs::remove, unit memfs_ops)
pub open spec fn spec_remove_st(s: St, a: PathV) -> St {
    let d = a.drop_last();
    St { entries: (if s.entries.contains_key(d) { s.entries.insert(d, del_kid(s.entries[d], a.last())) } else { s.entries }).remove(a),
         files: if s.files.contains_key(a) { s.files.remove(a) } else { s.files }, ..s }
}
pub proof fn lemma_remove_wf(s: St, a: PathV)
    requires wf(s), a.len() > 0, !has_kids(s, a), s.entries.contains_key(a)
    ensures wf(spec_remove_st(s, a))
{
    let d = a.drop_last();
    let s2 = spec_remove_st(s, a);
    assert(d.push(a.last()) =~= a);
    assert(entry_ok(s, a));
    assert forall|q: PathV| s2.entries.contains_key(q) implies #[trigger] entry_ok(s2, q) by {
        assert(entry_ok(s, q));
        if q.len() > 0 {
            let qd = q.drop_last();
            assert(qd.push(q.last()) =~= q);
            if qd == a { assert(s.entries[a].kids->Some_0.contains(q.last())); assert(false); }
            if qd == d && q.last() == a.last() { assert(q =~= a); }
        }
    }
    assert forall|q: PathV, n: Name| #[trigger] kids_ok(s2, q, n) by {
        assert(kids_ok(s, q, n));
        if q.push(n) == a { assert(q.push(n).drop_last() =~= q); assert(q.push(n).last() == n); }
    }
    assert forall|q: PathV| #[trigger] file_ok(s2, q) by { assert(file_ok(s, q)); assert(file_ok(s, a)); }
    assert(entry_ok(s, root()));
}
//@ obligation lemma_remove_wf props=C03
pub proof fn lemma_prefix_exists(s: St, q: PathV, n: int)
    requires wf(s), s.entries.contains_key(q), 0 <= n <= q.len()
    ensures s.entries.contains_key(q.take(n))
    decreases q.len() - n
{
    if n == q.len() { assert(q.take(n) =~= q); } else {
        assert(entry_ok(s, q));
        let d = q.drop_last();
        assert(d.take(n) =~= q.take(n));
        lemma_prefix_exists(s, d, n);
    }
}
//@ obligation lemma_prefix_exists props=C03,C12
// an existing proper descendant of q implies that q lists a child (so a childless q has no existing descendants)
pub proof fn lemma_descendant_means_kids(s: St, q: PathV, k: PathV)
    requires wf(s), s.entries.contains_key(k), in_sub(q, k), k != q
    ensures has_kids(s, q), s.entries.contains_key(q),
            s.entries.contains_key(k.take(q.len() as int + 1)), s.entries[q].kids->Some_0.contains(k[q.len() as int]),
            in_sub(q.push(k[q.len() as int]), k)
{
    assert(k.len() > q.len()) by { if k.len() == q.len() { assert(k.take(q.len() as int) =~= k); } }
    let c = k.take(q.len() as int + 1);
    lemma_prefix_exists(s, k, q.len() as int + 1);
    lemma_prefix_exists(s, k, q.len() as int);
    assert(entry_ok(s, c));
    assert(c.drop_last() =~= q) by { assert(c.drop_last() =~= k.take(q.len() as int)); }
    assert(c.last() == k[q.len() as int]);
    assert(q.push(k[q.len() as int]) =~= c);
    assert(in_sub(c, k));
}
//@ obligation lemma_descendant_means_kids props=C03,C12

// ---- invariants of the work stack
pub open spec fn stack_in(a: PathV, ps: Seq<PathBuf>) -> bool { forall|i: int| 0 <= i < ps.len() ==> (#[trigger] ps[i]).abs_clean() && in_sub(a, ps[i]@) }
// every entry of the subtree that still exists is at or below some stack element
pub open spec fn covered(cur: St, a: PathV, ps: Seq<PathBuf>) -> bool {
    forall|k: PathV| #[trigger] cur.entries.contains_key(k) && in_sub(a, k) ==> exists|j: int| 0 <= j < ps.len() && in_sub((#[trigger] ps[j])@, k)
}
// an expanded node still on the stack has all its remaining descendants covered by elements ABOVE it
pub open spec fn exp_cov(cur: St, ex: Set<PathV>, ps: Seq<PathBuf>) -> bool {
    forall|i: int, k: PathV| 0 <= i < ps.len() && ex.contains((#[trigger] ps[i])@) && #[trigger] cur.entries.contains_key(k) && in_sub(ps[i]@, k) && k != ps[i]@
        ==> exists|j: int| i < j < ps.len() && in_sub((#[trigger] ps[j])@, k)
}
pub open spec fn exp_closed(a: PathV, ex: Set<PathV>) -> bool { forall|x: PathV| #[trigger] ex.contains(x) ==> in_sub(a, x) && (x != a ==> ex.contains(x.drop_last())) }
pub open spec fn pushed_ok(a: PathV, ex: Set<PathV>, ps: Seq<PathBuf>) -> bool { forall|i: int| 0 <= i < ps.len() ==> (#[trigger] ps[i])@ == a || ex.contains(ps[i]@.drop_last()) }
// nothing outside the subtree changes, except that the parent of `a` stops listing it once `a` is gone
pub open spec fn frame(cur: St, s0: St, a: PathV) -> bool {
    &&& cur.cwd == s0.cwd && cur.cwd_ok == s0.cwd_ok
    &&& forall|k: PathV| !in_sub(a, k) && (a.len() == 0 || k != a.drop_last()) ==> #[trigger] ent_of(cur, k) == ent_of(s0, k)
    &&& forall|k: PathV| !in_sub(a, k) ==> #[trigger] file_of(cur, k) == file_of(s0, k)
    &&& forall|k: PathV| #[trigger] cur.entries.contains_key(k) ==> s0.entries.contains_key(k)
    &&& a.len() > 0 && s0.entries.contains_key(a.drop_last()) ==> cur.entries.contains_key(a.drop_last())
            && cur.entries[a.drop_last()] == (if cur.entries.contains_key(a) || !s0.entries.contains_key(a) { s0.entries[a.drop_last()] } else { del_kid(s0.entries[a.drop_last()], a.last()) })
}
pub open spec fn all_ok(cur: St, s0: St, a: PathV, ex: Set<PathV>, ps: Seq<PathBuf>) -> bool {
    wf(cur) && stack_in(a, ps) && covered(cur, a, ps) && exp_cov(cur, ex, ps) && exp_closed(a, ex) && pushed_ok(a, ex, ps) && frame(cur, s0, a)
}

// ---- step 1: the popped path no longer exists
pub proof fn lemma_step_skip(cur: St, s0: St, a: PathV, ex: Set<PathV>, base: Seq<PathBuf>, y: PathBuf)
    requires all_ok(cur, s0, a, ex, base.push(y)), !cur.entries.contains_key(y@)
    ensures all_ok(cur, s0, a, ex, base)
{
    let old = base.push(y);
    let t = base.len() as int;
    assert(old[t] == y);
    assert forall|i: int| 0 <= i < base.len() implies (#[trigger] base[i]).abs_clean() && in_sub(a, base[i]@) by { assert(old[i] == base[i]); }
    assert forall|k: PathV| #[trigger] cur.entries.contains_key(k) && in_sub(a, k) implies exists|j: int| 0 <= j < base.len() && in_sub((#[trigger] base[j])@, k) by {
        let j = choose|j: int| 0 <= j < old.len() && in_sub((#[trigger] old[j])@, k);
        if j == t { lemma_prefix_exists(cur, k, y@.len() as int); assert(false); }
        assert(base[j] == old[j]);
    }
    assert forall|i: int, k: PathV| 0 <= i < base.len() && ex.contains((#[trigger] base[i])@) && #[trigger] cur.entries.contains_key(k) && in_sub(base[i]@, k) && k != base[i]@
        implies exists|j: int| i < j < base.len() && in_sub((#[trigger] base[j])@, k) by {
        assert(old[i] == base[i]);
        let j = choose|j: int| i < j < old.len() && in_sub((#[trigger] old[j])@, k);
        if j == t { lemma_prefix_exists(cur, k, y@.len() as int); assert(false); }
        assert(base[j] == old[j]);
    }
    assert forall|i: int| 0 <= i < base.len() implies (#[trigger] base[i])@ == a || ex.contains(base[i]@.drop_last()) by { assert(old[i] == base[i]); }
}
//@ obligation lemma_step_skip props=C03,C12

// ---- step 2: the popped node q has children: it is pushed back, followed by its children
pub open spec fn lists_kids(s: St, x: PathV, ns: Seq<NameStr>) -> bool {
    let kids = s.entries[x].kids;
    &&& kids is Some
    &&& ns.no_duplicates_by_view()
    &&& forall|n: Name| kids->Some_0.contains(n) <==> exists|i: int| 0 <= i < ns.len() && (#[trigger] ns[i])@ == n
}
pub open spec fn expanded_stack(base: Seq<PathBuf>, q: PathBuf, ns: Seq<NameStr>, newp: Seq<PathBuf>) -> bool {
    &&& newp.len() == base.len() + 1 + ns.len()
    &&& forall|i: int| 0 <= i < base.len() ==> newp[i] == base[i]
    &&& newp[base.len() as int].abs_clean() && newp[base.len() as int]@ == q@
    &&& forall|i: int| 0 <= i < ns.len() ==> (#[trigger] newp[base.len() + 1 + i]).abs_clean() && newp[base.len() + 1 + i]@ == q@.push(ns[i]@)
}
pub proof fn lemma_not_yet_expanded(cur: St, s0: St, a: PathV, ex: Set<PathV>, base: Seq<PathBuf>, q: PathBuf)
    requires all_ok(cur, s0, a, ex, base.push(q)), has_kids(cur, q@)
    ensures !ex.contains(q@)
{
    let old = base.push(q);
    let t = base.len() as int;
    assert(old[t] == q);
    if ex.contains(q@) {
        let kids = cur.entries[q@].kids->Some_0;
        assert(exists|n: Name| kids.contains(n)) by { if forall|n: Name| !kids.contains(n) { assert(kids =~= Set::<Name>::empty()); } }
        let n = choose|n: Name| kids.contains(n);
        let c = q@.push(n);
        assert(kids_ok(cur, q@, n));
        assert(in_sub(q@, c)) by { assert(c.take(q@.len() as int) =~= q@); }
        assert(cur.entries.contains_key(c) && c != q@);
        let j = choose|j: int| t < j < old.len() && in_sub((#[trigger] old[j])@, c);
        assert(false);
    }
}
//@ obligation lemma_not_yet_expanded props=C12
pub proof fn lemma_expand_basic(cur: St, a: PathV, ex: Set<PathV>, base: Seq<PathBuf>, q: PathBuf, ns: Seq<NameStr>, newp: Seq<PathBuf>)
    requires stack_in(a, base.push(q)), covered(cur, a, base.push(q)), exp_closed(a, ex), pushed_ok(a, ex, base.push(q)), expanded_stack(base, q, ns, newp), q.abs_clean()
    ensures stack_in(a, newp), covered(cur, a, newp), exp_closed(a, ex.insert(q@)), pushed_ok(a, ex.insert(q@), newp)
{
    let old = base.push(q);
    let t = base.len() as int;
    let ex2 = ex.insert(q@);
    assert(old[t] == q);
    assert(in_sub(a, q@));
    assert forall|i: int| 0 <= i < newp.len() implies (#[trigger] newp[i]).abs_clean() && in_sub(a, newp[i]@) by {
        if i < t { assert(newp[i] == old[i]); } else if i == t { } else {
            let m = i - t - 1;
            assert(newp[t + 1 + m]@ == q@.push(ns[m]@));
            assert(in_sub(a, q@.push(ns[m]@))) by { assert(q@.push(ns[m]@).take(a.len() as int) =~= q@.take(a.len() as int)); }
        }
    }
    assert forall|k: PathV| #[trigger] cur.entries.contains_key(k) && in_sub(a, k) implies exists|j: int| 0 <= j < newp.len() && in_sub((#[trigger] newp[j])@, k) by {
        let j = choose|j: int| 0 <= j < old.len() && in_sub((#[trigger] old[j])@, k);
        if j < t { assert(newp[j] == old[j]); } else { assert(in_sub(newp[t]@, k)); }
    }
    assert forall|x: PathV| #[trigger] ex2.contains(x) implies in_sub(a, x) && (x != a ==> ex2.contains(x.drop_last())) by {
        if x == q@ && !ex.contains(x) { assert(old[t]@ == a || ex.contains(old[t]@.drop_last())); }
    }
    assert forall|i: int| 0 <= i < newp.len() implies (#[trigger] newp[i])@ == a || ex2.contains(newp[i]@.drop_last()) by {
        if i < t { assert(newp[i] == old[i]); assert(old[i]@ == a || ex.contains(old[i]@.drop_last())); }
        else if i == t { assert(old[t]@ == a || ex.contains(old[t]@.drop_last())); }
        else { let m = i - t - 1; assert(newp[t + 1 + m]@ == q@.push(ns[m]@)); assert(q@.push(ns[m]@).drop_last() =~= q@); }
    }
}
// a remaining descendant k of q is at or below the child of q pushed for it
pub proof fn lemma_child_covers(cur: St, q: PathBuf, ns: Seq<NameStr>, base: Seq<PathBuf>, newp: Seq<PathBuf>, k: PathV) -> (m: int)
    requires wf(cur), lists_kids(cur, q@, ns), expanded_stack(base, q, ns, newp), cur.entries.contains_key(k), in_sub(q@, k), k != q@
    ensures 0 <= m < ns.len(), in_sub(newp[base.len() + 1 + m]@, k)
{
    lemma_descendant_means_kids(cur, q@, k);
    let nm = k[q@.len() as int];
    let m = choose|m: int| 0 <= m < ns.len() && (#[trigger] ns[m])@ == nm;
    assert(newp[base.len() + 1 + m]@ == q@.push(nm));
    m
}
pub proof fn lemma_expand_cov(cur: St, a: PathV, ex: Set<PathV>, base: Seq<PathBuf>, q: PathBuf, ns: Seq<NameStr>, newp: Seq<PathBuf>)
    requires wf(cur), exp_cov(cur, ex, base.push(q)), exp_closed(a, ex), !ex.contains(q@), stack_in(a, base.push(q)),
             lists_kids(cur, q@, ns), expanded_stack(base, q, ns, newp)
    ensures exp_cov(cur, ex.insert(q@), newp)
{
    let old = base.push(q);
    let t = base.len() as int;
    let ex2 = ex.insert(q@);
    assert(old[t] == q);
    assert forall|i: int, k: PathV| 0 <= i < newp.len() && ex2.contains((#[trigger] newp[i])@) && #[trigger] cur.entries.contains_key(k) && in_sub(newp[i]@, k) && k != newp[i]@
        implies exists|j: int| i < j < newp.len() && in_sub((#[trigger] newp[j])@, k) by {
        if i < t {
            assert(newp[i] == old[i]);
            if old[i]@ == q@ {
                let m = lemma_child_covers(cur, q, ns, base, newp, k);
                assert(i < t + 1 + m < newp.len() && in_sub(newp[t + 1 + m]@, k));
            } else {
                let j = choose|j: int| i < j < old.len() && in_sub((#[trigger] old[j])@, k);
                if j < t { assert(newp[j] == old[j]); } else { assert(in_sub(newp[t]@, k)); assert(i < t < newp.len()); }
            }
        } else if i == t {
            let m = lemma_child_covers(cur, q, ns, base, newp, k);
            assert(t < t + 1 + m < newp.len() && in_sub(newp[t + 1 + m]@, k));
        } else {
            let m = i - t - 1;
            assert(newp[t + 1 + m]@ == q@.push(ns[m]@));
            let c = q@.push(ns[m]@);
            assert(c.drop_last() =~= q@);
            assert(c.len() == q@.len() + 1);
            assert(in_sub(a, q@));
            assert(c != a);
            assert(ex.contains(c));
            assert(ex.contains(c.drop_last()));
            assert(false);
        }
    }
}
pub proof fn lemma_step_expand(cur: St, s0: St, a: PathV, ex: Set<PathV>, base: Seq<PathBuf>, q: PathBuf, ns: Seq<NameStr>, newp: Seq<PathBuf>)
    requires all_ok(cur, s0, a, ex, base.push(q)), has_kids(cur, q@), lists_kids(cur, q@, ns), expanded_stack(base, q, ns, newp), q.abs_clean()
    ensures all_ok(cur, s0, a, ex.insert(q@), newp), !ex.contains(q@)
{
    lemma_not_yet_expanded(cur, s0, a, ex, base, q);
    lemma_expand_basic(cur, a, ex, base, q, ns, newp);
    lemma_expand_cov(cur, a, ex, base, q, ns, newp);
}
//@ obligation lemma_expand_basic props=C03,C12
//@ obligation lemma_child_covers props=C12
//@ obligation lemma_expand_cov props=C12
//@ obligation lemma_step_expand props=C03,C12

// ---- step 3: the popped node q is childless: it is removed from its parent's listing, from the files and from the entries
pub proof fn lemma_remove_cov(cur: St, a: PathV, ex: Set<PathV>, base: Seq<PathBuf>, q: PathBuf)
    requires wf(cur), stack_in(a, base.push(q)), covered(cur, a, base.push(q)), exp_cov(cur, ex, base.push(q)), pushed_ok(a, ex, base.push(q)),
             cur.entries.contains_key(q@), !has_kids(cur, q@)
    ensures stack_in(a, base), covered(spec_remove_st(cur, q@), a, base), exp_cov(spec_remove_st(cur, q@), ex, base), pushed_ok(a, ex, base)
{
    let old = base.push(q);
    let t = base.len() as int;
    let c2 = spec_remove_st(cur, q@);
    assert(old[t] == q);
    assert forall|i: int| 0 <= i < base.len() implies (#[trigger] base[i]).abs_clean() && in_sub(a, base[i]@) by { assert(old[i] == base[i]); }
    assert forall|i: int| 0 <= i < base.len() implies (#[trigger] base[i])@ == a || ex.contains(base[i]@.drop_last()) by { assert(old[i] == base[i]); }
    assert forall|k: PathV| #[trigger] c2.entries.contains_key(k) && in_sub(a, k) implies exists|j: int| 0 <= j < base.len() && in_sub((#[trigger] base[j])@, k) by {
        assert(cur.entries.contains_key(k) && k != q@);
        let j = choose|j: int| 0 <= j < old.len() && in_sub((#[trigger] old[j])@, k);
        if j == t { lemma_descendant_means_kids(cur, q@, k); assert(false); }
        assert(base[j] == old[j]);
    }
    assert forall|i: int, k: PathV| 0 <= i < base.len() && ex.contains((#[trigger] base[i])@) && #[trigger] c2.entries.contains_key(k) && in_sub(base[i]@, k) && k != base[i]@
        implies exists|j: int| i < j < base.len() && in_sub((#[trigger] base[j])@, k) by {
        assert(old[i] == base[i]);
        assert(cur.entries.contains_key(k) && k != q@);
        let j = choose|j: int| i < j < old.len() && in_sub((#[trigger] old[j])@, k);
        if j == t { lemma_descendant_means_kids(cur, q@, k); assert(false); }
        assert(base[j] == old[j]);
    }
}
//@ obligation lemma_remove_cov props=C03,C12
pub proof fn lemma_remove_frame(cur: St, s0: St, a: PathV, q: PathV)
    requires wf(cur), frame(cur, s0, a), in_sub(a, q), q.len() > 0, cur.entries.contains_key(q)
    ensures frame(spec_remove_st(cur, q), s0, a)
{
    let c2 = spec_remove_st(cur, q);
    let d = q.drop_last();
    assert(entry_ok(cur, q));
    assert(in_sub(a, a)) by { assert(a.take(a.len() as int) =~= a); }
    if q != a {
        assert(q.len() > a.len()) by { if q.len() == a.len() { assert(q.take(a.len() as int) =~= q); } }
        assert(in_sub(a, d)) by { assert(d.take(a.len() as int) =~= q.take(a.len() as int)); }
    } else {
        assert(s0.entries.contains_key(a));
    }
    assert forall|k: PathV| !in_sub(a, k) && (a.len() == 0 || k != a.drop_last()) implies #[trigger] ent_of(c2, k) == ent_of(s0, k) by {
        assert(ent_of(cur, k) == ent_of(s0, k));
        assert(k != q);
        if k == d { assert(q == a); }
    }
    assert forall|k: PathV| !in_sub(a, k) implies #[trigger] file_of(c2, k) == file_of(s0, k) by { assert(file_of(cur, k) == file_of(s0, k)); assert(k != q); }
    assert forall|k: PathV| #[trigger] c2.entries.contains_key(k) implies s0.entries.contains_key(k) by { assert(cur.entries.contains_key(k)); }
    if a.len() > 0 && s0.entries.contains_key(a.drop_last()) {
        let pa = a.drop_last();
        assert(!in_sub(a, pa));
        assert(pa != q);
        if q != a { assert(d != pa) by { if d == pa { assert(q.len() == a.len()); } } assert(c2.entries.contains_key(a) == cur.entries.contains_key(a)); }
    }
}
//@ obligation lemma_remove_frame props=C01

//@ item remove_all file=src/sys/fs/memfs/vfs.rs block="impl VirtualFileSystem for Memfs" fn=remove_all props=C01,C03,C12
//@ sig fn remove_all<T: AsRef<Path>>(&self, path: T) -> RvResult<()>
//@ rw R11 1 ⟦let mut guard = self.write_guard();⟧ => ⟦⟧
// R2: the parameter `path` is renamed `path0` (it is shadowed by `let path = ..` and by the loop's `while let Some(path)` binding)
//@ rw R11 1 ⟦self._abs(&guard, path)?⟧ => ⟦_abs(guard, path0)?⟧
//@ rw R9 1 ⟦let mut paths = vec![path];⟧ => ⟦let mut paths = vec_of1(path);⟧
//@ rw R3 1 ⟦for name in files {⟧ => ⟦for name in files.iter() {⟧
//@ rw R1 * ⟦paths.push(path.mash(name));⟧ => ⟦paths.push(path.mash_name(&name));⟧
//@ rw R3 1 for
//@ ins after ⟦let mut paths = vec_of1(path);⟧
        let ghost s0 = guard.st();
        let ghost a = paths@[0]@;
        let ghost mut ex: Set<PathV> = Set::empty();
        let ghost mut old_paths = paths@;
        let ghost pc0 = path0.comps();
        proof {
            guard.ax_finite();
            assert(in_sub(a, a)) by { assert(a.take(a.len() as int) =~= a); }
            assert(covered(s0, a, paths@)) by {
                assert forall|k: PathV| #[trigger] s0.entries.contains_key(k) && in_sub(a, k) implies exists|j: int| 0 <= j < paths@.len() && in_sub((#[trigger] paths@[j])@, k) by { assert(in_sub(paths@[0]@, k)); }
            }
        }
//@ endins
//@ loop 1
            invariant
                s0 == old(guard).st(), wf(s0), spec_abs(s0.cwd, pc0) == Some(a), pc0 == path0.comps(),
                all_ok(guard.st(), s0, a, ex, paths@), old_paths == paths@,
            ensures paths@.len() == 0,
            decreases guard.st().entries.dom().len(), guard.st().entries.dom().difference(ex).len(), paths@.len()
//@ endloop
//@ ins before ⟦if !guard.contains_entry(&path) {⟧
            let ghost q = path@;
            let ghost base = paths@;
            let ghost cur = guard.st();
            let ghost mut ns_g: Seq<NameStr> = Seq::empty();
            proof {
                guard.ax_finite();
                assert(old_paths =~= base.push(path));
                assert(old_paths[base.len() as int] == path);
            }
//@ endins
//@ ins before#1 ⟦continue;⟧
                proof { lemma_step_skip(cur, s0, a, ex, base, path); old_paths = paths@; }
//@ endins
//@ loop 2
                            invariant
                                path.abs_clean(), path@ == q,
                                0 <= ci <= ns.len(), __it1.rest() == ns.skip(ci),
                                paths@.len() == base.len() + 1 + ci,
                                forall|i: int| 0 <= i < base.len() ==> paths@[i] == base[i],
                                paths@[base.len() as int].abs_clean() && paths@[base.len() as int]@ == q,
                                forall|i: int| 0 <= i < ci ==> (#[trigger] paths@[base.len() + 1 + i]).abs_clean() && paths@[base.len() + 1 + i]@ == q.push(ns[i]@),
                            ensures ci == ns.len(),
                            decreases ns.len() - ci
//@ endloop
//@ ins after ⟦{ let mut __it1 = files.iter();⟧
                        let ghost ns = __it1.rest();
                        let ghost mut ci: int = 0;
                        proof { ns_g = ns; }
//@ endins
//@ ins after ⟦None => break };⟧
                            proof { assert(name == ns[ci]); ci = ci + 1; }
//@ endins
//@ ins before#2 ⟦continue;⟧
                        proof {
                            assert(entry.ev() == cur.entries[q]);
                            assert(has_kids(cur, q));
                            assert(lists_kids(cur, q, ns_g));
                            assert(expanded_stack(base, path, ns_g, paths@));
                            lemma_step_expand(cur, s0, a, ex, base, path, ns_g, paths@);
                            assert(cur.entries.dom().difference(ex.insert(q)) =~= cur.entries.dom().difference(ex).remove(q));
                            ex = ex.insert(q);
                            old_paths = paths@;
                        }
//@ endins
//@ ins before#1 re⟦if let Some\((?:parent|dir)\) = (?:guard\.get_entry_mut\(|path\.parent\(\))⟧
            proof {
                assert(!has_kids(cur, q)) by {
                    assert(entry_ok(cur, q));
                }
                assert(entry_ok(cur, q));
            }
//@ endins
//@ ins loopend 1
            proof {
                let c2 = spec_remove_st(cur, q);
                assert(q.drop_last().push(q.last()) =~= q);
                assert(guard.st().entries =~= c2.entries);
                assert(guard.st().files =~= c2.files);
                assert(guard.st() == c2);
                lemma_remove_wf(cur, q);
                lemma_remove_cov(cur, a, ex, base, path);
                lemma_remove_frame(cur, s0, a, q);
                assert(c2.entries.dom() =~= cur.entries.dom().remove(q));
                old_paths = paths@;
            }
//@ endins
pub fn remove_all(guard: &mut MemfsGuard, path0: &PathBuf) -> (r: RvResult<()>)
    requires wf(old(guard).st()),
    ensures
        wf(final(guard).st()),                                                                                   //@ clause remove_all.wf_preserved [C03]
        // terminates on every well formed tree (lexicographic measure: entries left, entries not yet expanded, stack length)   //@ clause remove_all.terminates [C12]
        spec_abs(old(guard).st().cwd, path0.comps()) is None ==> r is Err && final(guard).st() == old(guard).st(),
        (r is Ok && spec_abs(old(guard).st().cwd, path0.comps()) is Some) ==> ({
            let s0 = old(guard).st();
            let a = spec_abs(s0.cwd, path0.comps())->Some_0;
            &&& forall|k: PathV| in_sub(a, k) ==> !(#[trigger] final(guard).st().entries.contains_key(k))         //@ clause remove_all.subtree_is_gone [C01]
            &&& frame(final(guard).st(), s0, a)                                                                   //@ clause remove_all.nothing_else_changes [C01]
        }),
//@ body
