//@ unit memfs_move
//@ props C09 C01 C03 C12 C06
// Memfs::move_p: a work-stack relocation of a subtree.
//@ prelude base errors io iter path_abs memfs_state memfs_api
//@ struct file=src/sys/fs/memfs/file.rs name=MemfsFile
//@ endstruct
//@ struct file=src/sys/fs/memfs/entry.rs name=MemfsEntry
//@ rw R4 * ⟦Option<HashSet<String>>⟧ => ⟦Option<NameSet>⟧
//@ endstruct

#[verifier::external_body]
pub fn vec_of1(p: PathBuf) -> (r: Vec<PathBuf>) ensures r@.len() == 1, r@[0]@ == p@, r@[0].abs_clean() == p.abs_clean() { unimplemented!() }

// ---- vocabulary
pub open spec fn reloc(a: PathV, d0: PathV, p: PathV) -> PathV { d0 + p.skip(a.len() as int) }
pub open spec fn dst0(s: St, a: PathV, b: PathV) -> PathV { if s.entries.contains_key(b) && s.entries[b].dir { b.push(a.last()) } else { b } }
pub open spec fn pview(v: Seq<PathBuf>) -> Seq<PathV> { Seq::new(v.len(), |i: int| v[i]@) }
// pending stack: source nodes not yet moved, pairwise distinct, all proper ancestors (inside the moved tree) already moved,
// and every node still to be moved is below (or equal to) a pending one
#[verifier::opaque]
pub open spec fn pending_ok(s0: St, a: PathV, done: Set<PathV>, ps: Seq<PathBuf>) -> bool {
    &&& forall|i: int| 0 <= i < ps.len() ==> (#[trigger] ps[i]).abs_clean() && in_sub(a, ps[i]@) && s0.entries.contains_key(ps[i]@) && !done.contains(ps[i]@)
    &&& forall|i: int, j: int| 0 <= i < j < ps.len() ==> (#[trigger] ps[i])@ != (#[trigger] ps[j])@
    &&& forall|i: int, y: PathV| 0 <= i < ps.len() && in_sub(a, y) && in_sub(y, (#[trigger] ps[i])@) && y != ps[i]@ ==> #[trigger] done.contains(y)
    &&& forall|x: PathV| s0.entries.contains_key(x) && in_sub(a, x) && !done.contains(x) ==> exists|i: int| 0 <= i < ps.len() && in_sub((#[trigger] ps[i])@, x)
}
pub open spec fn ent_of(s: St, k: PathV) -> Option<EntryV> { if s.entries.contains_key(k) { Some(s.entries[k]) } else { None } }
pub open spec fn file_of(s: St, k: PathV) -> Option<FileV> { if s.files.contains_key(k) { Some(s.files[k]) } else { None } }
pub open spec fn moved(e: EntryV, np: PathV) -> EntryV { EntryV { path: np, ..e } }
// nothing exists strictly below the destination d0 (d0 itself may exist: it is then replaced)
pub open spec fn free_below(s0: St, d0: PathV) -> bool { forall|k: PathV| #[trigger] s0.entries.contains_key(k) ==> !(in_sub(d0, k) && k != d0) }
// an existing destination can be replaced unless it is a directory that has children or that would be replaced by a non-directory
pub open spec fn replaceable(s0: St, a: PathV, d0: PathV) -> bool {
    !s0.entries.contains_key(d0) || !s0.entries[d0].dir
    || (s0.entries[a].dir && (s0.entries[d0].kids is None || s0.entries[d0].kids->Some_0 =~= Set::<Name>::empty()))
}
// entry / file stored under key k after the set `done` of source nodes has been relocated from a to d0 (d0 != a, destination free)
pub open spec fn ent_after(s0: St, a: PathV, d0: PathV, done: Set<PathV>, k: PathV) -> Option<EntryV> {
    if in_sub(d0, k) {
        let m = a + k.skip(d0.len() as int);
        if done.contains(m) { Some(moved(s0.entries[m], k)) } else if k == d0 { ent_of(s0, d0) } else { None }      // d0 itself may exist until it is replaced
    } else if in_sub(a, k) {
        if s0.entries.contains_key(k) && !done.contains(k) { Some(s0.entries[k]) } else { None }
    } else if !s0.entries.contains_key(k) { None } else {
        let e = s0.entries[k];
        let e1 = if done.contains(a) && k == a.drop_last() { del_kid(e, a.last()) } else { e };
        let e2 = if done.contains(a) && k == d0.drop_last() { add_kid(e1, d0.last()) } else { e1 };
        Some(e2)
    }
}
pub open spec fn file_after(s0: St, a: PathV, d0: PathV, done: Set<PathV>, k: PathV) -> Option<FileV> {
    if in_sub(d0, k) {
        let m = a + k.skip(d0.len() as int);
        if done.contains(m) { if s0.files.contains_key(m) { Some(s0.files[m]) } else { None } } else if k == d0 { file_of(s0, d0) } else { None }
    } else if in_sub(a, k) {
        if s0.files.contains_key(k) && !done.contains(k) { Some(s0.files[k]) } else { None }
    } else { file_of(s0, k) }
}
#[verifier::opaque]
pub open spec fn state_after(st: St, s0: St, a: PathV, d0: PathV, done: Set<PathV>) -> bool {
    &&& st.cwd == s0.cwd && st.cwd_ok == s0.cwd_ok
    &&& (d0 == a ==> st.entries =~= s0.entries && st.files =~= s0.files)
    &&& (d0 != a ==> forall|k: PathV| #[trigger] ent_of(st, k) == ent_after(s0, a, d0, done, k))
    &&& (d0 != a ==> forall|k: PathV| #[trigger] file_of(st, k) == file_after(s0, a, d0, done, k))
}
pub open spec fn sub_dom(s0: St, a: PathV) -> Set<PathV> { s0.entries.dom().filter(|k: PathV| in_sub(a, k)) }
#[verifier::opaque]
pub open spec fn done_ok(s0: St, a: PathV, done: Set<PathV>) -> bool {
    forall|m: PathV| #[trigger] done.contains(m) ==> in_sub(a, m) && s0.entries.contains_key(m) && (m != a ==> done.contains(m.drop_last()))
}

pub open spec fn move_hyp(s: St, src: Comps, dst: Comps) -> bool {
    match (spec_abs(s.cwd, src), spec_abs(s.cwd, dst)) {
        (Some(a), Some(b)) => dst0(s, a, b) == a || free_below(s, dst0(s, a, b)),
        _ => true,
    }
}
// basic facts about subtrees
pub proof fn lemma_sub_basics(a: PathV, p: PathV)
    requires in_sub(a, p)
    ensures a.len() > 0 ==> in_sub(a.drop_last(), p), in_sub(a, a), in_sub(p, p), p.take(p.len() as int) =~= p,
            (p.len() > a.len()) ==> in_sub(a, p.drop_last()),
            reloc(a, a, p) =~= p,
{
    assert(a.take(a.len() as int) =~= a);
    assert(p.take(p.len() as int) =~= p);
    if a.len() > 0 { assert(p.take(a.len() - 1) =~= a.drop_last()); }
    if p.len() > a.len() { assert(p.drop_last().take(a.len() as int) =~= p.take(a.len() as int)); }
    assert(a + p.skip(a.len() as int) =~= p);
}
pub proof fn lemma_sub_trans(a: PathV, b: PathV, c: PathV)
    requires in_sub(a, b), in_sub(b, c)
    ensures in_sub(a, c)
{
    assert(c.take(a.len() as int) =~= c.take(b.len() as int).take(a.len() as int));
}
// one step of the work stack: p is popped and moved, its children (the names ns of its child set) are pushed
pub proof fn lemma_step_pending(s0: St, a: PathV, done: Set<PathV>, base: Seq<PathBuf>, top: PathBuf, ns: Seq<NameStr>, newp: Seq<PathBuf>)
    requires
        wf(s0), done_ok(s0, a, done), pending_ok(s0, a, done, base.push(top)),
        ({
            let p = top@;
            let kids = s0.entries[p].kids;
            &&& (kids is None ==> newp == base)
            &&& (kids is Some ==> {
                    &&& ns.no_duplicates_by_view()
                    &&& forall|n: Name| kids->Some_0.contains(n) <==> exists|i: int| 0 <= i < ns.len() && (#[trigger] ns[i])@ == n
                    &&& newp.len() == base.len() + ns.len()
                    &&& forall|i: int| 0 <= i < base.len() ==> newp[i] == base[i]
                    &&& forall|i: int| 0 <= i < ns.len() ==> (#[trigger] newp[base.len() + i]).abs_clean() && newp[base.len() + i]@ == p.push(ns[i]@)
                })
        }),
    ensures pending_ok(s0, a, done.insert(top@), newp), done_ok(s0, a, done.insert(top@))
{
    reveal(pending_ok); reveal(done_ok);
    let p = top@;
    let old = base.push(top);
    let d2 = done.insert(p);
    let kids = s0.entries[p].kids;
    let bl = base.len() as int;
    assert(old[bl] == top);
    assert(in_sub(a, p) && s0.entries.contains_key(p) && !done.contains(p));
    // done stays upward closed
    assert forall|m: PathV| #[trigger] d2.contains(m) implies in_sub(a, m) && s0.entries.contains_key(m) && (m != a ==> d2.contains(m.drop_last())) by {
        if m == p && p != a {
            lemma_sub_basics(a, p);
            assert(p.len() > a.len()) by { if p.len() == a.len() { assert(p.take(a.len() as int) =~= p); } }
            let y = p.drop_last();
            assert(in_sub(y, p)) by { assert(p.take(y.len() as int) =~= y); }
            assert(y != p);
            assert(old[bl]@ == p);
            assert(done.contains(y));
        }
    }
    // 1. members
    assert forall|i: int| 0 <= i < newp.len() implies (#[trigger] newp[i]).abs_clean() && in_sub(a, newp[i]@) && s0.entries.contains_key(newp[i]@) && !d2.contains(newp[i]@) by {
        if i < bl {
            assert(newp[i] == old[i]);
            assert(old[i]@ != old[bl]@);
        } else {
            let c = i - bl;
            let n = ns[c]@;
            assert(newp[bl + c]@ == p.push(n));
            assert(kids->Some_0.contains(n));
            assert(kids_ok(s0, p, n));
            assert(p.push(n).take(p.len() as int) =~= p);
            assert(in_sub(p, p.push(n)));
            lemma_sub_trans(a, p, p.push(n));
            assert(p.push(n) != p);
            if done.contains(p.push(n)) { assert(p.push(n).drop_last() =~= p); assert(p.push(n) != a) by { if p.push(n) == a { assert(in_sub(a, p)); } } }
        }
    }
    // 2. distinct
    assert forall|i: int, j: int| 0 <= i < j < newp.len() implies (#[trigger] newp[i])@ != (#[trigger] newp[j])@ by {
        if j < bl { assert(old[i] == base[i] && old[j] == base[j]); assert(newp[i] == old[i] && newp[j] == old[j]); assert(old[i]@ != old[j]@); }
        else if i < bl {
            // a pending node cannot be a child of p: p would have to be moved already
            let c = j - bl;
            assert(old[i] == base[i]);
            assert(newp[i] == old[i]);
            assert(newp[bl + c]@ == p.push(ns[c]@));
            if old[i]@ == p.push(ns[c]@) {
                assert(p.push(ns[c]@).take(p.len() as int) =~= p);
                assert(in_sub(p, old[i]@) && p != old[i]@);
                assert(done.contains(p));
            }
        } else {
            let c1 = i - bl; let c2 = j - bl;
            assert(newp[bl + c1]@ == p.push(ns[c1]@) && newp[bl + c2]@ == p.push(ns[c2]@));
            if p.push(ns[c1]@) == p.push(ns[c2]@) { assert(p.push(ns[c1]@).last() == ns[c1]@); assert(p.push(ns[c2]@).last() == ns[c2]@); }
        }
    }
    // 3. all proper ancestors inside the tree are moved
    assert forall|i: int, y: PathV| 0 <= i < newp.len() && in_sub(a, y) && in_sub(y, (#[trigger] newp[i])@) && y != newp[i]@ implies #[trigger] d2.contains(y) by {
        if i < bl { assert(newp[i] == old[i]); assert(done.contains(y)); }
        else {
            let c = i - bl;
            let ch = p.push(ns[c]@);
            assert(newp[bl + c]@ == ch);
            if y != p {
                // y is a proper prefix of p
                assert(y.len() <= p.len()) by { if y.len() > p.len() { assert(y.len() == ch.len()); assert(ch.take(y.len() as int) =~= ch); } }
                assert(in_sub(y, p)) by { assert(ch.take(y.len() as int) =~= p.take(y.len() as int)); }
                assert(old[bl]@ == p);
                assert(done.contains(y));
            }
        }
    }
    // 4. coverage
    assert forall|x: PathV| s0.entries.contains_key(x) && in_sub(a, x) && !d2.contains(x) implies exists|i: int| 0 <= i < newp.len() && in_sub((#[trigger] newp[i])@, x) by {
        let w = choose|i: int| 0 <= i < old.len() && in_sub((#[trigger] old[i])@, x);
        if w < bl { assert(newp[w] == old[w]); assert(in_sub(newp[w]@, x)); }
        else {
            // x is a proper descendant of p: its ancestor one level below p is a listed child
            assert(old[w] == top);
            assert(x != p);
            assert(x.len() > p.len()) by { if x.len() == p.len() { assert(x.take(p.len() as int) =~= x); } }
            let c = x.take(p.len() as int + 1);
            lemma_prefix_exists(s0, x, p.len() as int + 1);
            assert(c.drop_last() =~= p) by { assert(c.take(p.len() as int) =~= x.take(p.len() as int)); }
            assert(entry_ok(s0, c));
            let n = c.last();
            assert(kids is Some && kids->Some_0.contains(n));
            let ci = choose|i: int| 0 <= i < ns.len() && (#[trigger] ns[i])@ == n;
            assert(newp[bl + ci]@ == p.push(n));
            assert(p.push(n) =~= c);
            assert(in_sub(c, x)) by { assert(x.take(c.len() as int) =~= c); }
            assert(in_sub(newp[bl + ci]@, x));
        }
    }
}
pub proof fn lemma_prefix_exists(s: St, q: PathV, n: int)
    requires wf(s), s.entries.contains_key(q), 0 <= n <= q.len()
    ensures s.entries.contains_key(q.take(n))
    decreases q.len() - n
{
    if n == q.len() { assert(q.take(n) =~= q); } else {
        assert(entry_ok(s, q));
        let d = q.drop_last();
        assert(d.take(n) =~= q.take(n));
        lemma_prefix_exists(s, d, n);
    }
}
// nodes of the source tree are never inside the (free) destination tree
pub proof fn lemma_disjoint(s0: St, a: PathV, d0: PathV, x: PathV)
    requires s0.entries.contains_key(a), free_below(s0, d0), !(in_sub(a, d0) && d0 != a), d0 != a, in_sub(a, x)
    ensures !in_sub(d0, x)
{
    if in_sub(d0, x) {
        if d0.len() <= a.len() {
            assert(x.take(a.len() as int).take(d0.len() as int) =~= x.take(d0.len() as int));
            assert(a.take(d0.len() as int) == d0);
            assert(in_sub(d0, a));
        } else {
            assert(x.take(d0.len() as int).take(a.len() as int) =~= x.take(a.len() as int));
            assert(d0.take(a.len() as int) == a);
            assert(in_sub(a, d0));
        }
    }
}
// one relocation step on the abstract state (destination different from the source and free); per-key lemmas keep each query small
pub open spec fn step_rel(s0: St, a: PathV, d0: PathV, st1: St, st2: St, p: PathV) -> bool {
    let q = reloc(a, d0, p);
    let e1 = st1.entries.remove(p).insert(q, moved(s0.entries[p], q));
    let pa = a.drop_last();
    let pd = d0.drop_last();
    &&& st2.cwd == st1.cwd && st2.cwd_ok == st1.cwd_ok
    &&& st2.files =~= (if st1.files.contains_key(p) { st1.files.remove(p).insert(q, st1.files[p]) } else { st1.files.remove(q) })
    &&& (p != a ==> st2.entries =~= e1)
    &&& (p == a ==> st2.entries =~= e1.insert(pa, del_kid(e1[pa], a.last())).insert(pd, add_kid(e1.insert(pa, del_kid(e1[pa], a.last()))[pd], d0.last())))
}
pub open spec fn step_geom(s0: St, a: PathV, d0: PathV, done: Set<PathV>, p: PathV) -> bool {
    &&& wf(s0) && s0.entries.contains_key(a) && a.len() > 0 && d0.len() > 0 && d0 != a && free_below(s0, d0) && !(in_sub(a, d0) && d0 != a)
    &&& s0.entries.contains_key(d0.drop_last()) && s0.entries[d0.drop_last()].dir
    &&& in_sub(a, p) && s0.entries.contains_key(p) && !done.contains(p) && (p != a ==> done.contains(p.drop_last()))
}
pub proof fn lemma_step_geom(s0: St, a: PathV, d0: PathV, done: Set<PathV>, p: PathV)
    requires step_geom(s0, a, d0, done, p)
    ensures ({
        let q = reloc(a, d0, p); let pa = a.drop_last(); let pd = d0.drop_last();
        &&& !in_sub(d0, p) && in_sub(d0, q) && a + q.skip(d0.len() as int) =~= p
        &&& !in_sub(a, pa) && !in_sub(d0, pd) && !in_sub(a, pd) && !in_sub(d0, pa)
        &&& in_sub(a, a) && p.len() >= a.len()
    })
{
    let q = reloc(a, d0, p);
    let pa = a.drop_last();
    let pd = d0.drop_last();
    lemma_disjoint(s0, a, d0, p);
    lemma_sub_basics(a, p);
    assert(in_sub(d0, q)) by { assert(q.take(d0.len() as int) =~= d0); }
    assert(q.skip(d0.len() as int) =~= p.skip(a.len() as int));
    assert(a + q.skip(d0.len() as int) =~= p);
    assert(!in_sub(a, pa)) by { if in_sub(a, pa) { } }
    assert(!in_sub(d0, pd));
    assert(!in_sub(a, pd)) by { if in_sub(a, pd) { assert(d0.take(a.len() as int) =~= pd.take(a.len() as int)); assert(in_sub(a, d0)); } }
    assert(!in_sub(d0, pa)) by { if in_sub(d0, pa) { assert(a.take(d0.len() as int) =~= pa.take(d0.len() as int)); assert(in_sub(d0, a)); } }
}
pub proof fn lemma_state_step_ent(s0: St, a: PathV, d0: PathV, done: Set<PathV>, st1: St, st2: St, p: PathV, k: PathV)
    requires
        step_geom(s0, a, d0, done, p), step_rel(s0, a, d0, st1, st2, p),
        ent_of(st1, k) == ent_after(s0, a, d0, done, k),
        ent_of(st1, a.drop_last()) == ent_after(s0, a, d0, done, a.drop_last()),
        ent_of(st1, d0.drop_last()) == ent_after(s0, a, d0, done, d0.drop_last()),
    ensures ent_of(st2, k) == ent_after(s0, a, d0, done.insert(p), k)
{
    let q = reloc(a, d0, p);
    lemma_step_geom(s0, a, d0, done, p);
    assert(entry_ok(s0, a));
    if in_sub(d0, k) {
        let m = a + k.skip(d0.len() as int);
        if k == q { } else {
            // a different destination key comes from a different source node
            if m == p { assert(d0 + m.skip(a.len() as int) =~= k) by { assert(m.skip(a.len() as int) =~= k.skip(d0.len() as int)); assert(d0 + k.skip(d0.len() as int) =~= k); } }
        }
    } else if in_sub(a, k) {
    } else { }
}
pub proof fn lemma_state_step_file(s0: St, a: PathV, d0: PathV, done: Set<PathV>, st1: St, st2: St, p: PathV, k: PathV)
    requires
        step_geom(s0, a, d0, done, p), step_rel(s0, a, d0, st1, st2, p),
        file_of(st1, k) == file_after(s0, a, d0, done, k),
        file_of(st1, p) == file_after(s0, a, d0, done, p),
    ensures file_of(st2, k) == file_after(s0, a, d0, done.insert(p), k)
{
    let q = reloc(a, d0, p);
    lemma_step_geom(s0, a, d0, done, p);
    if in_sub(d0, k) {
        let m = a + k.skip(d0.len() as int);
        if k != q && m == p { assert(m.skip(a.len() as int) =~= k.skip(d0.len() as int)); assert(d0 + k.skip(d0.len() as int) =~= k); }
    }
}
pub proof fn lemma_state_step(s0: St, a: PathV, d0: PathV, done: Set<PathV>, st1: St, st2: St, p: PathV)
    requires
        wf(s0), s0.entries.contains_key(a), a.len() > 0, d0.len() > 0, d0 != a, free_below(s0, d0), !(in_sub(a, d0) && d0 != a),
        s0.entries.contains_key(d0.drop_last()) && s0.entries[d0.drop_last()].dir,
        done_ok(s0, a, done), state_after(st1, s0, a, d0, done),
        in_sub(a, p), s0.entries.contains_key(p), !done.contains(p), (p != a ==> done.contains(p.drop_last())),
        step_rel(s0, a, d0, st1, st2, p),
    ensures state_after(st2, s0, a, d0, done.insert(p))
{
    reveal(state_after);
    let d2 = done.insert(p);
    assert(step_geom(s0, a, d0, done, p));
    assert forall|k: PathV| #[trigger] ent_of(st2, k) == ent_after(s0, a, d0, d2, k) by {
        assert(ent_of(st1, k) == ent_after(s0, a, d0, done, k));
        assert(ent_of(st1, a.drop_last()) == ent_after(s0, a, d0, done, a.drop_last()));
        assert(ent_of(st1, d0.drop_last()) == ent_after(s0, a, d0, done, d0.drop_last()));
        lemma_state_step_ent(s0, a, d0, done, st1, st2, p, k);
    }
    assert forall|k: PathV| #[trigger] file_of(st2, k) == file_after(s0, a, d0, d2, k) by {
        assert(file_of(st1, k) == file_after(s0, a, d0, done, k));
        assert(file_of(st1, p) == file_after(s0, a, d0, done, p));
        lemma_state_step_file(s0, a, d0, done, st1, st2, p, k);
    }
}
pub proof fn lemma_init(s0: St, a: PathV, d0: PathV, ps: Seq<PathBuf>)
    requires wf(s0), s0.entries.contains_key(a), ps.len() == 1, ps[0]@ == a, ps[0].abs_clean(), d0 == a || free_below(s0, d0)
    ensures pending_ok(s0, a, Set::empty(), ps), done_ok(s0, a, Set::empty()), state_after(s0, s0, a, d0, Set::empty())
{
    reveal(pending_ok); reveal(done_ok); reveal(state_after);
    let done = Set::<PathV>::empty();
    assert(a.take(a.len() as int) =~= a);
    assert forall|x: PathV| s0.entries.contains_key(x) && in_sub(a, x) && !done.contains(x) implies exists|i: int| 0 <= i < ps.len() && in_sub((#[trigger] ps[i])@, x) by { assert(in_sub(ps[0]@, x)); }
    assert forall|i: int, y: PathV| 0 <= i < ps.len() && in_sub(a, y) && in_sub(y, (#[trigger] ps[i])@) && y != ps[i]@ implies #[trigger] done.contains(y) by {
        assert(y.len() == a.len()); assert(a.take(y.len() as int) =~= a); assert(y.take(a.len() as int) =~= y); }
    if d0 != a {
        assert forall|k: PathV| #[trigger] ent_of(s0, k) == ent_after(s0, a, d0, done, k) by { }
        assert forall|k: PathV| #[trigger] file_of(s0, k) == file_after(s0, a, d0, done, k) by { assert(file_ok(s0, k)); }
    }
}
// what the state holds for the node on top of the stack
pub proof fn lemma_top(s0: St, a: PathV, d0: PathV, done: Set<PathV>, base: Seq<PathBuf>, top: PathBuf, st1: St)
    requires wf(s0), s0.entries.contains_key(a), a.len() > 0, d0.len() > 0, d0 == a || free_below(s0, d0), !(in_sub(a, d0) && d0 != a),
             s0.entries.contains_key(d0.drop_last()) && s0.entries[d0.drop_last()].dir,
             pending_ok(s0, a, done, base.push(top)), done_ok(s0, a, done), state_after(st1, s0, a, d0, done)
    ensures ({
        let p = top@;
        let q = reloc(a, d0, p);
        &&& top.abs_clean() && in_sub(a, p) && s0.entries.contains_key(p) && !done.contains(p) && p.len() > 0
        &&& (p != a ==> done.contains(p.drop_last()) && in_sub(a, p.drop_last()))
        &&& ent_of(st1, p) == Some(s0.entries[p]) && file_of(st1, p) == file_of(s0, p)
        &&& s0.entries[p].path == p && s0.entries[p].path_ok
        &&& st1.cwd == s0.cwd && st1.cwd_ok == s0.cwd_ok
        &&& (d0 == a ==> st1.entries =~= s0.entries && st1.files =~= s0.files && q =~= p && s0.entries.contains_key(p.drop_last()) && s0.entries[p.drop_last()].dir
                        && s0.entries[p.drop_last()].kids is Some && s0.entries[p.drop_last()].kids->Some_0.contains(p.last()))
        &&& (d0 != a ==> {
                &&& (p != a ==> !st1.entries.contains_key(p.drop_last()))
                &&& (p == a ==> st1.entries.contains_key(a.drop_last()) && st1.entries[a.drop_last()] == s0.entries[a.drop_last()] && s0.entries[a.drop_last()].dir
                                && st1.entries.contains_key(d0.drop_last()) && st1.entries[d0.drop_last()] == s0.entries[d0.drop_last()])
                &&& q != p && q != p.drop_last() && (p == a ==> q != d0.drop_last() && p != d0.drop_last())
            })
    })
{
    reveal(pending_ok); reveal(done_ok); reveal(state_after);
    let p = top@;
    let old = base.push(top);
    let bl = base.len() as int;
    assert(old[bl] == top);
    assert(in_sub(a, p) && s0.entries.contains_key(p) && !done.contains(p));
    lemma_sub_basics(a, p);
    assert(entry_ok(s0, p));
    assert(file_ok(s0, p));
    if p != a {
        assert(p.len() > a.len()) by { if p.len() == a.len() { assert(p.take(a.len() as int) =~= p); } }
        let y = p.drop_last();
        assert(in_sub(y, p)) by { assert(p.take(y.len() as int) =~= y); }
        assert(done.contains(y));
    }
    if d0 != a {
        lemma_disjoint(s0, a, d0, p);
        assert(ent_of(st1, p) == ent_after(s0, a, d0, done, p));
        assert(file_of(st1, p) == file_after(s0, a, d0, done, p));
        let q = reloc(a, d0, p);
        assert(in_sub(d0, q)) by { assert(q.take(d0.len() as int) =~= d0); }
        if p != a {
            lemma_disjoint(s0, a, d0, p.drop_last());
            assert(ent_of(st1, p.drop_last()) == ent_after(s0, a, d0, done, p.drop_last()));
        } else {
            let pa = a.drop_last(); let pd = d0.drop_last();
            assert(entry_ok(s0, a));
            assert(!in_sub(a, pa));
            assert(!in_sub(d0, pd));
            assert(!in_sub(a, pd)) by { if in_sub(a, pd) { assert(d0.take(a.len() as int) =~= pd.take(a.len() as int)); assert(in_sub(a, d0)); } }
            assert(!in_sub(d0, pa)) by { if in_sub(d0, pa) { assert(a.take(d0.len() as int) =~= pa.take(d0.len() as int)); assert(in_sub(d0, a)); } }
            assert(ent_of(st1, pa) == ent_after(s0, a, d0, done, pa));
            assert(ent_of(st1, pd) == ent_after(s0, a, d0, done, pd));
        }
    } else {
        assert(a + p.skip(a.len() as int) =~= p);
    }
}
// a step when the destination IS the source (move onto itself): the state does not change
pub proof fn lemma_state_same(s0: St, a: PathV, done: Set<PathV>, st1: St, st2: St, p: PathV)
    requires
        wf(s0), state_after(st1, s0, a, a, done), in_sub(a, p), s0.entries.contains_key(p), p.len() > 0,
        ({
            let e1 = st1.entries.remove(p).insert(p, moved(s0.entries[p], p));
            let pp = p.drop_last();
            &&& st2.cwd == st1.cwd && st2.cwd_ok == st1.cwd_ok
            &&& st2.files =~= (if st1.files.contains_key(p) { st1.files.remove(p).insert(p, st1.files[p]) } else { st1.files })
            &&& st2.entries =~= e1.insert(pp, del_kid(e1[pp], p.last())).insert(pp, add_kid(del_kid(e1[pp], p.last()), p.last()))
        }),
    ensures state_after(st2, s0, a, a, done.insert(p))
{
    reveal(state_after);
    assert(entry_ok(s0, p));
    let pp = p.drop_last();
    let k0 = s0.entries[pp].kids->Some_0;
    assert(k0.remove(p.last()).insert(p.last()) =~= k0);
    assert(pp != p);
}
//@ obligation lemma_init props=C09,C01
//@ obligation lemma_top props=C09,C01
//@ obligation lemma_state_same props=C09,C01
pub proof fn lemma_final(s0: St, a: PathV, done: Set<PathV>, ps: Seq<PathBuf>)
    requires pending_ok(s0, a, done, ps), done_ok(s0, a, done), ps.len() == 0
    ensures done =~= sub_dom(s0, a)
{
    reveal(pending_ok); reveal(done_ok);
    assert forall|x: PathV| done.contains(x) == sub_dom(s0, a).contains(x) by {
        if s0.entries.contains_key(x) && in_sub(a, x) && !done.contains(x) { }
    }
}
//@ obligation lemma_final props=C09,C01
//@ obligation lemma_disjoint props=C09,C01
//@ obligation lemma_state_step props=C09,C01
//@ obligation lemma_step_geom props=C09,C01
//@ obligation lemma_state_step_ent props=C09,C01
//@ obligation lemma_state_step_file props=C09,C01
//@ obligation lemma_sub_basics props=C09,C01
//@ obligation lemma_sub_trans props=C09,C01
//@ obligation lemma_step_pending props=C09,C01
//@ obligation lemma_prefix_exists props=C09,C01

// ---- the relocated tree is well formed (C03 for move_p), outside the known finding: the destination's parent is a real directory
pub proof fn lemma_key_shapes(a: PathV, d0: PathV, k: PathV)
    requires in_sub(d0, k)
    ensures ({ let m = a + k.skip(d0.len() as int); in_sub(a, m) && m.len() == a.len() + k.len() - d0.len() && d0 + m.skip(a.len() as int) =~= k
               && (k.len() > d0.len() ==> m.drop_last() =~= a + k.drop_last().skip(d0.len() as int) && m.last() == k.last() && in_sub(d0, k.drop_last())) })
{
    let m = a + k.skip(d0.len() as int);
    assert(m.take(a.len() as int) =~= a);
    assert(m.skip(a.len() as int) =~= k.skip(d0.len() as int));
    assert(d0 + k.skip(d0.len() as int) =~= k) by { assert(k.take(d0.len() as int) == d0); assert(k.take(d0.len() as int) + k.skip(d0.len() as int) =~= k); }
    if k.len() > d0.len() {
        assert(k.drop_last().skip(d0.len() as int) =~= k.skip(d0.len() as int).drop_last());
        assert(k.drop_last().take(d0.len() as int) =~= k.take(d0.len() as int));
    }
}
pub proof fn lemma_moved_wf(s0: St, a: PathV, d0: PathV, st: St)
    requires
        wf(s0), s0.entries.contains_key(a), a.len() > 0, d0.len() > 0, d0 != a, free_below(s0, d0), !in_sub(a, d0),
        s0.entries.contains_key(d0.drop_last()), s0.entries[d0.drop_last()].dir, !s0.entries[d0.drop_last()].link,
        state_after(st, s0, a, d0, sub_dom(s0, a)),
    ensures wf(st)
{
    reveal(state_after);
    let done = sub_dom(s0, a);
    let pa = a.drop_last();
    let pd = d0.drop_last();
    assert(in_sub(a, a)) by { assert(a.take(a.len() as int) =~= a); }
    assert(in_sub(d0, d0)) by { assert(d0.take(d0.len() as int) =~= d0); }
    assert(done.contains(a));
    // parents of a and d0 are outside both subtrees
    assert(!in_sub(a, pa));
    assert(!in_sub(d0, pd));
    assert(!in_sub(a, pd)) by { if in_sub(a, pd) { assert(d0.take(a.len() as int) =~= pd.take(a.len() as int)); } }
    assert(!in_sub(d0, pa)) by { if in_sub(d0, pa) { assert(a.take(d0.len() as int) =~= pa.take(d0.len() as int)); assert(in_sub(d0, a)); assert(false); } }
    assert(entry_ok(s0, a));
    // 1. entries
    assert forall|k: PathV| st.entries.contains_key(k) implies #[trigger] entry_ok(st, k) by {
        assert(ent_of(st, k) == ent_after(s0, a, d0, done, k));
        if in_sub(d0, k) {
            lemma_key_shapes(a, d0, k);
            let m = a + k.skip(d0.len() as int);
            assert(done.contains(m));
            assert(entry_ok(s0, m));
            if k.len() == d0.len() {
                assert(k =~= d0) by { assert(k.take(d0.len() as int) =~= k); }
                assert(m =~= a) by { assert(k.skip(d0.len() as int) =~= Seq::<Name>::empty()); }
                assert(ent_of(st, pd) == ent_after(s0, a, d0, done, pd));
            } else {
                let kp = k.drop_last();
                let mp = m.drop_last();
                assert(in_sub(a, mp)) by { assert(mp.take(a.len() as int) =~= m.take(a.len() as int)); }
                assert(done.contains(mp));
                assert(ent_of(st, kp) == ent_after(s0, a, d0, done, kp));
            }
        } else if in_sub(a, k) {
            assert(false);
        } else {
            assert(entry_ok(s0, k));
            if k.len() > 0 {
                let kp = k.drop_last();
                assert(kp.push(k.last()) =~= k);
                assert(!in_sub(a, kp)) by { if in_sub(a, kp) { assert(k.take(a.len() as int) =~= kp.take(a.len() as int)); } }
                assert(!in_sub(d0, kp)) by { if in_sub(d0, kp) { assert(k.take(d0.len() as int) =~= kp.take(d0.len() as int)); } }
                assert(ent_of(st, kp) == ent_after(s0, a, d0, done, kp));
                if kp == pa && k.last() == a.last() { assert(k =~= a) by { assert(pa.push(a.last()) =~= a); } }
            }
        }
    }
    // 2. listed children exist
    assert forall|q: PathV, n: Name| #[trigger] kids_ok(st, q, n) by {
        if st.entries.contains_key(q) && st.entries[q].kids is Some && st.entries[q].kids->Some_0.contains(n) {
            let c = q.push(n);
            assert(c.drop_last() =~= q && c.last() == n);
            assert(ent_of(st, q) == ent_after(s0, a, d0, done, q));
            assert(ent_of(st, c) == ent_after(s0, a, d0, done, c));
            if in_sub(d0, q) {
                lemma_key_shapes(a, d0, q);
                let m = a + q.skip(d0.len() as int);
                assert(kids_ok(s0, m, n));
                assert(in_sub(d0, c)) by { assert(c.take(d0.len() as int) =~= q.take(d0.len() as int)); }
                assert(a + c.skip(d0.len() as int) =~= m.push(n)) by { assert(c.skip(d0.len() as int) =~= q.skip(d0.len() as int).push(n)); }
                assert(in_sub(a, m.push(n))) by { assert(m.push(n).take(a.len() as int) =~= m.take(a.len() as int)); }
            } else if in_sub(a, q) {
                assert(false);
            } else {
                assert(kids_ok(s0, q, n));
                if q == pd && n == d0.last() {
                    assert(c =~= d0) by { assert(pd.push(d0.last()) =~= d0); }
                    assert(a + c.skip(d0.len() as int) =~= a) by { assert(c.skip(d0.len() as int) =~= Seq::<Name>::empty()); }
                } else {
                    // n was listed in s0 and is not the removed name
                    assert(s0.entries[q].kids->Some_0.contains(n));
                    assert(s0.entries.contains_key(c));
                    if in_sub(a, c) {
                        // q is outside the source tree, so c can only be a itself
                        assert(c.len() == a.len()) by { if c.len() > a.len() { assert(q.take(a.len() as int) =~= c.take(a.len() as int)); } }
                        assert(c =~= a) by { assert(c.take(a.len() as int) =~= c); }
                        assert(q =~= pa && n == a.last());
                        assert(false);
                    }
                    if in_sub(d0, c) { assert(false); }
                }
            }
        }
    }
    // 3. file contents
    assert forall|k: PathV| #[trigger] file_ok(st, k) by {
        assert(ent_of(st, k) == ent_after(s0, a, d0, done, k));
        assert(file_of(st, k) == file_after(s0, a, d0, done, k));
        if in_sub(d0, k) {
            lemma_key_shapes(a, d0, k);
            let m = a + k.skip(d0.len() as int);
            assert(file_ok(s0, m));
        } else {
            assert(file_ok(s0, k));
        }
    }
    // 4. root
    assert(!in_sub(a, root()) && !in_sub(d0, root()));
    assert(ent_of(st, root()) == ent_after(s0, a, d0, done, root()));
    assert(root() != pd || true);
}
//@ obligation lemma_key_shapes props=C03,C09
//@ obligation lemma_moved_wf props=C03,C09

// validity gives a free destination: below a missing path, a non-directory or a childless directory nothing exists (wf)
pub proof fn lemma_valid_free(s0: St, a: PathV, d0: PathV)
    requires wf(s0), s0.entries.contains_key(a), replaceable(s0, a, d0)
    ensures free_below(s0, d0)
{
    assert forall|k: PathV| #[trigger] s0.entries.contains_key(k) implies !(in_sub(d0, k) && k != d0) by {
        if in_sub(d0, k) && k != d0 {
            assert(k.len() > d0.len()) by { if k.len() == d0.len() { assert(k.take(d0.len() as int) =~= k); } }
            let c = k.take(d0.len() as int + 1);
            lemma_prefix_exists(s0, k, d0.len() as int + 1);
            lemma_prefix_exists(s0, k, d0.len() as int);
            assert(entry_ok(s0, c));
            assert(c.drop_last() =~= d0) by { assert(c.drop_last() =~= k.take(d0.len() as int)); }
            assert(entry_ok(s0, d0));
            assert(s0.entries[d0].kids->Some_0.contains(c.last()));
        }
    }
}
//@ obligation lemma_valid_free props=C09,C01,C03

//@ item move_p file=src/sys/fs/memfs/vfs.rs block="impl VirtualFileSystem for Memfs" fn=move_p props=C09,C01,C03,C12,C06
//@ sig fn move_p<T: AsRef<Path>, U: AsRef<Path>>(&self, src: T, dst: U) -> RvResult<()>
//@ rw R11 1 ⟦let mut guard = self.write_guard();⟧ => ⟦⟧
//@ rw R11 1 ⟦self._abs(&guard, src)?⟧ => ⟦_abs(guard, src)?⟧
//@ rw R11 1 ⟦self._abs(&guard, dst)?⟧ => ⟦_abs(guard, dst)?⟧
//@ rw R11 + ⟦self._is_dir(&guard, &dst_root)⟧ => ⟦_is_dir(guard, &dst_root)⟧
//@ rw R1 * ⟦dst_first != src_root⟧ => ⟦dst_first.ne(&src_root)⟧
//@ rw R9 1 ⟦let mut paths = vec![src_root.clone()];⟧ => ⟦let mut paths = vec_of1(src_root.clone());⟧
//@ rw R4 * ⟦dst_entry.path.clone_from(&dst_path);⟧ => ⟦dst_entry.path = dst_path.clone();⟧
//@ rw R3 1 ⟦for name in files {⟧ => ⟦for name in files.iter() {⟧
//@ rw R1 * ⟦paths.push(src_entry.path().mash(name));⟧ => ⟦paths.push(src_entry.path().mash_name(&name));⟧
//@ rw R3 1 for
//@ ins after ⟦let copy_into = _is_dir(guard, &dst_root);⟧
        let ghost s0 = guard.st();
        let ghost a = src_root@;
        let ghost b = dst_root@;
        proof {
            guard.ax_finite();
            assert(a.take(a.len() as int) =~= a);
            if a.len() > 0 { assert(a.take(a.len() - 1) =~= a.drop_last()); assert(in_sub(a.drop_last(), a)); assert(a.skip(a.len() - 1) =~= seq![a.last()]); }
        }
//@ endins
//@ ins after ⟦else { dst_root.clone() };⟧
        let ghost d0 = dst_first@;
        let ghost mut done: Set<PathV> = Set::empty();
        proof {
            if copy_into { assert(b + seq![a.last()] =~= b.push(a.last())); }
            assert(d0 == dst0(s0, a, b));
            // the root cannot be moved: it is a prefix of every destination, and moving it onto itself means dst is the (existing) root
            if a.len() == 0 { assert(d0.take(0) =~= a); assert(in_sub(a, d0)); if d0 == a { assert(entry_ok(s0, root())); } }
        }
//@ endins
//@ ins after ⟦let mut paths = vec_of1(src_root.clone());⟧
        proof {
            assert(a.len() > 0);
            assert(d0.len() > 0);
            if d0 != a { lemma_valid_free(s0, a, d0); }
            lemma_init(s0, a, d0, paths@);
        }
//@ endins
//@ ins before ⟦while let Some(src_path) = paths.pop() {⟧
        let ghost mut old_paths = paths@;
//@ endins
//@ loop 1
            invariant
                s0.entries.dom().finite(), wf(s0), a.len() > 0, s0.entries.contains_key(a), d0.len() > 0,
                src_root.abs_clean() && src_root@ == a, dst_root.abs_clean() && dst_root@ == b,
                d0 == (if copy_into { b.push(a.last()) } else { b }),
                d0 == a || free_below(s0, d0), !(in_sub(a, d0) && d0 != a),
                s0.entries.contains_key(d0.drop_last()) && s0.entries[d0.drop_last()].dir,
                pending_ok(s0, a, done, paths@), done_ok(s0, a, done),
                done.subset_of(s0.entries.dom()),
                state_after(guard.st(), s0, a, d0, done), old_paths == paths@,
                s0 == old(guard).st(), spec_abs(s0.cwd, src.comps()) == Some(a), spec_abs(s0.cwd, dst.comps()) == Some(b), d0 == dst0(s0, a, b),
            ensures paths@.len() == 0,
            decreases s0.entries.dom().difference(done).len()
//@ endloop
//@ ins before ⟦let dst_path = if⟧
            let ghost p = src_path@;
            let ghost base = paths@;
            let ghost st1 = guard.st();
            proof {
                assert(old_paths.len() > 0);
                assert(old_paths =~= base.push(src_path));
                lemma_top(s0, a, d0, done, base, src_path, st1);
                lemma_sub_basics(a, p);
                if copy_into { assert(p.skip(a.len() - 1) =~= seq![a.last()] + p.skip(a.len() as int)); assert(b + (seq![a.last()] + p.skip(a.len() as int)) =~= b.push(a.last()) + p.skip(a.len() as int)); }
            }
//@ endins
//@ ins after ⟦dst_root.mash(src_path.trim_prefix(&src_root)) };⟧
            let ghost q = dst_path@;
            proof {
                assert(q == reloc(a, d0, p));
                assert(q.len() > 0);
                assert(q.drop_last() =~= reloc(a, d0, p).drop_last());
                if p == a { assert(p.skip(a.len() as int) =~= Seq::<Name>::empty()); assert(q =~= d0); }
            }
//@ endins
//@ ins before ⟦if let Some(mut dst_file) = guard.remove_file(&src_path) {⟧
            let ghost st_a = guard.st();
            proof { assert(st_a.entries =~= st1.entries.remove(p).insert(q, moved(s0.entries[p], q))); assert(st_a.files == st1.files); }
//@ endins
//@ ins before ⟦if let Some(old_parent) = guard.get_entry_mut(&src_path.dir()?) {⟧
            let ghost st_b = guard.st();
            proof {
                assert(st_b.entries == st_a.entries);
                assert(st_b.files =~= (if st1.files.contains_key(p) { st1.files.remove(p).insert(q, st1.files[p]) } else { st1.files.remove(q) }));
            }
//@ endins
//@ ins before ⟦if let Some(ref files) = src_entry.files {⟧
            let ghost mut kids_listed: bool = false;
            let ghost mut ns_g: Seq<NameStr> = Seq::empty();
            proof {
                let st2 = guard.st();
                if d0 != a { lemma_state_step(s0, a, d0, done, st1, st2, p); } else { lemma_state_same(s0, a, done, st1, st2, p); }
            }
//@ endins
//@ loop 2
                    invariant
                        src_entry.path.abs_clean(), src_entry.path@ == p,
                        0 <= ci <= ns.len(), __it1.rest() == ns.skip(ci),
                        paths@.len() == base.len() + ci,
                        forall|i: int| 0 <= i < base.len() ==> paths@[i] == base[i],
                        forall|i: int| 0 <= i < ci ==> (#[trigger] paths@[base.len() + i]).abs_clean() && paths@[base.len() + i]@ == p.push(ns[i]@),
                    ensures ci == ns.len(),
                    decreases ns.len() - ci
//@ endloop
//@ ins after ⟦{ let mut __it1 = files.iter();⟧
                let ghost ns = __it1.rest();
                let ghost mut ci: int = 0;
                proof { kids_listed = true; ns_g = ns; }
//@ endins
//@ ins after ⟦None => break };⟧
                    proof { assert(name == ns[ci]); ci = ci + 1; }
//@ endins
//@ ins loopend 1
            proof {
                assert(src_entry.ev() == s0.entries[p]);
                if !kids_listed { assert(paths@ =~= base); }
                lemma_step_pending(s0, a, done, base, src_path, ns_g, paths@);
                let d2 = done.insert(p);
                assert(s0.entries.dom().difference(d2) =~= s0.entries.dom().difference(done).remove(p));
                done = d2;
                old_paths = paths@;
            }
//@ endins
//@ ins before#-1 ⟦Ok(())⟧
        proof {
            lemma_final(s0, a, done, paths@);
            if d0 != a && !s0.entries[d0.drop_last()].link { lemma_moved_wf(s0, a, d0, guard.st()); }
            if d0 == a { reveal(state_after); assert(guard.st().entries =~= s0.entries); assert(guard.st().files =~= s0.files); assert(guard.st() == s0); }
        }
//@ endins
pub fn move_p(guard: &mut MemfsGuard, src: &PathBuf, dst: &PathBuf) -> (r: RvResult<()>)
    requires wf(old(guard).st()),
    ensures
        r is Err ==> final(guard).st() == old(guard).st(),                                                        //@ clause move_p.failure_atomic [C01,C09]
        (spec_abs(old(guard).st().cwd, src.comps()) is None || spec_abs(old(guard).st().cwd, dst.comps()) is None) ==> r is Err,
        (spec_abs(old(guard).st().cwd, src.comps()) is Some && spec_abs(old(guard).st().cwd, dst.comps()) is Some) ==> ({
            let s0 = old(guard).st();
            let a = spec_abs(s0.cwd, src.comps())->Some_0;
            let b = spec_abs(s0.cwd, dst.comps())->Some_0;
            let d0 = dst0(s0, a, b);      // dst itself, or dst/<name of src> when dst is an existing directory
            let valid = s0.entries.contains_key(a) && a.len() > 0 && !(in_sub(a, d0) && d0 != a) && d0.len() > 0
                        && s0.entries.contains_key(d0.drop_last()) && s0.entries[d0.drop_last()].dir
                        // an existing destination is replaced, except a directory that has children or that a non-directory would replace
                        && (d0 == a || replaceable(s0, a, d0));
            &&& !valid ==> r is Err                                                                                   //@ clause move_p.invalid_moves_are_refused [C01]
            // a valid move relocates exactly the source subtree: every entry and file below src reappears below the destination with
            // its path updated, the source disappears, the two parent listings are adjusted and nothing else changes
            &&& valid ==> r is Ok && state_after(final(guard).st(), s0, a, d0, sub_dom(s0, a))                        //@ clause move_p.relocates_exactly_the_subtree [C09,C01]
            // the relocated tree is well formed, unless the destination's parent is a symlink to a directory (known finding add-under-symlink-parent)
            &&& (wf(final(guard).st()) || (valid && s0.entries[d0.drop_last()].link))                               //@ clause move_p.wf_preserved [C03]
        }),
//@ body
