//@ unit user_xdg
//@ props C18 C12
// XDG base-directory lookup and sudo ids (src/sys/user.rs, path::home_dir / parse_paths) for every environment.
//@ prelude base errors iter strs path_comps env

// mash with a literal / string second argument: contract of path::mash (proved in unit path_helpers) composed with PathBuf::from
pub open spec fn strip_root(p: Comps) -> Comps { if is_abs(p) { p.skip(1) } else { p } }
pub open spec fn spec_mash(d: Comps, p: Comps) -> Comps { collect_spec(Seq::empty(), collect_spec(d, strip_root(p))) }
impl PathBuf {
    // PathExt::dir (ASSUMED[dir-contract]: proved for the free function in unit path_helpers): the path without its last component
    #[verifier::external_body]
    pub fn dir(&self) -> (r: RvResult<PathBuf>)
        ensures (self.comps().len() == 0 || self.comps() == seq![Component::RootDir]) ==> r is Err && r->Err_0.kind == ErrKind::ParentNotFound,
                !(self.comps().len() == 0 || self.comps() == seq![Component::RootDir]) ==> r is Ok && r->Ok_0.comps() == self.comps().drop_last(),
    { unimplemented!() }

    // ASSUMED[mash-contract]: PathExt::mash (proved in unit path_helpers)
    #[verifier::external_body]
    pub fn mash_lit(&self, lit: &'static str) -> (r: PathBuf) ensures r.comps() == spec_mash(self.comps(), parse(lit@)) { unimplemented!() }
    #[verifier::external_body]
    pub fn mash_s(&self, s: &Str) -> (r: PathBuf) ensures r.comps() == spec_mash(self.comps(), parse(s@)) { unimplemented!() }
}

// R8 (unit-wide): any `env::var("NAME")` is the environment oracle; `env::temp_dir()` honours TMPDIR and is left unspecified
//@ rwall R8 re⟦(?<![\w:])env::var\(⟧ => ⟦env_var(⟧
//@ rwall R8 re⟦(?<![\w:])env::temp_dir\(\)⟧ => ⟦env_temp_dir()⟧
#[verifier::external_body]
pub fn env_temp_dir() -> (r: PathBuf) { unimplemented!() }
//@ item home_dir file=src/sys/fs/path.rs fn=home_dir props=C18,C17,C12,C05,C01
//@ rw R8 * ⟦std::env::var("HOME")?⟧ => ⟦env_var("HOME")?⟧
//@ rw R1 * ⟦PathBuf::from(home)⟧ => ⟦PathBuf::from_s(&home)⟧
//@ rw R1 * re⟦PathBuf::from\((home\.[^;]*)\);⟧ => ⟦PathBuf::from_s(\1);⟧
pub fn home_dir() -> (r: RvResult<PathBuf>)
    ensures r is Ok == env("HOME"@) is Some, r is Ok ==> r->Ok_0.pstr() == env("HOME"@)->Some_0 && r->Ok_0.comps() == parse(env("HOME"@)->Some_0),   //@ clause home_dir.is_HOME [C18,C17]
            r is Err ==> r->Err_0.kind == ErrKind::Var,
//@ body

// default under $HOME: mash(home, a) [then mash(.., b)]
pub open spec fn under_home1(a: Seq<char>) -> Comps { spec_mash(parse(env("HOME"@)->Some_0), parse(a)) }
pub open spec fn under_home2(a: Seq<char>, b: Seq<char>) -> Comps { spec_mash(spec_mash(parse(env("HOME"@)->Some_0), parse(a)), parse(b)) }

//@ item config_dir file=src/sys/user.rs fn=config_dir props=C18,C12
//@ rw R8 * ⟦env::var("XDG_CONFIG_HOME")⟧ => ⟦env_var("XDG_CONFIG_HOME")⟧
//@ rw R1 * ⟦PathBuf::from(x)⟧ => ⟦PathBuf::from_s(&x)⟧
//@ rw R1 * ⟦.mash(".config")⟧ => ⟦.mash_lit(".config")⟧
pub fn config_dir() -> (r: RvResult<PathBuf>)
    ensures
        // the variable is set: its value is returned as given (a value that is set but empty is left to the caller: XDG says "unset or empty")
        env("XDG_CONFIG_HOME"@) is Some ==> r is Ok && r->Ok_0.pstr() == env("XDG_CONFIG_HOME"@)->Some_0,                       //@ clause config_dir.uses_XDG_CONFIG_HOME_when_set [C18]
        // unset: the specification's default under $HOME, an error when HOME is unset too
        (env("XDG_CONFIG_HOME"@) is None && env("HOME"@) is Some) ==> r is Ok && r->Ok_0.comps() == under_home1(".config"@),          //@ clause config_dir.default_under_HOME [C18]
        (env("XDG_CONFIG_HOME"@) is None && env("HOME"@) is None) ==> r is Err,
//@ body

//@ item cache_dir file=src/sys/user.rs fn=cache_dir props=C18,C12
//@ rw R8 * ⟦env::var("XDG_CACHE_HOME")⟧ => ⟦env_var("XDG_CACHE_HOME")⟧
//@ rw R1 * ⟦PathBuf::from(x)⟧ => ⟦PathBuf::from_s(&x)⟧
//@ rw R1 * ⟦.mash(".cache")⟧ => ⟦.mash_lit(".cache")⟧
pub fn cache_dir() -> (r: RvResult<PathBuf>)
    ensures
        // the variable is set: its value is returned as given (a value that is set but empty is left to the caller: XDG says "unset or empty")
        env("XDG_CACHE_HOME"@) is Some ==> r is Ok && r->Ok_0.pstr() == env("XDG_CACHE_HOME"@)->Some_0,                       //@ clause cache_dir.uses_XDG_CACHE_HOME_when_set [C18]
        // unset: the specification's default under $HOME, an error when HOME is unset too
        (env("XDG_CACHE_HOME"@) is None && env("HOME"@) is Some) ==> r is Ok && r->Ok_0.comps() == under_home1(".cache"@),          //@ clause cache_dir.default_under_HOME [C18]
        (env("XDG_CACHE_HOME"@) is None && env("HOME"@) is None) ==> r is Err,
//@ body

//@ item data_dir file=src/sys/user.rs fn=data_dir props=C18,C12
//@ rw R8 * ⟦env::var("XDG_DATA_HOME")⟧ => ⟦env_var("XDG_DATA_HOME")⟧
//@ rw R1 * ⟦PathBuf::from(x)⟧ => ⟦PathBuf::from_s(&x)⟧
//@ rw R1 * ⟦.mash(".local")⟧ => ⟦.mash_lit(".local")⟧
//@ rw R1 * ⟦.mash("share")⟧ => ⟦.mash_lit("share")⟧
pub fn data_dir() -> (r: RvResult<PathBuf>)
    ensures
        // the variable is set: its value is returned as given (a value that is set but empty is left to the caller: XDG says "unset or empty")
        env("XDG_DATA_HOME"@) is Some ==> r is Ok && r->Ok_0.pstr() == env("XDG_DATA_HOME"@)->Some_0,                       //@ clause data_dir.uses_XDG_DATA_HOME_when_set [C18]
        // unset: the specification's default under $HOME, an error when HOME is unset too
        (env("XDG_DATA_HOME"@) is None && env("HOME"@) is Some) ==> r is Ok && r->Ok_0.comps() == under_home2(".local"@, "share"@),          //@ clause data_dir.default_under_HOME [C18]
        (env("XDG_DATA_HOME"@) is None && env("HOME"@) is None) ==> r is Err,
//@ body

//@ item state_dir file=src/sys/user.rs fn=state_dir props=C18,C12
//@ rw R8 * ⟦env::var("XDG_STATE_HOME")⟧ => ⟦env_var("XDG_STATE_HOME")⟧
//@ rw R1 * ⟦PathBuf::from(x)⟧ => ⟦PathBuf::from_s(&x)⟧
//@ rw R1 * ⟦.mash(".local")⟧ => ⟦.mash_lit(".local")⟧
//@ rw R1 * ⟦.mash("state")⟧ => ⟦.mash_lit("state")⟧
pub fn state_dir() -> (r: RvResult<PathBuf>)
    ensures
        // the variable is set: its value is returned as given (a value that is set but empty is left to the caller: XDG says "unset or empty")
        env("XDG_STATE_HOME"@) is Some ==> r is Ok && r->Ok_0.pstr() == env("XDG_STATE_HOME"@)->Some_0,                       //@ clause state_dir.uses_XDG_STATE_HOME_when_set [C18]
        // unset: the specification's default under $HOME, an error when HOME is unset too
        (env("XDG_STATE_HOME"@) is None && env("HOME"@) is Some) ==> r is Ok && r->Ok_0.comps() == under_home2(".local"@, "state"@),          //@ clause state_dir.default_under_HOME [C18]
        (env("XDG_STATE_HOME"@) is None && env("HOME"@) is None) ==> r is Err,
//@ body

//@ item runtime_dir file=src/sys/user.rs fn=runtime_dir props=C18,C12
//@ rw R8 * ⟦env::var("XDG_RUNTIME_DIR")⟧ => ⟦env_var("XDG_RUNTIME_DIR")⟧
//@ rw R1 * ⟦PathBuf::from(x)⟧ => ⟦PathBuf::from_s(&x)⟧
//@ rw R1 * ⟦PathBuf::from("/tmp")⟧ => ⟦PathBuf::from_s(&Str::lit("/tmp"))⟧
pub fn runtime_dir() -> (r: PathBuf)
    ensures env("XDG_RUNTIME_DIR"@) is Some ==> r.pstr() == env("XDG_RUNTIME_DIR"@)->Some_0,
            env("XDG_RUNTIME_DIR"@) is None ==> r.pstr() == "/tmp"@,                                     //@ clause runtime_dir.falls_back_to_tmp [C18]
//@ body

// ---- parse_paths: split on ':' and drop empty segments
// R4: `value.as_ref().split(':')`.  ASSUMED[str-split]: str::split(':') yields the maximal ':'-free pieces in order (std docs)
pub uninterp spec fn split_colon_spec(s: Seq<char>) -> Seq<Seq<char>>;
#[verifier::external_body]
pub fn split_colon(s: &Str) -> (r: DeIter<Str>)
    ensures r.rest().len() == split_colon_spec(s@).len(), forall|i: int| 0 <= i < r.rest().len() ==> (#[trigger] r.rest()[i])@ == split_colon_spec(s@)[i]
{ unimplemented!() }
pub open spec fn nonempty(s: Seq<Seq<char>>) -> Seq<Seq<char>> decreases s.len() {
    if s.len() == 0 { Seq::empty() } else { let r = nonempty(s.drop_last()); if s.last().len() > 0 { r.push(s.last()) } else { r } }
}
pub open spec fn strs_of(v: Seq<PathBuf>) -> Seq<Seq<char>> { Seq::new(v.len(), |i: int| v[i].pstr()) }

//@ item parse_paths file=src/sys/fs/path.rs fn=parse_paths props=C18,C15,C12
//@ rw R9 1 ⟦let mut paths: Vec<PathBuf> = vec![];⟧ => ⟦let mut paths: Vec<PathBuf> = Vec::new();⟧
//@ rw R4 * ⟦value.as_ref().split(':')⟧ => ⟦split_colon(value.as_ref())⟧
//@ rw R1 * ⟦PathBuf::from(dir)⟧ => ⟦PathBuf::from_s(&dir)⟧
//@ rw R3 1 for
//@ ins after ⟦let mut paths: Vec<PathBuf> = Vec::new();⟧
    let ghost segs = split_colon_spec(value@);
    let ghost mut k: int = 0;
//@ endins
//@ loop 1
        invariant
            segs == split_colon_spec(value@), 0 <= k <= segs.len(),
            __it1.rest().len() == segs.len() - k,
            forall|i: int| 0 <= i < __it1.rest().len() ==> (#[trigger] __it1.rest()[i])@ == segs[k + i],
            strs_of(paths@) == nonempty(segs.take(k)),
        ensures k == segs.len(),
        decreases segs.len() - k
//@ endloop
//@ ins after ⟦None => break };⟧
        proof {
            k = k + 1;
            assert(segs.take(k).drop_last() =~= segs.take(k - 1));
            assert(segs.take(k).last() == dir@);
        }
        let ghost before = paths@;
//@ endins
//@ ins after ⟦paths.push(PathBuf::from_s(&dir));⟧
            proof { assert(strs_of(paths@) =~= strs_of(before).push(dir@)); }
//@ endins
//@ ins before ⟦Ok(paths)⟧
    proof { assert(segs.take(segs.len() as int) =~= segs); }
//@ endins
pub fn parse_paths(value: &Str) -> (r: RvResult<Vec<PathBuf>>)
    ensures r is Ok, strs_of(r->Ok_0@) == nonempty(split_colon_spec(value@)),     //@ clause parse_paths.splits_on_colon_drops_empty [C18,C15]
//@ body

// ---- colon lists with defaults
pub open spec fn list_or(var: Seq<char>, dflt: Seq<Seq<char>>) -> Seq<Seq<char>> {
    match env(var) { Some(v) => if nonempty(split_colon_spec(v)).len() == 0 { dflt } else { nonempty(split_colon_spec(v)) }, None => dflt }
}
//@ item sys_data_dirs file=src/sys/user.rs fn=sys_data_dirs props=C18,C12
//@ rw R8 * ⟦env::var("XDG_DATA_DIRS")⟧ => ⟦env_var("XDG_DATA_DIRS")⟧
//@ rw R1 * ⟦PathBuf::from("/usr/local/share")⟧ => ⟦PathBuf::from_s(&Str::lit("/usr/local/share"))⟧
//@ rw R1 * ⟦PathBuf::from("/usr/share")⟧ => ⟦PathBuf::from_s(&Str::lit("/usr/share"))⟧
//@ rw R1 * ⟦sys::parse_paths(x)?⟧ => ⟦parse_paths(&x)?⟧
//@ ins after ⟦PathBuf::from_s(&Str::lit("/usr/share"))];⟧
    proof { assert(strs_of(default@) =~= seq!["/usr/local/share"@, "/usr/share"@]); }
//@ endins
pub fn sys_data_dirs() -> (r: RvResult<Vec<PathBuf>>)
    ensures r is Ok, strs_of(r->Ok_0@) == list_or("XDG_DATA_DIRS"@, seq!["/usr/local/share"@, "/usr/share"@]),     //@ clause sys_data_dirs.listed_or_default [C18]
//@ body
//@ item sys_config_dirs file=src/sys/user.rs fn=sys_config_dirs props=C18,C12
//@ rw R8 * ⟦env::var("XDG_CONFIG_DIRS")⟧ => ⟦env_var("XDG_CONFIG_DIRS")⟧
//@ rw R1 * ⟦PathBuf::from("/etc/xdg")⟧ => ⟦PathBuf::from_s(&Str::lit("/etc/xdg"))⟧
//@ rw R1 * ⟦sys::parse_paths(x)?⟧ => ⟦parse_paths(&x)?⟧
//@ ins after ⟦PathBuf::from_s(&Str::lit("/etc/xdg"))];⟧
    proof { assert(strs_of(default@) =~= seq!["/etc/xdg"@]); }
//@ endins
pub fn sys_config_dirs() -> (r: RvResult<Vec<PathBuf>>)
    ensures r is Ok, strs_of(r->Ok_0@) == list_or("XDG_CONFIG_DIRS"@, seq!["/etc/xdg"@]),     //@ clause sys_config_dirs.listed_or_default [C18]
//@ body
//@ item path_dirs file=src/sys/user.rs fn=path_dirs props=C18,C12
//@ rw R8 * ⟦sys::parse_paths(env::var("PATH")?)⟧ => ⟦parse_paths(&env_var("PATH")?)⟧
pub fn path_dirs() -> (r: RvResult<Vec<PathBuf>>)
    ensures r is Ok == env("PATH"@) is Some, r is Ok ==> strs_of(r->Ok_0@) == nonempty(split_colon_spec(env("PATH"@)->Some_0)),     //@ clause path_dirs.listed_in_order [C18]
//@ body

// ---- getrids: the sudo ids only for root and only when both variables are numeric
// R4: `s.parse::<u32>()`.  ASSUMED[str-parse-u32]: Ok(v) iff the string is a decimal u32 (uninterpreted numeric reading)
pub uninterp spec fn u32_of(s: Seq<char>) -> Option<u32>;
#[verifier::external_body]
pub fn parse_u32(s: &Str) -> (r: Result<u32, ()>) ensures r is Ok == u32_of(s@) is Some, r is Ok ==> r->Ok_0 == u32_of(s@)->Some_0 { unimplemented!() }
//@ item getrids file=src/sys/user.rs fn=getrids props=C18,C12
//@ rw R8 * ⟦(env::var("SUDO_UID"), env::var("SUDO_GID"))⟧ => ⟦(env_var("SUDO_UID"), env_var("SUDO_GID"))⟧
//@ rw R4 + re⟦\b(\w+)\.parse::<u32>\(\)⟧ => ⟦parse_u32(&\1)⟧
pub fn getrids(uid: u32, gid: u32) -> (r: (u32, u32))
    ensures ({
        let su = match env("SUDO_UID"@) { Some(v) => u32_of(v), None => None };
        let sg = match env("SUDO_GID"@) { Some(v) => u32_of(v), None => None };
        &&& (uid == 0 && su is Some && sg is Some) ==> r == (su->Some_0, sg->Some_0)      //@ clause getrids.sudo_ids_only_for_root_and_numeric [C18]
        &&& !(uid == 0 && su is Some && sg is Some) ==> r == (uid, gid)                   //@ clause getrids.otherwise_unchanged [C18]
    }),
//@ body

// ---- vfs.config_dir(name): first of XDG_CONFIG_HOME, then XDG_CONFIG_DIRS, that contains `name` on that filesystem
#[verifier::external_body] pub struct Memfs { x: u8 }
#[verifier::external_body] pub struct Stdfs { x: u8 }
pub uninterp spec fn memfs_has(fs: &Memfs, p: Comps) -> bool;     // what Memfs::exists answers for a spelling (C01 unit)
pub uninterp spec fn stdfs_has(p: Comps) -> bool;                 // what Stdfs::exists answers (the OS)
impl Memfs {
    #[verifier::external_body]
    pub fn exists(&self, p: PathBuf) -> (b: bool) ensures b == memfs_has(self, p.comps()) { unimplemented!() }
}
impl Stdfs {
    #[verifier::external_body]
    pub fn exists(p: PathBuf) -> (b: bool) ensures b == stdfs_has(p.comps()) { unimplemented!() }
}
// R1: Vec<PathBuf>::contains (PartialEq on paths is component-wise)
#[verifier::external_body]
pub fn vec_has_path(v: &Vec<PathBuf>, x: &PathBuf) -> (b: bool) ensures b == (exists|i: int| 0 <= i < v@.len() && (#[trigger] v@[i]).comps() == x.comps()) { unimplemented!() }
// R3': `for x in vec` consumes the vector front to back
#[verifier::external_body]
pub fn vec_into_iter(v: Vec<PathBuf>) -> (r: DeIter<PathBuf>) ensures r.rest() == v@ { unimplemented!() }
pub open spec fn cand_path(d: &PathBuf, name: Seq<char>) -> Comps { spec_mash(d.comps(), parse(name)) }
// the candidate list in lookup order and "no earlier candidate contains the file"
pub open spec fn none_before(cands: Seq<PathBuf>, k: int, name: Seq<char>, pred: spec_fn(Comps) -> bool) -> bool {
    forall|i: int| 0 <= i < k ==> !pred(cand_path(&#[trigger] cands[i], name))
}

impl Memfs {
//@ item memfs_config_dir file=src/sys/fs/memfs/vfs.rs block="impl VirtualFileSystem for Memfs" fn=config_dir props=C18,C12
//@ rw R2 1 ⟦crate::sys::user::config_dir()⟧ => ⟦config_dir()⟧
//@ rw R2 1 ⟦crate::sys::user::sys_config_dirs()⟧ => ⟦sys_config_dirs()⟧
//@ rw R1 * re⟦\b(\w+)\.contains\(&(\w+)\)⟧ => ⟦vec_has_path(&\1, &\2)⟧
//@ rw R3 1 ⟦for config_dir in config_dirs {⟧ => ⟦for config_dir in vec_into_iter(config_dirs) {⟧
//@ rw R1 * ⟦config_dir.mash(config.as_ref())⟧ => ⟦config_dir.mash_s(config.as_ref())⟧
//@ rw R3 1 for
//@ ins after ⟦if let Ok(mut config_dirs) = sys_config_dirs() {⟧
                let ghost dirs0 = config_dirs@;
                let ghost c0 = config_dir;
//@ endins
//@ ins before ⟦{ let mut __it1 = vec_into_iter(config_dirs);⟧
                let ghost cands = config_dirs@;
                let ghost mut k: int = 0;
                proof { assert(cands.len() > 0); assert(cands.skip(1) =~= dirs0); assert(cands[0] == c0); }
//@ endins
//@ loop 1
                    invariant
                        0 <= k <= cands.len(), __it1.rest() == cands.skip(k), cands.len() > 0,
                        strs_of(cands.skip(1)) == list_or("XDG_CONFIG_DIRS"@, seq!["/etc/xdg"@]),
                        env("XDG_CONFIG_HOME"@) is Some ==> cands[0].pstr() == env("XDG_CONFIG_HOME"@)->Some_0,
                        env("XDG_CONFIG_HOME"@) is None ==> cands[0].comps() == under_home1(".config"@),
                        none_before(cands, k, config@, |c: Comps| memfs_has(self, c)),
                    ensures k == cands.len(),
                    decreases cands.len() - k
//@ endloop
//@ ins after ⟦None => break };⟧
                    proof { k = k + 1; assert(config_dir == cands[k - 1]); }
//@ endins
    pub fn config_dir(&self, config: &Str) -> (r: Option<PathBuf>)
        ensures
            // found: it is a candidate, it contains `name`, and no earlier candidate (XDG_CONFIG_HOME first, then XDG_CONFIG_DIRS in order) does
            r is Some ==> exists|cands: Seq<PathBuf>, k: int| #![trigger cands[k]] 0 <= k < cands.len()
                    && strs_of(cands.skip(1)) == list_or("XDG_CONFIG_DIRS"@, seq!["/etc/xdg"@])
                    && (env("XDG_CONFIG_HOME"@) is Some ==> cands[0].pstr() == env("XDG_CONFIG_HOME"@)->Some_0)
                    && (env("XDG_CONFIG_HOME"@) is None ==> cands[0].comps() == under_home1(".config"@))
                    && r->Some_0.comps() == cands[k].comps() && memfs_has(self, cand_path(&cands[k], config@))
                    && none_before(cands, k, config@, |c: Comps| memfs_has(self, c)),                        //@ clause config_dir.first_candidate_in_order [C18]
            // not found: either the user config dir cannot be determined (HOME and XDG_CONFIG_HOME unset) or no candidate contains `name`
            r is None ==> ((env("XDG_CONFIG_HOME"@) is None && env("HOME"@) is None) || exists|cands: Seq<PathBuf>| #![trigger cands.len()]
                    strs_of(cands.skip(1)) == list_or("XDG_CONFIG_DIRS"@, seq!["/etc/xdg"@])
                    && (env("XDG_CONFIG_HOME"@) is Some ==> cands.len() > 0 && cands[0].pstr() == env("XDG_CONFIG_HOME"@)->Some_0)
                    && none_before(cands, cands.len() as int, config@, |c: Comps| memfs_has(self, c))),     //@ clause config_dir.none_when_no_candidate_has_it [C18]
//@ body
}

impl Stdfs {
//@ item stdfs_config_dir file=src/sys/fs/stdfs/mod.rs block="impl Stdfs" fn=config_dir props=C18,C12
//@ rw R2 1 ⟦crate::sys::user::config_dir()⟧ => ⟦config_dir()⟧
//@ rw R2 1 ⟦crate::sys::user::sys_config_dirs()⟧ => ⟦sys_config_dirs()⟧
//@ rw R1 * re⟦\b(\w+)\.contains\(&(\w+)\)⟧ => ⟦vec_has_path(&\1, &\2)⟧
//@ rw R3 1 ⟦for config_dir in config_dirs {⟧ => ⟦for config_dir in vec_into_iter(config_dirs) {⟧
//@ rw R1 * ⟦config_dir.mash(config.as_ref())⟧ => ⟦config_dir.mash_s(config.as_ref())⟧
//@ rw R3 1 for
//@ ins after ⟦if let Ok(mut config_dirs) = sys_config_dirs() {⟧
                let ghost dirs0 = config_dirs@;
                let ghost c0 = config_dir;
//@ endins
//@ ins before ⟦{ let mut __it1 = vec_into_iter(config_dirs);⟧
                let ghost cands = config_dirs@;
                let ghost mut k: int = 0;
                proof { assert(cands.len() > 0); assert(cands.skip(1) =~= dirs0); assert(cands[0] == c0); }
//@ endins
//@ loop 1
                    invariant
                        0 <= k <= cands.len(), __it1.rest() == cands.skip(k), cands.len() > 0,
                        strs_of(cands.skip(1)) == list_or("XDG_CONFIG_DIRS"@, seq!["/etc/xdg"@]),
                        env("XDG_CONFIG_HOME"@) is Some ==> cands[0].pstr() == env("XDG_CONFIG_HOME"@)->Some_0,
                        env("XDG_CONFIG_HOME"@) is None ==> cands[0].comps() == under_home1(".config"@),
                        none_before(cands, k, config@, |c: Comps| stdfs_has(c)),
                    ensures k == cands.len(),
                    decreases cands.len() - k
//@ endloop
//@ ins after ⟦None => break };⟧
                    proof { k = k + 1; assert(config_dir == cands[k - 1]); }
//@ endins
    pub fn config_dir(config: &Str) -> (r: Option<PathBuf>)
        ensures
            // found: it is a candidate, it contains `name`, and no earlier candidate (XDG_CONFIG_HOME first, then XDG_CONFIG_DIRS in order) does
            r is Some ==> exists|cands: Seq<PathBuf>, k: int| #![trigger cands[k]] 0 <= k < cands.len()
                    && strs_of(cands.skip(1)) == list_or("XDG_CONFIG_DIRS"@, seq!["/etc/xdg"@])
                    && (env("XDG_CONFIG_HOME"@) is Some ==> cands[0].pstr() == env("XDG_CONFIG_HOME"@)->Some_0)
                    && (env("XDG_CONFIG_HOME"@) is None ==> cands[0].comps() == under_home1(".config"@))
                    && r->Some_0.comps() == cands[k].comps() && stdfs_has(cand_path(&cands[k], config@))
                    && none_before(cands, k, config@, |c: Comps| stdfs_has(c)),                        //@ clause config_dir.first_candidate_in_order [C18]
            // not found: either the user config dir cannot be determined (HOME and XDG_CONFIG_HOME unset) or no candidate contains `name`
            r is None ==> ((env("XDG_CONFIG_HOME"@) is None && env("HOME"@) is None) || exists|cands: Seq<PathBuf>| #![trigger cands.len()]
                    strs_of(cands.skip(1)) == list_or("XDG_CONFIG_DIRS"@, seq!["/etc/xdg"@])
                    && (env("XDG_CONFIG_HOME"@) is Some ==> cands.len() > 0 && cands[0].pstr() == env("XDG_CONFIG_HOME"@)->Some_0)
                    && none_before(cands, cands.len() as int, config@, |c: Comps| stdfs_has(c))),     //@ clause config_dir.none_when_no_candidate_has_it [C18]
//@ body
}
