//@ unit core_iter
//@ props C19 C12
// IteratorExt (src/core/iter.rs) over the std iterator shim DeIter<T>: plain list semantics for every length and every isize index.
//@ prelude base errors iter

pub assume_specification [isize::unsigned_abs] (x: isize) -> (r: usize)
    ensures r as int == (if x < 0 { -(x as int) } else { x as int });
pub assume_specification [isize::abs] (x: isize) -> (r: isize)
    requires x > isize::MIN       // isize::MIN.abs() overflows (panics in debug builds)
    ensures r as int == (if x < 0 { -(x as int) } else { x as int });

//@ item consume file=src/core/iter.rs block="impl<T: ?Sized> IteratorExt for T where T: Iterator," fn=consume
//@ rw R2 + re⟦\bself\b⟧ => ⟦this⟧
//@ rw R4 * ⟦(&mut this).peekable()⟧ => ⟦&mut this⟧
//@ loop? 1
            invariant true
            ensures iter.rest().len() == 0
            decreases iter.rest().len()
//@ endloop
    pub fn consume<T>(mut this: DeIter<T>) -> (r: DeIter<T>)
        ensures r.rest() == Seq::<T>::empty(),     //@ clause consume.post
//@ body

//@ item drop file=src/core/iter.rs block="impl<T: ?Sized> IteratorExt for T where T: Iterator," fn=drop
//@ rw R2 + re⟦\bself\b⟧ => ⟦this⟧
//@ rw R4 * ⟦(&mut this).rev().nth(⟧ => ⟦this.rev_nth(⟧
    pub fn drop<T>(mut this: DeIter<T>, n: isize) -> (r: DeIter<T>)
        ensures r.rest() =~= spec_drop(this.rest(), n as int),     //@ clause drop.post
//@ body

//@ item first file=src/core/iter.rs block="impl<T: ?Sized> IteratorExt for T where T: Iterator," fn=first
//@ rw R2 + re⟦\bself\b⟧ => ⟦this⟧
    pub fn first<T>(mut this: DeIter<T>) -> (r: Option<T>)
        ensures this.rest().len() == 0 ==> r is None, this.rest().len() > 0 ==> r == Some(this.rest()[0]),    //@ clause first.post
//@ body

//@ item first_result file=src/core/iter.rs block="impl<T: ?Sized> IteratorExt for T where T: Iterator," fn=first_result
//@ rw R2 + re⟦\bself\b⟧ => ⟦this⟧
    pub fn first_result<T>(mut this: DeIter<T>) -> (r: RvResult<T>)
        ensures this.rest().len() == 0 ==> r is Err && r->Err_0.kind == ErrKind::ItemNotFound,
                this.rest().len() > 0 ==> r is Ok && r->Ok_0 == this.rest()[0],     //@ clause first_result.post
//@ body

//@ item last_result file=src/core/iter.rs block="impl<T: ?Sized> IteratorExt for T where T: Iterator," fn=last_result
//@ rw R2 + re⟦\bself\b⟧ => ⟦this⟧
    pub fn last_result<T>(this: DeIter<T>) -> (r: RvResult<T>)
        ensures this.rest().len() == 0 ==> r is Err && r->Err_0.kind == ErrKind::ItemNotFound,
                this.rest().len() > 0 ==> r is Ok && r->Ok_0 == this.rest().last(),     //@ clause last_result.post
//@ body

//@ item single file=src/core/iter.rs block="impl<T: ?Sized> IteratorExt for T where T: Iterator," fn=single
//@ rw R2 + re⟦\bself\b⟧ => ⟦this⟧
    pub fn single<T>(mut this: DeIter<T>) -> (r: RvResult<T>)
        ensures this.rest().len() == 0 ==> r is Err && r->Err_0.kind == ErrKind::ItemNotFound,
                this.rest().len() == 1 ==> r is Ok && r->Ok_0 == this.rest()[0],
                this.rest().len() > 1 ==> r is Err && r->Err_0.kind == ErrKind::MultipleItemsFound,     //@ clause single.post
//@ body

//@ item slice file=src/core/iter.rs block="impl<T: ?Sized> IteratorExt for T where T: Iterator," fn=slice
//@ rw R2 + re⟦\bself\b⟧ => ⟦this⟧
//@ rw R4 * ⟦(this.clone()).count()⟧ => ⟦this.clone_count()⟧
//@ rw R4 * ⟦(&mut this).rev().nth(⟧ => ⟦this.rev_nth(⟧
    pub fn slice<T>(mut this: DeIter<T>, left: isize, right: isize) -> (r: DeIter<T>)
        requires this.rest().len() <= isize::MAX,        // ASSUMED[len-fits-isize]: the iterator yields at most isize::MAX items (true of every in-memory collection)
        ensures left >= -(this.rest().len() as int) ==> r.rest() =~= spec_slice(this.rest(), left as int, right as int),     //@ clause slice.post
//@ body

//@ item some file=src/core/iter.rs block="impl<T: ?Sized> IteratorExt for T where T: Iterator," fn=some
//@ rw R2 + re⟦\bself\b⟧ => ⟦this⟧
    pub fn some<T>(mut this: DeIter<T>) -> (r: bool)
        ensures r == (this.rest().len() > 0),     //@ clause some.post
//@ body
