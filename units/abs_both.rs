//@ unit abs_both
//@ props C05 C12
// Memfs::_abs and Stdfs::abs against ONE specification spec_abs(cwd, path): identical resolution on both backends.
//@ prelude base errors iter strs path_comps spec_clean

// ---- assumed contracts of the L2 helpers (each proved against its real body in its own unit)
pub uninterp spec fn spec_expand(p: Comps) -> Option<Comps>;       // path::expand (unit path_expand): None = expansion error
pub uninterp spec fn spec_trim_protocol(p: Comps) -> Comps;        // path::trim_protocol (not under contract: assumed to be a function of the path)
pub open spec fn strip_root(p: Comps) -> Comps { if is_abs(p) { p.skip(1) } else { p } }
pub open spec fn spec_mash(d: Comps, p: Comps) -> Comps { collect_spec(Seq::empty(), collect_spec(d, strip_root(p))) }
// free-function forms (used by Stdfs::abs through `sys::`)
// R1: the helpers take `T: AsRef<Path>`: PathBuf or &PathBuf
pub trait PArg: Sized { spec fn c(&self) -> Comps; spec fn u8ok(&self) -> bool; }
impl PArg for PathBuf { open spec fn c(&self) -> Comps { self.comps() } open spec fn u8ok(&self) -> bool { self.utf8_ok() } }
impl<'a> PArg for &'a PathBuf { open spec fn c(&self) -> Comps { (**self).comps() } open spec fn u8ok(&self) -> bool { (**self).utf8_ok() } }
pub mod sys {
    use vstd::prelude::*;
    use super::*;
    #[verifier::external_body] pub fn is_empty<T: PArg>(p: T) -> (b: bool) ensures b == (p.c().len() == 0) { unimplemented!() }                       // unit path_clean
    #[verifier::external_body] pub fn expand<T: PArg>(p: T) -> (r: RvResult<PathBuf>) ensures r is Ok == spec_expand(p.c()) is Some, r is Ok ==> r->Ok_0.comps() == spec_expand(p.c())->Some_0 { unimplemented!() }
    #[verifier::external_body] pub fn trim_protocol<T: PArg>(p: T) -> (r: PathBuf) ensures r.comps() == spec_trim_protocol(p.c()) { unimplemented!() }
    #[verifier::external_body] pub fn clean<T: PArg>(p: T) -> (r: PathBuf) ensures r.comps() == spec_clean(p.c()) { unimplemented!() }                    // unit path_clean
    #[verifier::external_body] pub fn trim_first<T: PArg>(p: T) -> (r: PathBuf) ensures r.comps() == (if p.c().len() > 0 { p.c().skip(1) } else { p.c() }) { unimplemented!() }   // unit path_helpers
    #[verifier::external_body] pub fn dir<T: PArg>(p: T) -> (r: RvResult<PathBuf>)
        ensures (p.c().len() == 0 || p.c() == seq![Component::RootDir]) ==> r is Err && r->Err_0.kind == ErrKind::ParentNotFound,
                !(p.c().len() == 0 || p.c() == seq![Component::RootDir]) ==> r is Ok && r->Ok_0.comps() == p.c().drop_last() && (p.u8ok() ==> r->Ok_0.utf8_ok())                   // unit path_helpers
    { unimplemented!() }
    #[verifier::external_body] pub fn mash<T: PArg, U: PArg>(d: T, p: U) -> (r: PathBuf) ensures r.comps() == spec_mash(d.c(), p.c()) { unimplemented!() }   // unit path_helpers
}
// method forms (PathExt forwards to the free functions: unit pathext_forward)
impl PathBuf {
    #[verifier::external_body] pub fn is_empty(&self) -> (b: bool) ensures b == (self.comps().len() == 0) { unimplemented!() }
    #[verifier::external_body] pub fn expand(&self) -> (r: RvResult<PathBuf>) ensures r is Ok == spec_expand(self.comps()) is Some, r is Ok ==> r->Ok_0.comps() == spec_expand(self.comps())->Some_0 { unimplemented!() }
    #[verifier::external_body] pub fn trim_protocol(&self) -> (r: PathBuf) ensures r.comps() == spec_trim_protocol(self.comps()) { unimplemented!() }
    #[verifier::external_body] pub fn clean(&self) -> (r: PathBuf) ensures r.comps() == spec_clean(self.comps()) { unimplemented!() }
    #[verifier::external_body] pub fn trim_first(&self) -> (r: PathBuf) ensures r.comps() == (if self.comps().len() > 0 { self.comps().skip(1) } else { self.comps() }) { unimplemented!() }
    #[verifier::external_body] pub fn dir(&self) -> (r: RvResult<PathBuf>)
        ensures (self.comps().len() == 0 || self.comps() == seq![Component::RootDir]) ==> r is Err && r->Err_0.kind == ErrKind::ParentNotFound,
                !(self.comps().len() == 0 || self.comps() == seq![Component::RootDir]) ==> r is Ok && r->Ok_0.comps() == self.comps().drop_last() && (self.utf8_ok() ==> r->Ok_0.utf8_ok())
    { unimplemented!() }
    #[verifier::external_body] pub fn mash(&self, p: PathBuf) -> (r: PathBuf) ensures r.comps() == spec_mash(self.comps(), p.comps()) { unimplemented!() }
    // ToStringExt (unit path_helpers) + ASSUMED[path-str]: the string "/" is exactly the lone root component
    #[verifier::external_body] pub fn to_string(&self) -> (r: RvResult<Str>)
        ensures r is Ok == self.utf8_ok(), r is Ok ==> r->Ok_0@ == self.pstr() && ((r->Ok_0@ == "/"@) == (self.comps() == seq![Component::RootDir]))
    { unimplemented!() }
}

// ---- the specification (written from the property statement): expand, trim the protocol prefix, clean; an absolute result is
// final; a relative one is joined lexically onto the cwd: `.` stays, `..` climbs (failing above the root), anything else is appended
pub open spec fn walk(curr: Comps, c: Comps) -> Option<Comps> decreases c.len() {
    if c.len() == 0 { Some(curr) } else {
        match c[0] {
            Component::CurDir => walk(curr, c.skip(1)),
            Component::ParentDir => if curr == seq![Component::RootDir] || curr.len() == 0 { None } else { walk(curr.drop_last(), c.skip(1)) },
            _ => Some(spec_mash(curr, c)),
        }
    }
}
pub open spec fn spec_abs(cwd: Comps, p: Comps) -> Option<Comps> {
    if p.len() == 0 { None } else {
        match spec_expand(p) {
            None => None,
            Some(e) => { let c = spec_clean(spec_trim_protocol(e)); if is_abs(c) { Some(c) } else { walk(cwd, c) } },
        }
    }
}

#[verifier::external_body] pub struct MemfsGuard { x: u8 }
impl MemfsGuard {
    pub uninterp spec fn cwd_comps(&self) -> Comps;
    pub uninterp spec fn cwd_utf8(&self) -> bool;
    #[verifier::external_body] pub fn cwd(&self) -> (r: PathBuf) ensures r.comps() == self.cwd_comps(), r.utf8_ok() == self.cwd_utf8() { unimplemented!() }
}
#[verifier::external_body] pub struct Stdfs { x: u8 }
pub uninterp spec fn os_cwd() -> Option<Comps>;          // std::env::current_dir() at the time of the call
pub uninterp spec fn os_cwd_utf8() -> bool;
impl Stdfs {
    // ASSUMED[stdfs-cwd]: Stdfs::cwd() returns the process working directory (std::env::current_dir)
    #[verifier::external_body] pub fn cwd() -> (r: RvResult<PathBuf>) ensures r is Ok == os_cwd() is Some, r is Ok ==> r->Ok_0.comps() == os_cwd()->Some_0 && r->Ok_0.utf8_ok() == os_cwd_utf8() { unimplemented!() }
}

//@ item memfs_abs file=src/sys/fs/memfs/vfs.rs block="impl Memfs" fn=_abs props=C05,C01,C12,C03,C09,C10,C06,C17,C20
//@ sig pub(crate) fn _abs<T: AsRef<Path>>(&self, guard: &MemfsGuard, path: T) -> RvResult<PathBuf>
//@ rw R5 * ⟦PathError::Empty.into()⟧ => ⟦PathError::Empty_().into()⟧
//@ rw R5 * ⟦PathError::ParentNotFound(curr).into()⟧ => ⟦PathError::parent_not_found(curr).into()⟧
//@ rw R8 * ⟦curr.to_string()? == "/"⟧ => ⟦curr.to_string()?.eq_lit("/")⟧
//@ ins before ⟦while let Ok(path) = path_buf.components().first_result() {⟧
            let ghost c0 = path_buf.comps();
            let ghost cwd0 = curr.comps();
//@ endins
//@ ins before ⟦match path {⟧
                proof { reveal_with_fuel(walk, 2); }
//@ endins
//@ ins afterloop 1
            proof { reveal_with_fuel(walk, 2); }
//@ endins
//@ loop 1
                invariant
                    walk(curr.comps(), path_buf.comps()) == walk(cwd0, c0), curr.utf8_ok(),
                decreases path_buf.comps().len()
//@ endloop
#[verifier::loop_isolation(false)]
pub fn _abs(guard: &MemfsGuard, path: &PathBuf) -> (r: RvResult<PathBuf>)
    requires guard.cwd_utf8(),
    ensures
        r is Ok == spec_abs(guard.cwd_comps(), path.comps()) is Some,                   //@ clause abs.fails_only_as_specified [C05]
        r is Ok ==> r->Ok_0.comps() == spec_abs(guard.cwd_comps(), path.comps())->Some_0,     //@ clause abs.memfs_equals_spec [C05]
//@ body

impl Stdfs {
//@ item stdfs_abs file=src/sys/fs/stdfs/mod.rs block="impl Stdfs" fn=abs props=C05,C12,C17,C01
//@ sig pub fn abs<T: AsRef<Path>>(path: T) -> RvResult<PathBuf>
//@ rw R5 * ⟦PathError::Empty.into()⟧ => ⟦PathError::Empty_().into()⟧
//@ rw R5 * ⟦PathError::ParentNotFound(curr).into()⟧ => ⟦PathError::parent_not_found(curr).into()⟧
//@ rw R8 * ⟦curr.to_string()? == "/"⟧ => ⟦curr.to_string()?.eq_lit("/")⟧
//@ ins before ⟦while let Ok(path) = path_buf.components().first_result() {⟧
            let ghost c0 = path_buf.comps();
            let ghost cwd0 = curr.comps();
//@ endins
//@ ins before ⟦match path {⟧
                proof { reveal_with_fuel(walk, 2); }
//@ endins
//@ ins afterloop 1
            proof { reveal_with_fuel(walk, 2); }
//@ endins
//@ loop 1
                invariant
                    walk(curr.comps(), path_buf.comps()) == walk(cwd0, c0), curr.utf8_ok(),
                decreases path_buf.comps().len()
//@ endloop
    #[verifier::loop_isolation(false)]
    pub fn abs(path: &PathBuf) -> (r: RvResult<PathBuf>)
        requires os_cwd_utf8(),
        ensures
            // same specification as Memfs::_abs, instantiated with the process cwd: for equal cwd the two backends agree on every input
            (os_cwd() is Some) ==> (r is Ok == spec_abs(os_cwd()->Some_0, path.comps()) is Some),
            (os_cwd() is Some && r is Ok) ==> r->Ok_0.comps() == spec_abs(os_cwd()->Some_0, path.comps())->Some_0,     //@ clause abs.stdfs_equals_spec [C05]
//@ body
}

// =====================================================================================================================
// Consequences of spec_abs: for an absolute clean cwd the result is absolute and in clean normal form (no `.`, no `..`)
pub open spec fn abs_form(c: Comps) -> bool { c.len() > 0 && c[0] == Component::RootDir && forall|i: int| 0 < i < c.len() ==> (#[trigger] c[i]) is Normal }

pub proof fn lemma_no_parent_after_nonparent(c: Comps, j: int)
    requires clean_form(c), c.len() > 0, c[0] != Component::ParentDir, 0 <= j < c.len()
    ensures c[j] != Component::ParentDir
    decreases j
{
    if j > 0 { lemma_no_parent_after_nonparent(c, j - 1); }
}
pub proof fn lemma_abs_clean_is_abs_form(c: Comps)
    requires clean_form(c), is_abs(c)
    ensures abs_form(c)
{
    assert forall|i: int| 0 < i < c.len() implies (#[trigger] c[i]) is Normal by { lemma_no_parent_after_nonparent(c, i); }
}
pub proof fn lemma_skip_clean_form(c: Comps)
    requires clean_form(c), c.len() > 0, c[0] == Component::ParentDir
    ensures clean_form(c.skip(1)), !is_abs(c.skip(1))
{
    let c2 = c.skip(1);
    assert forall|i: int| 0 <= i < c2.len() implies (c2[i] != Component::CurDir && (i > 0 ==> c2[i] != Component::RootDir)) by { assert(c2[i] == c[i + 1]); }
    assert forall|i: int| 0 < i < c2.len() && #[trigger] c2[i] == Component::ParentDir implies c2[i - 1] == Component::ParentDir by { assert(c2[i] == c[i + 1]); assert(c2[i - 1] == c[i]); }
    if c2.len() > 0 { assert(c2[0] == c[1]); }
}
pub proof fn lemma_drop_last_abs_form(curr: Comps)
    requires abs_form(curr), curr.len() > 1
    ensures abs_form(curr.drop_last())
{
    let cu = curr.drop_last();
    assert forall|i: int| 0 < i < cu.len() implies (#[trigger] cu[i]) is Normal by { assert(cu[i] == curr[i]); }
}
pub proof fn lemma_mash_plain(curr: Comps, c: Comps)
    requires abs_form(curr), clean_form(c), c.len() > 0, c[0] is Normal
    ensures abs_form(spec_mash(curr, c))
{
    assert forall|i: int| 0 <= i < c.len() implies c[i] != Component::RootDir && (c[i] != Component::CurDir || (i == 0 && curr.len() == 0)) by {
        lemma_no_parent_after_nonparent(c, i);
    }
    assert(strip_root(c) == c);
    lemma_collect_plain(curr, c);
    let m = curr + c;
    assert forall|i: int| 0 < i < m.len() implies (#[trigger] m[i]) is Normal by {
        if i < curr.len() { assert(m[i] == curr[i]); } else { assert(m[i] == c[i - curr.len()]); lemma_no_parent_after_nonparent(c, i - curr.len()); }
    }
    assert(std_comps(m));
    lemma_collect_std(m);
}
pub proof fn lemma_walk_abs_form(curr: Comps, c: Comps)
    requires abs_form(curr), clean_form(c) || c == seq![Component::CurDir], !is_abs(c), walk(curr, c) is Some
    ensures abs_form(walk(curr, c)->Some_0)
    decreases c.len()
{
    if c.len() == 0 { } else if c == seq![Component::CurDir] {
        assert(c.skip(1) =~= Seq::<Component>::empty());
        assert(walk(curr, c) == walk(curr, c.skip(1)));
        assert(walk(curr, c.skip(1)) == Some(curr));
    } else if c[0] == Component::ParentDir {
        lemma_skip_clean_form(c);
        assert(curr.len() > 1) by { if curr.len() == 1 { assert(curr =~= seq![Component::RootDir]); } }
        lemma_drop_last_abs_form(curr);
        assert(walk(curr, c) == walk(curr.drop_last(), c.skip(1)));
        lemma_walk_abs_form(curr.drop_last(), c.skip(1));
    } else {
        assert(c[0] is Normal);
        assert(walk(curr, c) == Some(spec_mash(curr, c)));
        lemma_mash_plain(curr, c);
    }
}
//@ obligation lemma_skip_clean_form props=C05
//@ obligation lemma_drop_last_abs_form props=C05
//@ obligation lemma_mash_plain props=C05
// (ii) Ok(r) ==> r absolute, no `.`, no `..` (repeated / trailing separators cannot occur in a component sequence)
pub proof fn lemma_abs_result_is_absolute_clean(cwd: Comps, p: Comps)
    requires abs_form(cwd), spec_abs(cwd, p) is Some,
             std_comps(spec_trim_protocol(spec_expand(p)->Some_0)),       // ASSUMED[path-components] for the intermediate path
    ensures abs_form(spec_abs(cwd, p)->Some_0)                            //@ clause abs.result_is_absolute_and_clean [C05]
{
    let e = spec_expand(p)->Some_0;
    let t = spec_trim_protocol(e);
    lemma_clean_normal_form(t);
    let c = spec_clean(t);
    if is_abs(c) { lemma_abs_clean_is_abs_form(c); } else { lemma_walk_abs_form(cwd, c); }
}
//@ obligation lemma_no_parent_after_nonparent props=C05
//@ obligation lemma_abs_clean_is_abs_form props=C05
//@ obligation lemma_walk_abs_form props=C05
//@ obligation lemma_abs_result_is_absolute_clean props=C05

// (iii) idempotence: an absolute clean path that contains nothing to expand and no protocol prefix resolves to itself.
// The two hypotheses are exactly what expand / trim_protocol do on such a path when no name contains `$`, `~` at the start or `//`
// (abs(abs(p)) == abs(p) can fail when the VALUE of an expanded variable itself contains `$`: see DESIGN.md 12.4).
pub proof fn lemma_abs_form_is_clean_fixpoint(r: Comps)
    requires abs_form(r)
    ensures spec_clean(r) == r
{
    let e = Seq::<Component>::empty();
    assert(e + r =~= r);
    assert(stack_ok(r)) by { assert forall|i: int| 0 <= i < r.len() implies (r[i] != Component::CurDir && (i > 0 ==> r[i] != Component::RootDir)) by { if i > 0 { assert(r[i] is Normal); } } }
    assert(clean_form(r)) by { assert forall|i: int| 0 < i < r.len() && #[trigger] r[i] == Component::ParentDir implies r[i - 1] == Component::ParentDir by { assert(r[i] is Normal); } }
    lemma_fold_fix(e, r);
}
pub proof fn lemma_abs_idempotent(cwd: Comps, r: Comps)
    requires abs_form(r), spec_expand(r) == Some(r), spec_trim_protocol(r) == r
    ensures spec_abs(cwd, r) == Some(r)                                   //@ clause abs.idempotent_on_paths_without_expansion_triggers [C05]
{
    lemma_abs_form_is_clean_fixpoint(r);
}
//@ obligation lemma_abs_form_is_clean_fixpoint props=C05
//@ obligation lemma_abs_idempotent props=C05
