//@ kani inject=src/sys/fs/memfs/file.rs
//@ harness kani_seek_matches_cursor items=seek replay=seek props=C07,C12 completeness=complete note="loop-free; position and offset range over all of u64/i64; data length 0..=4 (the arithmetic only depends on the length, which Verus covers unboundedly)"
//@ harness kani_read_matches_cursor items=read replay=read props=C07,C12,C06 completeness=complete note="loop-free; position all of u64; data and buffer length 0..=4"
//@ harness kani_len_total items=len replay=len props=C07,C12 completeness=complete note="loop-free; all u64 positions; data length 0..=4"
#[cfg(kani)]
mod verif_kani {
    use super::MemfsFile;
    use std::io::{Cursor, Read, Seek, SeekFrom};

    fn any_data() -> Vec<u8> {
        let n: usize = kani::any();
        kani::assume(n <= 4);
        let a: [u8; 4] = kani::any();
        a[..n].to_vec()
    }
    fn any_seek() -> SeekFrom {
        let k: u8 = kani::any();
        let u: u64 = kani::any();
        let i: i64 = kani::any();
        match k % 3 {
            0 => SeekFrom::Start(u),
            1 => SeekFrom::Current(i),
            _ => SeekFrom::End(i),
        }
    }

    #[kani::proof]
    fn kani_seek_matches_cursor() {
        let data = any_data();
        let pos: u64 = kani::any();
        let sf = any_seek();
        let mut f = MemfsFile { pos, data: data.clone(), path: None, fs: None };
        let mut c = Cursor::new(data);
        c.set_position(pos);
        let rf = f.seek(sf);
        let rc = c.seek(sf);
        match (rf, rc) {
            (Ok(a), Ok(b)) => {
                assert!(a == b);
                assert!(f.pos == c.position());
            },
            (Err(_), Err(_)) => {
                assert!(f.pos == pos);
                assert!(c.position() == pos);
            },
            _ => assert!(false),
        }
        std::mem::forget(f);
    }

    #[kani::proof]
    fn kani_read_matches_cursor() {
        let data = any_data();
        let pos: u64 = kani::any();
        let n: usize = kani::any();
        kani::assume(n <= 4);
        let init: [u8; 4] = kani::any();
        let mut b1 = init;
        let mut b2 = init;
        let mut f = MemfsFile { pos, data: data.clone(), path: None, fs: None };
        let mut c = Cursor::new(data);
        c.set_position(pos);
        let rf = f.read(&mut b1[..n]);
        let rc = c.read(&mut b2[..n]);
        match (rf, rc) {
            (Ok(a), Ok(b)) => {
                assert!(a == b);
                assert!(b1 == b2);
                assert!(f.pos == c.position());
            },
            _ => assert!(false),
        }
        std::mem::forget(f);
    }

    #[kani::proof]
    fn kani_len_total() {
        let data = any_data();
        let pos: u64 = kani::any();
        let f = MemfsFile { pos, data, path: None, fs: None };
        let l = f.len();
        assert!(l == (f.data.len() as u64).saturating_sub(pos));
        std::mem::forget(f);
    }
}
