//@ unit memfs_ops
//@ props C01 C03 C10 C12 C05
// Memfs operations over the MemfsGuard shim: every operation is verified against (a) the representation invariant wf
// (property C03), (b) a reference transition written from the trait documentation (C01) including failure atomicity,
// (c) the symlink laws (C10).  All path arguments reach the state only through _abs (C05 part 2).
//@ prelude base errors io iter strs path_abs memfs_state

//@ struct file=src/sys/fs/memfs/file.rs name=MemfsFile
//@ endstruct
//@ struct file=src/sys/fs/memfs/entry.rs name=MemfsEntry
//@ rw R4 * ⟦Option<HashSet<String>>⟧ => ⟦Option<NameSet>⟧
//@ endstruct
//@ struct file=src/sys/fs/memfs/entry.rs name=MemfsEntryOpts
//@ endstruct

// R11 (unit-wide): the RwLock guard becomes the `guard` parameter; `self._helper(<guard>, ..)` becomes the free function `_helper(guard, ..)`
//@ rwall R11 re⟦let (?:mut )?guard = (?:self|vfs)\.(?:read|write)_guard\(\);⟧ => ⟦⟧
//@ rwall R11 re⟦&(?:mut )?self\.(?:read|write)_guard\(\)⟧ => ⟦guard⟧
//@ rwall R11 re⟦\b(?:self|vfs)\.(_[a-z_]+)\(\s*(?:&mut |&)?guard\b⟧ => ⟦\1(guard⟧
//@ rwall R11 re⟦\btarget\.is_absolute\(\)⟧ => ⟦target.is_absolute2()⟧
// R10 (unit-wide): the crate macro unwrap_or_false!(e) is `match e { Ok(v) => v, Err(_) => return false }` (src/core/result.rs:18; ASSUMED[macro-unwrap-or-false]: transcribed, not re-extracted)
// R1 (unit-wide): `a != b` / `a == b` on path fields and locals of the entry builders
//@ rwall R1 re⟦\b(self\.alt|self\.path|this\.alt|this\.path|dir|link|target) != &?(\w+(?:\.\w+)*)⟧ => ⟦\1.ne_p(&\2)⟧
//@ rwall R10 re⟦unwrap_or_false!\(((?:[^()]|\([^()]*\))*)\)⟧ => ⟦match \1 { Ok(v) => v, Err(_) => return false }⟧

// ---- assumed contracts of the layers below (each is proved against the real body in its own unit)
// spec_abs(cwd, spelling): the absolute clean location a path argument denotes (unit abs_both proves Memfs::_abs against it)
pub uninterp spec fn spec_abs(cwd: PathV, arg: Comps) -> Option<PathV>;
// ASSUMED[abs-contract]: Memfs::_abs returns Ok(a) with a absolute+clean and a == spec_abs(cwd, arg), Err iff spec_abs is None (proved in unit abs_both at component level)
#[verifier::external_body]
pub fn _abs<T: PathArg>(guard: &MemfsGuard, path: T) -> (r: RvResult<PathBuf>)
    requires guard.st().cwd_ok
    ensures r is Ok <==> spec_abs(guard.st().cwd, path.pc()) is Some,
            r is Ok ==> r->Ok_0.abs_clean() && r->Ok_0@ == spec_abs(guard.st().cwd, path.pc())->Some_0 && r->Ok_0.comps() == abs_comps(r->Ok_0@),
{ unimplemented!() }
// ASSUMED[relative-contract]: PathExt::relative (proved in unit path_relative at component level)
pub uninterp spec fn spec_relative(p: Comps, base: Comps) -> Comps;
impl PathBuf {
    #[verifier::external_body]
    pub fn relative<T: PathArg>(&self, base: T) -> (r: RvResult<PathBuf>)
        ensures r is Ok, r->Ok_0.comps() == spec_relative(self.comps(), base.pc()),
                base.pok() ==> r->Ok_0.comps() == spec_relative(self.comps(), abs_comps(base.pv())),   // by ax_abs
    { unimplemented!() }
    // PathExt::mash of an absolute clean dir with a relative/absolute path (proved in unit path_helpers at component level)
    pub uninterp spec fn spec_mash(d: Comps, p: Comps) -> Comps;
    #[verifier::external_body]
    pub fn mash<T: MashArg>(&self, p: T) -> (r: PathBuf) ensures r.comps() == Self::spec_mash(self.comps(), p.mc()) { unimplemented!() }
    #[verifier::external_body]
    pub fn is_absolute(&self) -> (b: bool) ensures self.abs_clean() ==> b { unimplemented!() }
    // PathExt::has_prefix / has_suffix compare the TEXT of the paths (unit path_helpers); at the component level used here they are unspecified
    #[verifier::external_body] pub fn ne_p<T: PathArg>(&self, o: T) -> (b: bool) ensures b == (self.comps() != o.pc()) { unimplemented!() }
    #[verifier::external_body]
    pub fn to_owned(&self) -> (r: PathBuf) ensures r@ == self@, r.abs_clean() == self.abs_clean(), r.comps() == self.comps() { unimplemented!() }
}

// R1: what PathExt::mash accepts as its second argument (a path or a single name)
pub trait MashArg: Sized { spec fn mc(&self) -> Comps; }
impl MashArg for PathBuf { open spec fn mc(&self) -> Comps { self.comps() } }
impl<'a> MashArg for &'a PathBuf { open spec fn mc(&self) -> Comps { (**self).comps() } }
impl MashArg for NameStr { open spec fn mc(&self) -> Comps { seq![Comp::Normal(self@)] } }
impl<'a> MashArg for &'a NameStr { open spec fn mc(&self) -> Comps { seq![Comp::Normal((**self)@)] } }
pub open spec fn same_path(a: PathBuf, b: PathBuf) -> bool { a@ == b@ && a.abs_clean() == b.abs_clean() && a.comps() == b.comps() }
pub open spec fn kind_mode(link: bool, file: bool, dir: bool, mode: Option<u32>) -> u32 {
    let m = match mode { Some(m) => m, None => if link { 0o120777u32 } else if file { 0o100644u32 } else { 0o40755u32 } };
    if link { m | 0o120000u32 } else if file { m | 0o100000u32 } else if dir { m | 0o40000u32 } else { m }
}

impl MemfsEntryOpts {
    pub open spec fn ov(&self) -> EntryV {
        EntryV { path: self.path@, path_ok: self.path.abs_clean(), alt: self.alt.comps(), rel: self.rel.comps(),
                 dir: self.dir, file: self.file, link: self.link, mode: self.mode, uid: self.uid, gid: self.gid,
                 follow: false, cached: false, kids: if self.dir { Some(Set::<Name>::empty()) } else { None } }
    }

//@ item opts_mode file=src/sys/fs/memfs/entry.rs block="impl MemfsEntryOpts" fn=mode props=C01,C11,C10,C12,C09
//@ sig pub(crate) fn mode(mut self, mode: Option<u32>) -> Self
//@ rw R2 + re⟦\bself\b⟧ => ⟦this⟧
//@ rw R9 1 ⟦let mode = mode.unwrap_or(if⟧ => ⟦let mode = unwrap_or_u32(mode, if⟧
//@ ins start
        let mut this = self;
//@ endins
    pub fn mode(self, mode: Option<u32>) -> (r: MemfsEntryOpts)
        ensures r.ov() == (EntryV { mode: kind_mode(self.link, self.file, self.dir, mode), ..self.ov() }),    //@ clause opts.mode.post [C01,C11]
                same_path(r.path, self.path), same_path(r.alt, self.alt), same_path(r.rel, self.rel),
//@ body

//@ item opts_dir file=src/sys/fs/memfs/entry.rs block="impl MemfsEntryOpts" fn=dir props=C01,C10,C12,C09
//@ sig pub(crate) fn dir(mut self) -> Self
//@ rw R2 + re⟦\bself\b⟧ => ⟦this⟧
//@ ins start
        let mut this = self;
//@ endins
    pub fn dir(self) -> (r: MemfsEntryOpts)
        ensures r.ov() == (EntryV { dir: true, file: false, kids: Some(Set::<Name>::empty()),
                                    mode: kind_mode(self.link, false, true, if self.mode == 0 { None } else { Some(self.mode) }), ..self.ov() }),
                same_path(r.path, self.path), same_path(r.alt, self.alt), same_path(r.rel, self.rel),
//@ body

//@ item opts_file file=src/sys/fs/memfs/entry.rs block="impl MemfsEntryOpts" fn=file props=C01,C10,C12,C09
//@ sig pub(crate) fn file(mut self) -> Self
//@ rw R2 + re⟦\bself\b⟧ => ⟦this⟧
//@ ins start
        let mut this = self;
//@ endins
    pub fn file(self) -> (r: MemfsEntryOpts)
        ensures r.ov() == (EntryV { dir: false, file: true, kids: None,
                                    mode: kind_mode(self.link, true, false, if self.mode == 0 { None } else { Some(self.mode) }), ..self.ov() }),
                same_path(r.path, self.path), same_path(r.alt, self.alt), same_path(r.rel, self.rel),
//@ body

//@ item opts_link_to file=src/sys/fs/memfs/entry.rs block="impl MemfsEntryOpts" fn=link_to props=C10,C01,C12,C16
//@ sig pub(crate) fn link_to<T: Into<PathBuf>>(mut self, path: T) -> RvResult<Self>
//@ rw R2 + re⟦\bself\b⟧ => ⟦this⟧
//@ ins start
        let mut this = self;
//@ endins
    pub fn link_to<T: PathArg>(self, path: T) -> (r: RvResult<MemfsEntryOpts>)
        ensures
            (self.path.abs_clean() && self.path@.len() > 0) ==> r is Ok,
            r is Ok ==> ({
                let o = r->Ok_0;
                &&& o.ov().link && o.ov().alt == path.pc()                                  //@ clause link_to.alt_is_target [C10]
                &&& self.path.abs_clean() ==> o.ov().rel == spec_relative(path.pc(), abs_comps(self.path@.drop_last()))   //@ clause link_to.rel_is_relative_to_link_dir [C10]
                &&& o.ov().mode == kind_mode(true, self.file, self.dir, None)
                &&& o.ov().path == self.ov().path && o.ov().path_ok == self.ov().path_ok && o.ov().dir == self.dir && o.ov().file == self.file
                &&& o.ov().uid == self.uid && o.ov().gid == self.gid
                &&& same_path(o.path, self.path)
            }),
//@ body

//@ item opts_build file=src/sys/fs/memfs/entry.rs block="impl MemfsEntryOpts" fn=build props=C01,C03,C10,C12,C09
//@ sig pub(crate) fn build(self) -> MemfsEntry
//@ rw R2 + re⟦\bself\b⟧ => ⟦this⟧
//@ rw R4 * ⟦Some(HashSet::new())⟧ => ⟦Some(NameSet::new())⟧
//@ ins start
        let this = self;
//@ endins
    pub fn build(self) -> (r: MemfsEntry)
        ensures
            (self.dir || self.file || self.link) ==> r.ev() == self.ov(),                       //@ clause build.keeps_opts [C01]
            !(self.dir || self.file || self.link) ==> r.ev() == (EntryV { dir: true, file: false, kids: Some(Set::<Name>::empty()),
                     mode: kind_mode(false, false, true, if self.mode == 0 { None } else { Some(self.mode) }), ..self.ov() }),   //@ clause build.default_is_dir [C01]
            same_path(r.path, self.path),
//@ body
}

pub fn unwrap_or_u32(o: Option<u32>, d: u32) -> (r: u32) ensures r == (match o { Some(v) => v, None => d }) { match o { Some(v) => v, None => d } }

impl MemfsEntry {
//@ item entry_opts file=src/sys/fs/memfs/entry.rs block="impl MemfsEntry" fn=opts props=C01,C12
//@ sig pub(crate) fn opts<T: Into<PathBuf>>(path: T) -> MemfsEntryOpts
    pub fn opts<T: PathArg>(path: T) -> (r: MemfsEntryOpts)
        ensures r.path.comps() == path.pc() && r.path@ == path.pv() && r.path.abs_clean() == path.pok(), !r.dir && !r.file && !r.link && r.mode == 0 && r.uid == 1000 && r.gid == 1000,     //@ clause opts.defaults [C01]
                r.alt.comps() == Seq::<Comp>::empty(), r.rel.comps() == Seq::<Comp>::empty(),
//@ body

//@ item entry_add file=src/sys/fs/memfs/entry.rs block="impl MemfsEntry" fn=add props=C03,C01,C12,C09
//@ sig pub(crate) fn add<T: Into<String>>(&mut self, entry: T) -> RvResult<bool>
//@ rw R4 * ⟦let mut files = HashSet::new();⟧ => ⟦let mut files = NameSet::new();⟧
    pub fn add(&mut self, entry: NameStr) -> (r: RvResult<bool>)
        ensures
            !old(self).dir ==> r is Err && r->Err_0.kind == ErrKind::IsNotDir && *final(self) == *old(self),
            old(self).dir ==> r is Ok
                && final(self).ev() == (EntryV { kids: Some(match old(self).ev().kids { Some(k) => k.insert(entry@), None => Set::<Name>::empty().insert(entry@) }), ..old(self).ev() })
                && (r->Ok_0 == match old(self).ev().kids { Some(k) => !k.contains(entry@), None => true }),     //@ clause entry.add.post [C03,C01]
//@ body

//@ item entry_remove file=src/sys/fs/memfs/entry.rs block="impl MemfsEntry" fn=remove props=C03,C01,C12,C09
//@ sig pub(crate) fn remove<T: Into<String>>(&mut self, entry: T) -> RvResult<()>
    pub fn remove(&mut self, entry: NameStr) -> (r: RvResult<()>)
        ensures
            !old(self).dir ==> r is Err && r->Err_0.kind == ErrKind::IsNotDir && *final(self) == *old(self),
            old(self).dir ==> r is Ok
                && final(self).ev() == (EntryV { kids: match old(self).ev().kids { Some(k) => Some(k.remove(entry@)), None => None }, ..old(self).ev() }),     //@ clause entry.remove.post [C03,C01]
//@ body

//@ item entry_set_mode file=src/sys/fs/memfs/entry.rs block="impl MemfsEntry" fn=set_mode props=C11,C01,C12
//@ sig pub(crate) fn set_mode(&mut self, mode: Option<u32>)
    pub fn set_mode(&mut self, mode: Option<u32>)
        ensures final(self).ev() == (EntryV { mode: kind_mode(old(self).link, old(self).file, old(self).dir, mode), ..old(self).ev() }),     //@ clause entry.set_mode.post [C11,C01]
//@ body

//@ item entry_set_owner file=src/sys/fs/memfs/entry.rs block="impl MemfsEntry" fn=set_owner props=C11,C01,C12
//@ sig pub(crate) fn set_owner(&mut self, uid: Option<u32>, gid: Option<u32>)
    pub fn set_owner(&mut self, uid: Option<u32>, gid: Option<u32>)
        ensures final(self).ev() == (EntryV { uid: match uid { Some(u) => u, None => old(self).uid }, gid: match gid { Some(g) => g, None => old(self).gid }, ..old(self).ev() }),     //@ clause entry.set_owner.post [C11,C01]
//@ body

//@ item entry_path_buf file=src/sys/fs/memfs/entry.rs block="impl Entry for MemfsEntry" fn=path_buf props=C01,C12
    pub fn path_buf(&self) -> (r: PathBuf) ensures r@ == self.path@, r.abs_clean() == self.path.abs_clean(), r.comps() == self.path.comps()
//@ body
//@ item entry_alt_buf file=src/sys/fs/memfs/entry.rs block="impl Entry for MemfsEntry" fn=alt_buf props=C10,C12
    pub fn alt_buf(&self) -> (r: PathBuf) ensures r.comps() == self.alt.comps()
//@ body
//@ item entry_rel file=src/sys/fs/memfs/entry.rs block="impl Entry for MemfsEntry" fn=rel props=C10,C12
    pub fn rel(&self) -> (r: &PathBuf) ensures r.comps() == self.rel.comps()
//@ body
//@ item entry_rel_buf file=src/sys/fs/memfs/entry.rs block="impl Entry for MemfsEntry" fn=rel_buf props=C10,C12
    pub fn rel_buf(&self) -> (r: PathBuf) ensures r.comps() == self.rel.comps()
//@ body
//@ item entry_is_dir file=src/sys/fs/memfs/entry.rs block="impl Entry for MemfsEntry" fn=is_dir props=C01,C12,C09
    pub fn is_dir(&self) -> (r: bool) ensures r == self.dir
//@ body
//@ item entry_is_file file=src/sys/fs/memfs/entry.rs block="impl Entry for MemfsEntry" fn=is_file props=C01,C12,C09
    pub fn is_file(&self) -> (r: bool) ensures r == self.file
//@ body
//@ item entry_is_symlink file=src/sys/fs/memfs/entry.rs block="impl Entry for MemfsEntry" fn=is_symlink props=C01,C10,C12,C09
    pub fn is_symlink(&self) -> (r: bool) ensures r == self.link
//@ body
//@ item entry_mode file=src/sys/fs/memfs/entry.rs block="impl Entry for MemfsEntry" fn=mode props=C01,C11,C12
    pub fn mode(&self) -> (r: u32) ensures r == self.mode
//@ body
}

// =====================================================================================================================
// Reference transitions (written from the trait documentation in src/sys/fs/vfs.rs and the helper docs in memfs/vfs.rs)
pub open spec fn add_kid(e: EntryV, n: Name) -> EntryV { EntryV { kids: Some(match e.kids { Some(k) => k.insert(n), None => Set::<Name>::empty().insert(n) }), ..e } }
pub open spec fn del_kid(e: EntryV, n: Name) -> EntryV { EntryV { kids: match e.kids { Some(k) => Some(k.remove(n)), None => None }, ..e } }
pub open spec fn empty_file() -> FileV { FileV { data: Seq::<u8>::empty(), pos: 0 } }

// _add(entry): "Create the given MemfsEntry if it doesn't already exist"
pub open spec fn spec_add_err(s: St, e: EntryV) -> Option<ErrKind> {
    let p = e.path;
    if p.len() == 0 { None } else {
        let d = p.drop_last();
        if !s.entries.contains_key(d) { Some(ErrKind::DoesNotExist) }                 // parent doesn't exist
        else if !s.entries[d].dir { Some(ErrKind::IsNotDir) }                         // parent exists but is not a directory
        else if s.entries.contains_key(p) {
            let x = s.entries[p];
            if e.file && !x.file { Some(ErrKind::IsNotFile) }                         // exists but is not a file
            else if e.link && !x.link { Some(ErrKind::IsNotSymlink) }
            else if e.dir && !x.dir { Some(ErrKind::IsNotDir) }
            else { None }
        } else { None }
    }
}
pub open spec fn spec_add_st(s: St, e: EntryV) -> St {
    let p = e.path;
    if spec_add_err(s, e) is Some || p.len() == 0 || s.entries.contains_key(p) { s } else {
        let d = p.drop_last();
        St { entries: s.entries.insert(p, e).insert(d, add_kid(s.entries[d], p.last())),
             files: if !e.link && e.file { s.files.insert(p, empty_file()) } else { s.files }, ..s }
    }
}
// a freshly built entry: exactly one of dir/file, an empty child set iff directory, stored under its own absolute path
pub open spec fn fresh_entry(e: EntryV) -> bool { e.path_ok && (e.dir != e.file) && (e.kids is Some <==> e.dir) && (e.kids is Some ==> e.kids->Some_0 == Set::<Name>::empty()) }
// KNOWN FINDING D9 (known_findings.txt id=add-under-symlink-parent): _add accepts a symlink-to-directory as parent
pub open spec fn parent_is_link(s: St, p: PathV) -> bool { p.len() > 0 && s.entries.contains_key(p.drop_last()) && s.entries[p.drop_last()].link }

pub proof fn lemma_add_wf(s: St, e: EntryV)
    requires wf(s), fresh_entry(e), !parent_is_link(s, e.path)
    ensures wf(spec_add_st(s, e))
{
    let p = e.path;
    let s2 = spec_add_st(s, e);
    if !(spec_add_err(s, e) is Some || p.len() == 0 || s.entries.contains_key(p)) {
        let d = p.drop_last();
        assert(d.push(p.last()) =~= p);
        assert(kids_ok(s, d, p.last()));
        assert(entry_ok(s, d));
        assert(file_ok(s, p));
        assert forall|q: PathV| s2.entries.contains_key(q) implies #[trigger] entry_ok(s2, q) by {
            if q == p { } else if q == d { assert(entry_ok(s, d)); } else { assert(entry_ok(s, q)); }
        }
        assert forall|q: PathV, n: Name| #[trigger] kids_ok(s2, q, n) by {
            assert(kids_ok(s, q, n));
            if q == d && n == p.last() { } else if q == p { } else {
                if q.push(n) == p { assert(q.push(n).drop_last() =~= q); }
            }
        }
        assert forall|q: PathV| #[trigger] file_ok(s2, q) by { assert(file_ok(s, q)); }
        assert(entry_ok(s, root()));
    }
}
//@ obligation lemma_add_wf props=C03

//@ item _add file=src/sys/fs/memfs/vfs.rs block="impl Memfs" fn=_add props=C03,C01,C10,C12,C09,C06,C20
//@ sig pub(crate) fn _add(&self, guard: &mut MemfsGuard, entry: MemfsEntry) -> RvResult<PathBuf>
//@ rw R8 * ⟦path == PathBuf::from(Component::RootDir.to_string()?)⟧ => ⟦path.is_root()⟧
//@ ins before ⟦let path = entry.path_buf();⟧
        let ghost s0 = guard.st();
        let ghost ev0 = entry.ev();
//@ endins
//@ ins before#-1 ⟦Ok(path)⟧
        proof { if !parent_is_link(s0, ev0.path) { lemma_add_wf(s0, ev0); } }
//@ endins
//@ ins after ⟦guard.insert_entry(path.clone(), entry);⟧
            proof { assert(dir@.push(path@.last()) =~= path@); assert(kids_ok(s0, dir@, path@.last())); assert(entry_ok(s0, dir@)); }
//@ endins
//@ ins after ⟦return Err(PathError::exists_already(path).into()); } }⟧
            proof {
                assert(guard.st().entries =~= spec_add_st(s0, ev0).entries);
                assert(guard.st().files =~= spec_add_st(s0, ev0).files);
            }
//@ endins
pub fn _add(guard: &mut MemfsGuard, entry: MemfsEntry) -> (r: RvResult<PathBuf>)
    requires wf(old(guard).st()), fresh_entry(entry.ev()),
    ensures
        (r is Err) == (spec_add_err(old(guard).st(), entry.ev()) is Some),                                   //@ clause _add.errors_as_documented [C01]
        r is Err ==> Some(r->Err_0.kind) == spec_add_err(old(guard).st(), entry.ev()),
        r is Err ==> final(guard).st() == old(guard).st(),                                                //@ clause _add.failure_atomic [C01,C03]
        final(guard).st() == spec_add_st(old(guard).st(), entry.ev()),                                    //@ clause _add.transition [C01,C10]
        r is Ok ==> r->Ok_0.abs_clean() && r->Ok_0@ == entry.ev().path,
        wf(final(guard).st()) || parent_is_link(old(guard).st(), entry.ev().path),                        //@ clause _add.wf_preserved [C03]
//@ body

// ---- remove(path): "Removes the given empty directory or file; a directory containing files will trigger an error"
pub open spec fn has_kids(s: St, a: PathV) -> bool { s.entries.contains_key(a) && s.entries[a].kids is Some && !(s.entries[a].kids->Some_0 =~= Set::<Name>::empty()) }
pub open spec fn spec_remove_st(s: St, a: PathV) -> St {
    let d = a.drop_last();
    St { entries: (if s.entries.contains_key(d) { s.entries.insert(d, del_kid(s.entries[d], a.last())) } else { s.entries }).remove(a),
         files: if s.entries.contains_key(a) && s.entries[a].file { s.files.remove(a) } else { s.files }, ..s }
}
pub proof fn lemma_remove_wf(s: St, a: PathV)
    requires wf(s), a.len() > 0, !has_kids(s, a), s.entries.contains_key(a)
    ensures wf(spec_remove_st(s, a))
{
    let d = a.drop_last();
    let s2 = spec_remove_st(s, a);
    assert(d.push(a.last()) =~= a);
    assert(entry_ok(s, a));
    assert forall|q: PathV| s2.entries.contains_key(q) implies #[trigger] entry_ok(s2, q) by {
        assert(entry_ok(s, q));
        if q.len() > 0 {
            let qd = q.drop_last();
            assert(qd.push(q.last()) =~= q);
            if qd == a {
                // a lists q.last(), so a has children: contradiction
                assert(s.entries[a].kids->Some_0.contains(q.last()));
                assert(false);
            }
            if qd == d && q.last() == a.last() { assert(q =~= a); }
        }
    }
    assert forall|q: PathV, n: Name| #[trigger] kids_ok(s2, q, n) by {
        assert(kids_ok(s, q, n));
        if q.push(n) == a { assert(q.push(n).drop_last() =~= q); assert(q.push(n).last() == n); }
    }
    assert forall|q: PathV| #[trigger] file_ok(s2, q) by { assert(file_ok(s, q)); }
    assert(entry_ok(s, root()));
}
//@ obligation lemma_remove_wf props=C03
// removing a path that does not exist changes nothing in a well-formed tree (its parent cannot list it)
pub proof fn lemma_remove_missing(s: St, a: PathV)
    requires wf(s), a.len() > 0, !s.entries.contains_key(a)
    ensures spec_remove_st(s, a).entries =~= s.entries, spec_remove_st(s, a).files =~= s.files
{
    let d = a.drop_last();
    assert(d.push(a.last()) =~= a);
    assert(kids_ok(s, d, a.last()));
    if s.entries.contains_key(d) {
        match s.entries[d].kids { Some(k) => { assert(k.remove(a.last()) =~= k); }, None => {} }
    }
}
//@ obligation lemma_remove_missing props=C01,C03

//@ item remove file=src/sys/fs/memfs/vfs.rs block="impl VirtualFileSystem for Memfs" fn=remove props=C01,C03,C10,C05,C12,C20
//@ sig fn remove<T: AsRef<Path>>(&self, path: T) -> RvResult<()>
//@ ins after ⟦_abs(guard, path)?;⟧
        let ghost s0 = guard.st();
        let ghost a = path@;
//@ endins
//@ ins before re⟦entry\.remove\(path\.\w+\(\)\?\)\?;⟧
            proof { assert(s0.entries.insert(dir@, s0.entries[dir@]) =~= s0.entries); if s0.entries.contains_key(a) { assert(entry_ok(s0, a)); } }
//@ endins
//@ ins after ⟦guard.remove_entry(&path);⟧
        proof {
            assert(dir@.push(a.last()) =~= a);
            assert(entry_ok(s0, root()));
            if s0.entries.contains_key(a) { assert(entry_ok(s0, a)); assert(file_ok(s0, a)); }
            assert(guard.st().entries =~= spec_remove_st(s0, a).entries);
            assert(guard.st().files =~= spec_remove_st(s0, a).files);
            if s0.entries.contains_key(a) { lemma_remove_wf(s0, a); } else { lemma_remove_missing(s0, a); }
        }
//@ endins
pub fn remove(guard: &mut MemfsGuard, path: &PathBuf) -> (r: RvResult<()>)
    requires wf(old(guard).st()),
    ensures
        wf(final(guard).st()),                                                                           //@ clause remove.wf_preserved [C03]
        r is Err ==> final(guard).st() == old(guard).st(),                                               //@ clause remove.failure_atomic [C01,C03]
        spec_abs(old(guard).st().cwd, path.comps()) is None ==> r is Err,
        spec_abs(old(guard).st().cwd, path.comps()) is Some ==> ({
            let s0 = old(guard).st();
            let a = spec_abs(s0.cwd, path.comps())->Some_0;
            // a directory that still has entries is refused
            &&& has_kids(s0, a) ==> r is Err && r->Err_0.kind == ErrKind::DirContainsFiles                         //@ clause remove.nonempty_dir_is_error [C01]
            // an existing entry without children (file, link, empty dir) is removed: the entry, its name in the parent, and its data; nothing else changes
            &&& (s0.entries.contains_key(a) && !has_kids(s0, a) && a.len() > 0) ==> r is Ok && final(guard).st() == spec_remove_st(s0, a)   //@ clause remove.removes_exactly [C01,C10]
            // a path that does not exist: nothing changes
            &&& (!s0.entries.contains_key(a)) ==> final(guard).st() == s0                                          //@ clause remove.missing_is_noop [C01]
            &&& (!s0.entries.contains_key(a) && a.len() > 0 && (!s0.entries.contains_key(a.drop_last()) || s0.entries[a.drop_last()].dir)) ==> r is Ok
        }),
//@ body

//@ item set_cwd file=src/sys/fs/memfs/vfs.rs block="impl VirtualFileSystem for Memfs" fn=set_cwd props=C01,C03,C05,C12
//@ sig fn set_cwd<T: AsRef<Path>>(&self, path: T) -> RvResult<PathBuf>
//@ ins before ⟦guard.set_cwd(path.clone());⟧
        let ghost s0 = guard.st();
//@ endins
//@ ins after ⟦guard.set_cwd(path.clone());⟧
        proof {
            let s1 = guard.st();
            assert forall|q: PathV| s1.entries.contains_key(q) implies #[trigger] entry_ok(s1, q) by { assert(entry_ok(s0, q)); }
            assert forall|q: PathV, n: Name| #[trigger] kids_ok(s1, q, n) by { assert(kids_ok(s0, q, n)); }
            assert forall|q: PathV| #[trigger] file_ok(s1, q) by { assert(file_ok(s0, q)); }
        }
//@ endins
pub fn set_cwd(guard: &mut MemfsGuard, path: &PathBuf) -> (r: RvResult<PathBuf>)
    requires wf(old(guard).st()),
    ensures
        wf(final(guard).st()),                                                                       //@ clause set_cwd.wf_preserved [C03]
        r is Err ==> final(guard).st() == old(guard).st(),                                           //@ clause set_cwd.failure_atomic [C01]
        ({
            let s0 = old(guard).st();
            let a = spec_abs(s0.cwd, path.comps());
            &&& (a is None) ==> r is Err
            &&& (a is Some && !s0.entries.contains_key(a->Some_0)) ==> r is Err && r->Err_0.kind == ErrKind::DoesNotExist       //@ clause set_cwd.missing_is_error [C01]
            &&& (a is Some && s0.entries.contains_key(a->Some_0)) ==> r is Ok && r->Ok_0@ == a->Some_0 && r->Ok_0.abs_clean()
                    && final(guard).st() == (St { cwd: a->Some_0, cwd_ok: true, ..s0 })                                         //@ clause set_cwd.sets_exactly_cwd [C01]
        }),
//@ body

//@ item mkfile file=src/sys/fs/memfs/vfs.rs block="impl VirtualFileSystem for Memfs" fn=mkfile props=C01,C03,C05,C12,C20
//@ sig fn mkfile<T: AsRef<Path>>(&self, path: T) -> RvResult<PathBuf>
pub fn mkfile(guard: &mut MemfsGuard, path: &PathBuf) -> (r: RvResult<PathBuf>)
    requires wf(old(guard).st()),
    ensures
        r is Err ==> final(guard).st() == old(guard).st(),                                           //@ clause mkfile.failure_atomic [C01]
        ({
            let s0 = old(guard).st();
            let a = spec_abs(s0.cwd, path.comps());
            &&& (a is None) ==> r is Err
            &&& (a is Some) ==> ({
                    let e = new_file_entry(a->Some_0);
                    &&& (r is Err) == (spec_add_err(s0, e) is Some)
                    &&& r is Err ==> Some(r->Err_0.kind) == spec_add_err(s0, e)                      //@ clause mkfile.errors_as_documented [C01]
                    &&& final(guard).st() == spec_add_st(s0, e)                                      //@ clause mkfile.transition [C01]
                    &&& r is Ok ==> r->Ok_0@ == a->Some_0 && r->Ok_0.abs_clean()
                    &&& wf(final(guard).st()) || parent_is_link(s0, a->Some_0)                       //@ clause mkfile.wf_preserved [C03]
                })
        }),
//@ body
// the entry mkfile creates: a regular file, mode 0o100644, owner 1000:1000, no link target
pub open spec fn new_file_entry(a: PathV) -> EntryV {
    EntryV { path: a, path_ok: true, alt: Seq::<Comp>::empty(), rel: Seq::<Comp>::empty(), dir: false, file: true, link: false,
             mode: kind_mode(false, true, false, None), uid: 1000, gid: 1000, follow: false, cached: false, kids: None }
}

// =====================================================================================================================
// Queries: every query is a function of the state at abs(path) (C05 part 2) and agrees with the entry stored there (C01)
impl MemfsEntry {
//@ item entry_is_exec file=src/sys/fs/entry.rs block="pub trait Entry: Debug+Send+Sync+'static" fn=is_exec props=C11,C01,C12
    pub fn is_exec(&self) -> (r: bool) ensures r == (self.mode & 0o111 != 0)     //@ clause entry.is_exec_agrees_with_mode [C11]
//@ body
//@ item entry_is_readonly file=src/sys/fs/entry.rs block="pub trait Entry: Debug+Send+Sync+'static" fn=is_readonly props=C11,C01,C12
    pub fn is_readonly(&self) -> (r: bool) ensures r == (self.mode & 0o222 == 0)     //@ clause entry.is_readonly_agrees_with_mode [C11]
//@ body
//@ item entry_is_symlink_dir file=src/sys/fs/entry.rs block="pub trait Entry: Debug+Send+Sync+'static" fn=is_symlink_dir props=C10,C01,C12
    pub fn is_symlink_dir(&self) -> (r: bool) ensures r == (self.link && self.dir)
//@ body
//@ item entry_is_symlink_file file=src/sys/fs/entry.rs block="pub trait Entry: Debug+Send+Sync+'static" fn=is_symlink_file props=C10,C01,C12
    pub fn is_symlink_file(&self) -> (r: bool) ensures r == (self.link && self.file)
//@ body
}

pub open spec fn at(s: St, arg: Comps) -> Option<EntryV> {
    match spec_abs(s.cwd, arg) { Some(a) => if s.entries.contains_key(a) { Some(s.entries[a]) } else { None }, None => None }
}

//@ item exists file=src/sys/fs/memfs/vfs.rs block="impl VirtualFileSystem for Memfs" fn=exists props=C01,C05,C12,C20
pub fn exists(guard: &MemfsGuard, path: &PathBuf) -> (r: bool)
    requires guard.st().cwd_ok
    ensures r == (at(guard.st(), path.comps()) is Some)     //@ clause exists.post [C01,C05]
//@ body

//@ item _is_dir file=src/sys/fs/memfs/vfs.rs block="impl Memfs" fn=_is_dir props=C01,C05,C12,C09
pub fn _is_dir(guard: &MemfsGuard, path: &PathBuf) -> (r: bool)
    requires guard.st().cwd_ok
    ensures r == (at(guard.st(), path.comps()) is Some && at(guard.st(), path.comps())->Some_0.dir)
//@ body

//@ item is_dir file=src/sys/fs/memfs/vfs.rs block="impl VirtualFileSystem for Memfs" fn=is_dir props=C01,C10,C05,C12,C20
//@ sig fn is_dir<T: AsRef<Path>>(&self, path: T) -> bool
pub fn is_dir(guard: &MemfsGuard, path: &PathBuf) -> (r: bool)
    requires guard.st().cwd_ok
    ensures r == (at(guard.st(), path.comps()) is Some && at(guard.st(), path.comps())->Some_0.dir && !at(guard.st(), path.comps())->Some_0.link)     //@ clause is_dir.link_exclusion [C10,C01]
//@ body

//@ item is_file file=src/sys/fs/memfs/vfs.rs block="impl VirtualFileSystem for Memfs" fn=is_file props=C01,C10,C05,C12,C20
//@ sig fn is_file<T: AsRef<Path>>(&self, path: T) -> bool
pub fn is_file(guard: &MemfsGuard, path: &PathBuf) -> (r: bool)
    requires guard.st().cwd_ok
    ensures r == (at(guard.st(), path.comps()) is Some && at(guard.st(), path.comps())->Some_0.file && !at(guard.st(), path.comps())->Some_0.link)     //@ clause is_file.link_exclusion [C10,C01]
//@ body

//@ item is_exec file=src/sys/fs/memfs/vfs.rs block="impl VirtualFileSystem for Memfs" fn=is_exec props=C11,C01,C05,C12,C20
pub fn is_exec(guard: &MemfsGuard, path: &PathBuf) -> (r: bool)
    requires guard.st().cwd_ok
    ensures r == (at(guard.st(), path.comps()) is Some && (at(guard.st(), path.comps())->Some_0.mode & 0o111 != 0))     //@ clause is_exec.post
//@ body

//@ item is_readonly file=src/sys/fs/memfs/vfs.rs block="impl VirtualFileSystem for Memfs" fn=is_readonly props=C11,C01,C05,C12,C20
pub fn is_readonly(guard: &MemfsGuard, path: &PathBuf) -> (r: bool)
    requires guard.st().cwd_ok
    ensures r == (at(guard.st(), path.comps()) is Some && (at(guard.st(), path.comps())->Some_0.mode & 0o222 == 0))     //@ clause is_readonly.post
//@ body

//@ item is_symlink file=src/sys/fs/memfs/vfs.rs block="impl VirtualFileSystem for Memfs" fn=is_symlink props=C10,C01,C05,C12,C20
pub fn is_symlink(guard: &MemfsGuard, path: &PathBuf) -> (r: bool)
    requires guard.st().cwd_ok
    ensures r == (at(guard.st(), path.comps()) is Some && at(guard.st(), path.comps())->Some_0.link)     //@ clause is_symlink.post
//@ body

//@ item is_symlink_dir file=src/sys/fs/memfs/vfs.rs block="impl VirtualFileSystem for Memfs" fn=is_symlink_dir props=C10,C01,C05,C12
pub fn is_symlink_dir(guard: &MemfsGuard, path: &PathBuf) -> (r: bool)
    requires guard.st().cwd_ok
    ensures r == (at(guard.st(), path.comps()) is Some && at(guard.st(), path.comps())->Some_0.link && at(guard.st(), path.comps())->Some_0.dir)     //@ clause is_symlink_dir.post
//@ body

//@ item is_symlink_file file=src/sys/fs/memfs/vfs.rs block="impl VirtualFileSystem for Memfs" fn=is_symlink_file props=C10,C01,C05,C12
pub fn is_symlink_file(guard: &MemfsGuard, path: &PathBuf) -> (r: bool)
    requires guard.st().cwd_ok
    ensures r == (at(guard.st(), path.comps()) is Some && at(guard.st(), path.comps())->Some_0.link && at(guard.st(), path.comps())->Some_0.file)     //@ clause is_symlink_file.post
//@ body

//@ item mode file=src/sys/fs/memfs/vfs.rs block="impl VirtualFileSystem for Memfs" fn=mode props=C11,C01,C05,C12,C20
pub fn mode(guard: &MemfsGuard, path: &PathBuf) -> (r: RvResult<u32>)
    requires guard.st().cwd_ok
    ensures (r is Ok) == (at(guard.st(), path.comps()) is Some),
            r is Ok ==> r->Ok_0 == at(guard.st(), path.comps())->Some_0.mode,     //@ clause mode.post
            (r is Err && spec_abs(guard.st().cwd, path.comps()) is Some) ==> r->Err_0.kind == ErrKind::DoesNotExist,
//@ body

//@ item uid file=src/sys/fs/memfs/vfs.rs block="impl VirtualFileSystem for Memfs" fn=uid props=C11,C01,C05,C12
pub fn uid(guard: &MemfsGuard, path: &PathBuf) -> (r: RvResult<u32>)
    requires guard.st().cwd_ok
    ensures (r is Ok) == (at(guard.st(), path.comps()) is Some),
            r is Ok ==> r->Ok_0 == at(guard.st(), path.comps())->Some_0.uid,     //@ clause uid.post
            (r is Err && spec_abs(guard.st().cwd, path.comps()) is Some) ==> r->Err_0.kind == ErrKind::DoesNotExist,
//@ body

//@ item gid file=src/sys/fs/memfs/vfs.rs block="impl VirtualFileSystem for Memfs" fn=gid props=C11,C01,C05,C12
pub fn gid(guard: &MemfsGuard, path: &PathBuf) -> (r: RvResult<u32>)
    requires guard.st().cwd_ok
    ensures (r is Ok) == (at(guard.st(), path.comps()) is Some),
            r is Ok ==> r->Ok_0 == at(guard.st(), path.comps())->Some_0.gid,     //@ clause gid.post
            (r is Err && spec_abs(guard.st().cwd, path.comps()) is Some) ==> r->Err_0.kind == ErrKind::DoesNotExist,
//@ body

//@ item owner file=src/sys/fs/memfs/vfs.rs block="impl VirtualFileSystem for Memfs" fn=owner props=C11,C01,C05,C12
pub fn owner(guard: &MemfsGuard, path: &PathBuf) -> (r: RvResult<(u32, u32)>)
    requires guard.st().cwd_ok
    ensures (r is Ok) == (at(guard.st(), path.comps()) is Some),
            r is Ok ==> r->Ok_0 == (at(guard.st(), path.comps())->Some_0.uid, at(guard.st(), path.comps())->Some_0.gid),     //@ clause owner.post
            (r is Err && spec_abs(guard.st().cwd, path.comps()) is Some) ==> r->Err_0.kind == ErrKind::DoesNotExist,
//@ body

//@ item readlink file=src/sys/fs/memfs/vfs.rs block="impl VirtualFileSystem for Memfs" fn=readlink props=C10,C01,C05,C12,C16,C20
pub fn readlink(guard: &MemfsGuard, link: &PathBuf) -> (r: RvResult<PathBuf>)
    requires guard.st().cwd_ok
    ensures (r is Ok) == (at(guard.st(), link.comps()) is Some && at(guard.st(), link.comps())->Some_0.link),
            r is Ok ==> r->Ok_0.comps() == at(guard.st(), link.comps())->Some_0.rel,     //@ clause readlink.returns_recorded_target [C10]
            (at(guard.st(), link.comps()) is Some && !at(guard.st(), link.comps())->Some_0.link) ==> r is Err && r->Err_0.kind == ErrKind::IsNotSymlink,     //@ clause readlink.non_link_fails [C10]
            (spec_abs(guard.st().cwd, link.comps()) is Some && at(guard.st(), link.comps()) is None) ==> r is Err && r->Err_0.kind == ErrKind::DoesNotExist,
//@ body

//@ item readlink_abs file=src/sys/fs/memfs/vfs.rs block="impl VirtualFileSystem for Memfs" fn=readlink_abs props=C10,C01,C05,C12,C16,C20
pub fn readlink_abs(guard: &MemfsGuard, link: &PathBuf) -> (r: RvResult<PathBuf>)
    requires guard.st().cwd_ok
    ensures (r is Ok) == (at(guard.st(), link.comps()) is Some && at(guard.st(), link.comps())->Some_0.link),
            r is Ok ==> r->Ok_0.comps() == at(guard.st(), link.comps())->Some_0.alt,     //@ clause readlink_abs.returns_recorded_target [C10]
            (at(guard.st(), link.comps()) is Some && !at(guard.st(), link.comps())->Some_0.link) ==> r is Err && r->Err_0.kind == ErrKind::IsNotSymlink,     //@ clause readlink_abs.non_link_fails [C10]
            (spec_abs(guard.st().cwd, link.comps()) is Some && at(guard.st(), link.comps()) is None) ==> r is Err && r->Err_0.kind == ErrKind::DoesNotExist,
//@ body

// =====================================================================================================================
// symlink(link, target): "Creates a new symbolic link" -- the link entry records the target faithfully (C10)
pub uninterp spec fn comps_absolute(c: Comps) -> bool;     // Path::is_absolute on a spelling (ASSUMED[pathbuf-ops])
impl PathBuf {
    #[verifier::external_body]
    pub fn is_absolute2(&self) -> (b: bool) ensures b == comps_absolute(self.comps()), self.abs_clean() ==> b { unimplemented!() }
}
// the spelling symlink resolves the target through: absolute targets as given, relative ones joined onto the link's directory
pub open spec fn target_arg(a: PathV, target: Comps) -> Comps {
    if comps_absolute(target) { target } else { PathBuf::spec_mash(abs_comps(a.drop_last()), target) }
}
pub open spec fn link_entry(a: PathV, b: PathV, to_dir: bool) -> EntryV {
    EntryV { path: a, path_ok: true, alt: abs_comps(b), rel: spec_relative(abs_comps(b), abs_comps(a.drop_last())),
             dir: to_dir, file: !to_dir, link: true, mode: kind_mode(true, !to_dir, to_dir, None), uid: 1000, gid: 1000,
             follow: false, cached: false, kids: if to_dir { Some(Set::<Name>::empty()) } else { None } }
}

//@ item _symlink file=src/sys/fs/memfs/vfs.rs block="impl Memfs" fn=_symlink props=C10,C01,C03,C05,C12,C16,C20
//@ ins after ⟦_abs(guard, link)?;⟧
        let ghost s0 = guard.st();
        proof { link.ax_abs(); }
//@ endins
//@ ins before ⟦let mut entry_opts =⟧
        proof { target.ax_abs(); }
//@ endins
pub fn _symlink(guard: &mut MemfsGuard, link: &PathBuf, target: &PathBuf) -> (r: RvResult<PathBuf>)
    requires wf(old(guard).st()),
    ensures
        r is Err ==> final(guard).st() == old(guard).st(),                                                 //@ clause symlink.failure_atomic [C01]
        ({
            let s0 = old(guard).st();
            let a = spec_abs(s0.cwd, link.comps());
            &&& (a is None) ==> r is Err
            &&& (a is Some && a->Some_0.len() > 0) ==> ({
                    let b = spec_abs(s0.cwd, target_arg(a->Some_0, target.comps()));
                    &&& (b is None) ==> r is Err
                    &&& (b is Some) ==> ({
                        let to_dir = s0.entries.contains_key(b->Some_0) && s0.entries[b->Some_0].dir;
                        let e = link_entry(a->Some_0, b->Some_0, to_dir);
                        &&& (r is Err) == (spec_add_err(s0, e) is Some)
                        &&& r is Err ==> Some(r->Err_0.kind) == spec_add_err(s0, e)
                        // the new entry records abs(target) as alt, the path relative to the link's directory as rel, the target's kind at creation, and no data
                        &&& final(guard).st() == spec_add_st(s0, e)                                           //@ clause symlink.records_target_faithfully [C10,C01]
                        &&& r is Ok ==> r->Ok_0@ == a->Some_0 && r->Ok_0.abs_clean()
                        &&& wf(final(guard).st()) || parent_is_link(s0, a->Some_0)                            //@ clause symlink.wf_preserved [C03]
                    })
                })
        }),
//@ body

//@ item symlink file=src/sys/fs/memfs/vfs.rs block="impl VirtualFileSystem for Memfs" fn=symlink props=C10,C01,C03,C05,C12,C16,C20
pub fn symlink(guard: &mut MemfsGuard, link: &PathBuf, target: &PathBuf) -> (r: RvResult<PathBuf>)
    requires wf(old(guard).st()),
    ensures
        r is Err ==> final(guard).st() == old(guard).st(),
        ({
            let s0 = old(guard).st();
            let a = spec_abs(s0.cwd, link.comps());
            (a is Some && a->Some_0.len() > 0 && spec_abs(s0.cwd, target_arg(a->Some_0, target.comps())) is Some) ==> ({
                let b = spec_abs(s0.cwd, target_arg(a->Some_0, target.comps()))->Some_0;
                let e = link_entry(a->Some_0, b, s0.entries.contains_key(b) && s0.entries[b].dir);
                &&& (r is Err) == (spec_add_err(s0, e) is Some)
                &&& final(guard).st() == spec_add_st(s0, e)                    //@ clause symlink.transition [C10,C01]
                &&& r is Ok ==> r->Ok_0@ == a->Some_0
            })
        }),
//@ body

// =====================================================================================================================
// File contents (C06) and handles (C07): _clone_file / read / write / append and the compositions write_all / append_all
// R4: Option<Memfs>/Option<PathBuf> clones inside `impl Clone for MemfsFile` (closure `.map(|x| x.clone())` is outside Verus)
#[verifier::external_body]
pub fn opt_clone_memfs(o: &Option<Memfs>) -> (r: Option<Memfs>) ensures r is Some == o is Some { unimplemented!() }
#[verifier::external_body]
pub fn opt_clone_path(o: &Option<PathBuf>) -> (r: Option<PathBuf>)
    ensures r is Some == o is Some, o is Some ==> same_path(r->Some_0, o->Some_0) { unimplemented!() }
// ASSUMED[seek-contract]: MemfsFile::seek(End(0)) sets pos to data.len() (proved in unit memfs_file)
impl MemfsFile {
    // ASSUMED[len-contract]: MemfsFile::len is the number of bytes from the position to the end (proved in unit memfs_file)
    #[verifier::external_body]
    pub fn len(&self) -> (r: u64)
        ensures r as int == (if self.pos as int <= self.data@.len() { self.data@.len() - self.pos as int } else { 0 })
    { unimplemented!() }
    #[verifier::external_body]
    pub fn seek_end0(&mut self) -> (r: RvResult<u64>)
        ensures r is Ok, final(self).pos as int == old(self).data@.len(), final(self).data@ == old(self).data@,
                final(self).path == old(self).path, final(self).fs == old(self).fs
    { unimplemented!() }

//@ item file_clone file=src/sys/fs/memfs/file.rs block="impl Clone for MemfsFile" fn=clone props=C06,C07,C12
//@ rw R4 * ⟦self.fs.as_ref().map(|x| x.clone())⟧ => ⟦opt_clone_memfs(&self.fs)⟧
//@ rw R4 * ⟦self.path.clone()⟧ => ⟦opt_clone_path(&self.path)⟧
//@ rw R9 1 ⟦Self {⟧ => ⟦MemfsFile {⟧
    pub fn clone(&self) -> (r: MemfsFile)
        ensures r.fv() == self.fv(), r.path is Some == self.path is Some, r.fs is Some == self.fs is Some,     //@ clause file.clone.copies_bytes_no_alias [C06]
//@ body
}
// NameSet / PathBuf clones inside `impl Clone for MemfsEntry`
#[verifier::external_body]
pub fn opt_clone_names(o: &Option<NameSet>) -> (r: Option<NameSet>) ensures kids_of(r) == kids_of(*o) { unimplemented!() }
impl MemfsEntry {
//@ item entry_clone file=src/sys/fs/memfs/entry.rs block="impl Clone for MemfsEntry" fn=clone props=C01,C12,C09
//@ rw R4 * ⟦self.files.clone()⟧ => ⟦opt_clone_names(&self.files)⟧
//@ rw R9 1 ⟦Self {⟧ => ⟦MemfsEntry {⟧
    pub fn clone(&self) -> (r: MemfsEntry) ensures r.ev() == self.ev()
//@ body
}

//@ item _clone_entry file=src/sys/fs/memfs/vfs.rs block="impl Memfs" fn=_clone_entry props=C01,C05,C12
pub fn _clone_entry(guard: &MemfsGuard, path: &PathBuf) -> (r: RvResult<MemfsEntry>)
    requires guard.st().cwd_ok
    ensures (r is Ok) == (at(guard.st(), path.comps()) is Some),
            r is Ok ==> r->Ok_0.ev() == at(guard.st(), path.comps())->Some_0,     //@ clause entry.returns_stored_entry [C01]
            (r is Err && spec_abs(guard.st().cwd, path.comps()) is Some) ==> r->Err_0.kind == ErrKind::DoesNotExist,
//@ body

//@ item _clone_file file=src/sys/fs/memfs/vfs.rs block="impl Memfs" fn=_clone_file props=C06,C07,C01,C05,C12
pub fn _clone_file(guard: &MemfsGuard, path: &PathBuf) -> (r: RvResult<MemfsFile>)
    requires guard.st().cwd_ok
    ensures ({
        let s = guard.st();
        let a = spec_abs(s.cwd, path.comps());
        &&& a is None ==> r is Err
        &&& a is Some ==> ({
            let p = a->Some_0;
            &&& (s.entries.contains_key(p) && !s.entries[p].file) ==> r is Err && r->Err_0.kind == ErrKind::IsNotFile      //@ clause read.not_a_file [C01]
            &&& (!(s.entries.contains_key(p) && !s.entries[p].file) && !s.files.contains_key(p)) ==> r is Err && r->Err_0.kind == ErrKind::DoesNotExist
            &&& (!(s.entries.contains_key(p) && !s.entries[p].file) && s.files.contains_key(p)) ==> r is Ok && r->Ok_0.fv() == s.files[p]     //@ clause read.returns_exact_content [C06,C07]
        })
    }),
//@ body

//@ item read file=src/sys/fs/memfs/vfs.rs block="impl VirtualFileSystem for Memfs" fn=read props=C06,C07,C01,C05,C12
//@ rw R6 * ⟦Ok(Box::new(self._clone_file(&self.read_guard(), &path)?))⟧ => ⟦Ok(_clone_file(guard, &path)?)⟧
pub fn read(guard: &MemfsGuard, path: &PathBuf) -> (r: RvResult<MemfsFile>)
    requires guard.st().cwd_ok, wf(guard.st()),
    ensures ({
        let s = guard.st();
        let a = spec_abs(s.cwd, path.comps());
        // the handle is a private copy of exactly the file's bytes, positioned at 0 (so Read/Seek behave like a Cursor over them, unit memfs_file)
        &&& (a is Some && s.files.contains_key(a->Some_0)) ==> r is Ok && r->Ok_0.data@ == s.files[a->Some_0].data && r->Ok_0.pos == 0     //@ clause read.handle_is_cursor_over_content [C06,C07]
        &&& (a is Some && !s.files.contains_key(a->Some_0)) ==> r is Err
        &&& a is None ==> r is Err
    }),
//@ ins start
        proof { match spec_abs(guard.st().cwd, path.comps()) { Some(p) => { assert(file_ok(guard.st(), p)); }, None => {} } }
//@ endins
//@ body

//@ item write file=src/sys/fs/memfs/vfs.rs block="impl VirtualFileSystem for Memfs" fn=write props=C06,C07,C01,C03,C05,C12
//@ rw R6 * ⟦Ok(Box::new(MemfsFile {⟧ => ⟦Ok((MemfsFile {⟧
//@ rw R9 1 ⟦data: vec![],⟧ => ⟦data: Vec::new(),⟧
//@ rw R11 1 ⟦fs: Some(self.clone()),⟧ => ⟦fs: Some(fs.clone()),⟧
pub fn write(fs: &Memfs, guard: &mut MemfsGuard, path: &PathBuf) -> (r: RvResult<MemfsFile>)
    requires wf(old(guard).st()),
    ensures
        r is Err ==> final(guard).st() == old(guard).st(),
        ({
            let s0 = old(guard).st();
            let a = spec_abs(s0.cwd, path.comps());
            &&& a is None ==> r is Err
            &&& a is Some ==> ({
                let e = new_file_entry(a->Some_0);
                &&& (r is Err) == (spec_add_err(s0, e) is Some)
                &&& final(guard).st() == spec_add_st(s0, e)                                            //@ clause write.creates_file_if_missing [C01,C03]
                // the handle starts empty at position 0 and is bound to abs(path): dropping it replaces the whole content (truncate)
                &&& r is Ok ==> r->Ok_0.data@ == Seq::<u8>::empty() && r->Ok_0.pos == 0 && r->Ok_0.fs is Some
                        && r->Ok_0.path is Some && r->Ok_0.path->Some_0@ == a->Some_0 && r->Ok_0.path->Some_0.abs_clean()    //@ clause write.handle_truncates [C06,C07,C03]
                &&& wf(final(guard).st()) || parent_is_link(s0, a->Some_0)
            })
        }),
//@ body

//@ item append file=src/sys/fs/memfs/vfs.rs block="impl VirtualFileSystem for Memfs" fn=append props=C06,C07,C01,C03,C05,C12
//@ rw R6 * ⟦Ok(Box::new(clone))⟧ => ⟦Ok(clone)⟧
//@ rw R11 1 ⟦clone.fs = Some(self.clone());⟧ => ⟦clone.fs = Some(fs.clone());⟧
//@ rw R8 * ⟦clone.seek(SeekFrom::End(0))?;⟧ => ⟦clone.seek_end0()?;⟧
//@ ins after ⟦let path = _abs(guard, path)?;⟧
        let ghost s0 = guard.st();
        proof { assert(file_ok(s0, path@)); }
//@ endins
pub fn append(fs: &Memfs, guard: &mut MemfsGuard, path: &PathBuf) -> (r: RvResult<MemfsFile>)
    requires wf(old(guard).st()),
    ensures
        r is Err ==> final(guard).st() == old(guard).st(),                     //@ clause append.failure_atomic [C01]
        ({
            let s0 = old(guard).st();
            let a = spec_abs(s0.cwd, path.comps());
            &&& a is None ==> r is Err
            &&& a is Some ==> ({
                let e = new_file_entry(a->Some_0);
                &&& spec_add_err(s0, e) is Some ==> r is Err
                &&& final(guard).st() == spec_add_st(s0, e)
                // the handle holds the existing content as a prefix and is positioned at its end: writes extend, never alter the prefix
                &&& (r is Ok && s0.files.contains_key(a->Some_0)) ==> r->Ok_0.data@ == s0.files[a->Some_0].data         //@ clause append.keeps_existing_prefix [C06]
                &&& (r is Ok && !s0.files.contains_key(a->Some_0)) ==> r->Ok_0.data@ == Seq::<u8>::empty()
                &&& r is Ok ==> final(guard).st().files.contains_key(a->Some_0) && r->Ok_0.data@ == final(guard).st().files[a->Some_0].data
                &&& wf(final(guard).st()) || parent_is_link(s0, a->Some_0)
                &&& r is Ok ==> r->Ok_0.pos as int == r->Ok_0.data@.len() && r->Ok_0.fs is Some
                        && r->Ok_0.path is Some && r->Ok_0.path->Some_0@ == a->Some_0 && r->Ok_0.path->Some_0.abs_clean()    //@ clause append.handle_positioned_at_end [C06,C07]
            })
        }),
//@ body

// ---- MemfsFile::{sync, write, flush, drop}: the same real bodies and contracts as in unit memfs_file, needed here as callees
// R7: `&buf[..n]` on a byte slice: panics unless n <= len
#[verifier::external_body]
pub fn slice_to_u8(b: &[u8], n: usize) -> (r: &[u8]) requires n <= b@.len() ensures r@ == b@.take(n as int) { unimplemented!() }
// R4: `self.data.write(buf)` is `impl Write for Vec<u8>`.  ASSUMED[io-vec-write]: appends all of buf, returns Ok(buf.len())
#[verifier::external_body]
pub fn vec_write(v: &mut Vec<u8>, buf: &[u8]) -> (r: io::Result<usize>)
    ensures final(v)@ == old(v)@ + buf@, r is Ok, r->Ok_0 == buf@.len()
{ unimplemented!() }
// R4: `Vec::clone_from` (Verus does not support it).  ASSUMED[vec-clone-from]: a.clone_from(b) makes a equal to b
#[verifier::external_body]
pub fn vec_clone_from(a: &mut Vec<u8>, b: &Vec<u8>) ensures final(a)@ == b@ { unimplemented!() }


impl MemfsFile {
    pub open spec fn bound_ok(&self) -> bool { self.path is Some ==> self.path->Some_0.abs_clean() }
//@ item h_sync file=src/sys/fs/memfs/file.rs block="impl MemfsFile" fn=sync props=C07,C06,C03,C12,C01,C20
//@ sig pub(crate) fn sync(&mut self) -> io::Result<()>
//@ rw R11 1 ⟦let mut guard = fs.write_guard();⟧ => ⟦⟧
//@ rw R4 * ⟦f.data.clone_from(&self.data);⟧ => ⟦vec_clone_from(&mut f.data, &self.data);⟧
//@ rw R5 * re⟦format!\((?:[^()]|\([^()]*\))*\)⟧ => ⟦io::Msg{}⟧
    pub fn sync(&mut self, guard: &mut MemfsGuard) -> (r: io::Result<()>)
        requires old(self).bound_ok(),
        ensures
            *final(self) == *old(self),   //@ clause sync.handle_unchanged [C07,C01]
            // unbound handle: nothing happens
            (old(self).fs is None || old(self).path is None) ==> r is Ok && final(guard).st() == old(guard).st(),
            (old(self).fs is Some && old(self).path is Some) ==> ({
                let p = old(self).path->Some_0@;
                let s0 = old(guard).st();
                let s1 = final(guard).st();
                // target entry vanished: NotFound, nothing changed
                &&& !s0.entries.contains_key(p) ==> r is Err && r->Err_0.kind == io::ErrorKind::NotFound && s1 == s0   //@ clause sync.notfound [C07,C01]
                // otherwise Ok; the file content becomes exactly the handle's data; every other file, every entry and the cwd are unchanged
                &&& s0.entries.contains_key(p) ==> r is Ok
                &&& (s0.entries.contains_key(p) && s0.files.contains_key(p)) ==>
                        s1 == (St { files: s0.files.insert(p, FileV { data: old(self).data@, pos: s0.files[p].pos }), ..s0 })   //@ clause sync.persist_and_frame [C07,C06,C03,C01]
                &&& (s0.entries.contains_key(p) && !s0.files.contains_key(p)) ==> s1 == s0
            }),
//@ body

//@ item h_write file=src/sys/fs/memfs/file.rs block="impl io::Write for MemfsFile" fn=write props=C07,C06,C12,C01
//@ sig fn write(&mut self, buf: &[u8]) -> io::Result<usize>
//@ rw R4 * re⟦self\.data\.write\(([^()]*(?:\([^()]*\))?[^()]*)\)⟧ => ⟦vec_write(&mut self.data, \1)⟧
//@ rw R7 * re⟦&buf\[\.\.([^\]]+)\]⟧ => ⟦slice_to_u8(buf, \1)⟧
    pub fn write(&mut self, buf: &[u8]) -> (r: io::Result<usize>)
        ensures r is Ok, r->Ok_0 == buf@.len(),
                final(self).data@ == old(self).data@ + buf@,     //@ clause write.appends_all [C07,C06,C01]
                final(self).pos == old(self).pos && final(self).path == old(self).path && final(self).fs == old(self).fs,
//@ body

//@ item h_flush file=src/sys/fs/memfs/file.rs block="impl io::Write for MemfsFile" fn=flush props=C07,C06,C12,C01
//@ sig fn flush(&mut self) -> io::Result<()>
//@ rw R11 1 ⟦self.sync()⟧ => ⟦self.sync(guard)⟧
    pub fn flush(&mut self, guard: &mut MemfsGuard) -> (r: io::Result<()>)
        requires old(self).bound_ok(),
        ensures
            *final(self) == *old(self),
            (old(self).fs is Some && old(self).path is Some && old(guard).st().entries.contains_key(old(self).path->Some_0@)
               && old(guard).st().files.contains_key(old(self).path->Some_0@)) ==>
                r is Ok && final(guard).st().files[old(self).path->Some_0@].data == old(self).data@,    //@ clause flush.makes_data_visible [C07,C06,C01]
            forall|q: PathV| q != old(self).path->Some_0@ ==> (final(guard).st().files.contains_key(q) == old(guard).st().files.contains_key(q)
               && (old(guard).st().files.contains_key(q) ==> final(guard).st().files[q] == old(guard).st().files[q])),   //@ clause flush.other_files_untouched [C06,C01]
            final(guard).st().entries == old(guard).st().entries,
//@ body

//@ item h_drop file=src/sys/fs/memfs/file.rs block="impl Drop for MemfsFile" fn=drop props=C07,C06,C12,C01
//@ sig fn drop(&mut self)
//@ rw R11 1 ⟦self.sync()⟧ => ⟦self.sync(guard)⟧
    pub fn drop(&mut self, guard: &mut MemfsGuard)
        requires old(self).bound_ok(),
        ensures
            (old(self).fs is Some && old(self).path is Some && old(guard).st().entries.contains_key(old(self).path->Some_0@)
               && old(guard).st().files.contains_key(old(self).path->Some_0@)) ==>
                final(guard).st() == (St { files: old(guard).st().files.insert(old(self).path->Some_0@, FileV { data: old(self).data@, pos: old(guard).st().files[old(self).path->Some_0@].pos }), ..old(guard).st() }),  //@ clause drop.persists_exactly_the_bytes_written [C07,C06,C01]
            !(old(self).fs is Some && old(self).path is Some && old(guard).st().entries.contains_key(old(self).path->Some_0@)
               && old(guard).st().files.contains_key(old(self).path->Some_0@)) ==> final(guard).st() == old(guard).st(),
            final(self).fs is None && final(self).path is None,
//@ body
}

// ASSUMED[io-traits]: Write::write_all(buf) calls write until everything is written; MemfsFile::write takes all of buf at once
pub fn file_write_all(f: &mut MemfsFile, buf: &[u8]) -> (r: RvResult<()>)
    ensures r is Ok, final(f).data@ == old(f).data@ + buf@, final(f).pos == old(f).pos, final(f).path == old(f).path, final(f).fs == old(f).fs
{
    match f.write(buf) { Ok(_) => Ok(()), Err(_) => Err(RvError { kind: ErrKind::Io }) }
}
// R5: `f.flush()?` converts io::Error into RvError (kind Io)
pub fn flush_rv(f: &mut MemfsFile, guard: &mut MemfsGuard) -> (r: RvResult<()>)
    requires old(f).bound_ok(),
    ensures *final(f) == *old(f),
        (old(f).fs is Some && old(f).path is Some && old(guard).st().entries.contains_key(old(f).path->Some_0@) && old(guard).st().files.contains_key(old(f).path->Some_0@)) ==>
            r is Ok && final(guard).st() == (St { files: old(guard).st().files.insert(old(f).path->Some_0@, FileV { data: old(f).data@, pos: old(guard).st().files[old(f).path->Some_0@].pos }), ..old(guard).st() }),
        (old(f).fs is Some && old(f).path is Some && old(guard).st().entries.contains_key(old(f).path->Some_0@) && !old(guard).st().files.contains_key(old(f).path->Some_0@)) ==>
            r is Ok && final(guard).st() == old(guard).st(),
        (old(f).fs is Some && old(f).path is Some && !old(guard).st().entries.contains_key(old(f).path->Some_0@)) ==> r is Err && final(guard).st() == old(guard).st(),
{
    match f.sync(guard) { Ok(_) => Ok(()), Err(_) => Err(RvError { kind: ErrKind::Io }) }
}

pub proof fn lemma_put_wf(s: St, a: PathV, data: Seq<u8>)
    requires wf(s), s.files.contains_key(a)
    ensures wf(put(s, a, data))
{
    let s2 = put(s, a, data);
    assert forall|q: PathV| s2.entries.contains_key(q) implies #[trigger] entry_ok(s2, q) by { assert(entry_ok(s, q)); }
    assert forall|q: PathV, n: Name| #[trigger] kids_ok(s2, q, n) by { assert(kids_ok(s, q, n)); }
    assert forall|q: PathV| #[trigger] file_ok(s2, q) by { assert(file_ok(s, q)); }
}
//@ obligation lemma_put_wf props=C03
pub open spec fn put(s: St, a: PathV, data: Seq<u8>) -> St { St { files: s.files.insert(a, FileV { data: data, pos: s.files[a].pos }), ..s } }

//@ item write_all file=src/sys/fs/memfs/vfs.rs block="impl VirtualFileSystem for Memfs" fn=write_all props=C06,C01,C03,C05,C12,C20
//@ sig fn write_all<T: AsRef<Path>, U: AsRef<[u8]>>(&self, path: T, data: U) -> RvResult<()>
//@ rw R12 1 ⟦let mut f = self.write(path)?;⟧ => ⟦let mut f = write(fs, guard, path)?;⟧
//@ rw R12 1 ⟦f.write_all(data.as_ref())?;⟧ => ⟦file_write_all(&mut f, data)?;⟧
//@ rw R12 1 re⟦Ok\(\(\)\)\s*\}\s*$⟧ => ⟦f.drop(guard); Ok(()) }⟧
//@ ins after ⟦write(fs, guard, path)?;⟧
        let ghost s1 = guard.st();
        proof { assert(file_ok(s0, f.path->Some_0@)); if wf(s1) { assert(file_ok(s1, f.path->Some_0@)); if s1.files.contains_key(f.path->Some_0@) { lemma_put_wf(s1, f.path->Some_0@, data@); } } }
//@ endins
//@ ins start
        let ghost s0 = guard.st();
//@ endins
pub fn write_all(fs: &Memfs, guard: &mut MemfsGuard, path: &PathBuf, data: &[u8]) -> (r: RvResult<()>)
    requires wf(old(guard).st()),
    ensures
        r is Err ==> final(guard).st() == old(guard).st(),                                        //@ clause write_all.failure_atomic [C01]
        ({
            let s0 = old(guard).st();
            let a = spec_abs(s0.cwd, path.comps());
            &&& a is None ==> r is Err
            &&& a is Some ==> ({
                let e = new_file_entry(a->Some_0);
                let s1 = spec_add_st(s0, e);
                &&& (r is Err) == (spec_add_err(s0, e) is Some)
                // the file (created if missing) holds exactly `data` afterwards -- the old content is replaced -- and nothing else changes
                &&& (r is Ok && s1.files.contains_key(a->Some_0)) ==> final(guard).st() == put(s1, a->Some_0, data@)     //@ clause write_all.replaces_whole_content_and_frame [C06,C01]
                &&& (r is Ok && !s1.files.contains_key(a->Some_0)) ==> final(guard).st() == s1
                &&& wf(final(guard).st()) || parent_is_link(s0, a->Some_0)                                                   //@ clause write_all.wf_preserved [C03]
            })
        }),
//@ body

//@ item append_all file=src/sys/fs/memfs/vfs.rs block="impl VirtualFileSystem for Memfs" fn=append_all props=C06,C01,C03,C05,C12,C20
//@ sig fn append_all<T: AsRef<Path>, U: AsRef<[u8]>>(&self, path: T, data: U) -> RvResult<()>
//@ rw R12 1 ⟦let mut f = self.append(path)?;⟧ => ⟦let mut f = append(fs, guard, path)?;⟧
//@ rw R12 1 ⟦f.write_all(data.as_ref())?;⟧ => ⟦file_write_all(&mut f, data)?;⟧
//@ rw R12 1 ⟦f.flush()?;⟧ => ⟦flush_rv(&mut f, guard)?;⟧
//@ rw R12 1 re⟦Ok\(\(\)\)\s*\}\s*$⟧ => ⟦f.drop(guard); Ok(()) }⟧
//@ ins start
        let ghost s0 = guard.st();
//@ endins
//@ ins after ⟦append(fs, guard, path)?;⟧
        let ghost s1 = guard.st();
        proof { assert(file_ok(s0, f.path->Some_0@)); if wf(s1) && s1.files.contains_key(f.path->Some_0@) { lemma_put_wf(s1, f.path->Some_0@, s1.files[f.path->Some_0@].data + data@); } }
//@ endins
//@ ins after ⟦flush_rv(&mut f, guard)?;⟧
        proof { let s2 = guard.st(); if s2.files.contains_key(f.path->Some_0@) { assert(s2.files.insert(f.path->Some_0@, FileV { data: f.data@, pos: s2.files[f.path->Some_0@].pos }) =~= s2.files); } }
//@ endins
pub fn append_all(fs: &Memfs, guard: &mut MemfsGuard, path: &PathBuf, data: &[u8]) -> (r: RvResult<()>)
    requires wf(old(guard).st()),
    ensures
        r is Err ==> final(guard).st() == old(guard).st(),                                        //@ clause append_all.failure_atomic [C01]
        ({
            let s0 = old(guard).st();
            let a = spec_abs(s0.cwd, path.comps());
            &&& a is None ==> r is Err
            &&& a is Some ==> ({
                let e = new_file_entry(a->Some_0);
                let s1 = spec_add_st(s0, e);
                &&& spec_add_err(s0, e) is Some ==> r is Err
                // existing content is kept as a prefix and `data` is added at the end; every other file and entry is unchanged
                &&& (r is Ok) ==> s1.files.contains_key(a->Some_0) && final(guard).st() == put(s1, a->Some_0, s1.files[a->Some_0].data + data@)     //@ clause append_all.extends_and_frame [C06,C01]
                &&& wf(final(guard).st()) || parent_is_link(s0, a->Some_0)                                                   //@ clause append_all.wf_preserved [C03]
            })
        }),
//@ body

// =====================================================================================================================
// mkdir_p / mkdir_m: create every missing component of abs(path) as a directory, top down
pub open spec fn dir_entry(p: PathV, mode: Option<u32>) -> EntryV {
    let m0 = kind_mode(false, false, false, mode);
    EntryV { path: p, path_ok: true, alt: Seq::<Comp>::empty(), rel: Seq::<Comp>::empty(), dir: true, file: false, link: false,
             mode: kind_mode(false, false, true, if m0 == 0 { None } else { Some(m0) }), uid: 1000, gid: 1000, follow: false, cached: false,
             kids: Some(Set::<Name>::empty()) }
}
pub open spec fn mk_all(s: St, a: PathV, mode: Option<u32>, j: nat) -> St decreases j {
    if j == 0 { s } else { spec_add_st(mk_all(s, a, mode, (j - 1) as nat), dir_entry(a.take(j as int), mode)) }
}
pub open spec fn mk_err(s: St, a: PathV, mode: Option<u32>, j: nat) -> Option<ErrKind> decreases j {
    if j == 0 { None } else {
        match mk_err(s, a, mode, (j - 1) as nat) { Some(e) => Some(e), None => spec_add_err(mk_all(s, a, mode, (j - 1) as nat), dir_entry(a.take(j as int), mode)) }
    }
}
// the error (if any) of creating component j after components 1..j-1 were created
pub open spec fn step_err(s: St, a: PathV, mode: Option<u32>, j: nat) -> Option<ErrKind> {
    spec_add_err(mk_all(s, a, mode, (j - 1) as nat), dir_entry(a.take(j as int), mode))
}
// no component on the way is an existing symlink (outside the known finding add-under-symlink-parent)
pub open spec fn no_link_prefix(s: St, a: PathV) -> bool {
    forall|j: int| 0 <= j < a.len() ==> !(s.entries.contains_key(#[trigger] a.take(j)) && s.entries[a.take(j)].link)
}
pub open spec fn links_from(st: St, s0: St) -> bool {
    forall|p: PathV| st.entries.contains_key(p) && #[trigger] st.entries[p].link ==> s0.entries.contains_key(p) && s0.entries[p].link
}

//@ item _mkdir_m file=src/sys/fs/memfs/vfs.rs block="impl Memfs" fn=_mkdir_m props=C01,C03,C12
//@ sig fn _mkdir_m(&self, guard: &mut MemfsGuard, abs: &Path, mode: Option<u32>) -> RvResult<()>
//@ rw R3 1 for
//@ ins after ⟦let mut path = PathBuf::new();⟧
        let ghost s0 = guard.st();
        let ghost a = abs@;
        let ghost mut k: int = 0;
        proof { abs.ax_abs(); }
//@ endins
//@ loop 1
            invariant
                s0 == old(guard).st(), a == abs@, abs.abs_clean(), abs.comps() == abs_comps(a), wf(s0), no_link_prefix(s0, a),
                0 <= k <= a.len() + 1,
                __it1.rest().len() == a.len() + 1 - k,
                forall|i: int| 0 <= i < __it1.rest().len() ==> (#[trigger] __it1.rest()[i])@ == abs_comps(a)[k + i],
                k == 0 ==> path.comps().len() == 0 && guard.st() == s0,
                k > 0 ==> path.abs_clean() && path@ == a.take(k - 1) && guard.st() == mk_all(s0, a, mode, (k - 1) as nat)
                          && mk_err(s0, a, mode, (k - 1) as nat) is None,
                wf(guard.st()), links_from(guard.st(), s0),
            ensures
                k == a.len() + 1,
            decreases a.len() + 1 - k
//@ endloop
//@ ins after ⟦path.push(component);⟧
            proof {
                k = k + 1;
                if k > 1 {
                    assert(a.take(k - 2).push(a[k - 2]) =~= a.take(k - 1));
                    assert(a.take(k - 1).drop_last() =~= a.take(k - 2));
                    // the parent of the path about to be added is not a link
                    assert(!parent_is_link(guard.st(), a.take(k - 1))) by {
                        if guard.st().entries.contains_key(a.take(k - 2)) && guard.st().entries[a.take(k - 2)].link { assert(s0.entries[a.take(k - 2)].link); }
                    }
                }
            }
            let ghost st_before = guard.st();
            proof {
                if k > 1 {
                    let j: nat = (k - 1) as nat;
                    assert(st_before == mk_all(s0, a, mode, (j - 1) as nat));
                    assert(step_err(s0, a, mode, j) == spec_add_err(st_before, dir_entry(a.take(k - 1), mode)));
                }
            }
//@ endins
pub fn _mkdir_m(guard: &mut MemfsGuard, abs: &PathBuf, mode: Option<u32>) -> (r: RvResult<()>)
    requires wf(old(guard).st()), abs.abs_clean(), no_link_prefix(old(guard).st(), abs@),
    ensures
        wf(final(guard).st()),                                                                                        //@ clause mkdir.wf_preserved [C03]
        ({
            let s0 = old(guard).st();
            let a = abs@;
            &&& r is Ok ==> mk_err(s0, a, mode, a.len()) is None && final(guard).st() == mk_all(s0, a, mode, a.len())     //@ clause mkdir.creates_each_missing_component [C01]
            &&& r is Err ==> exists|j: nat| 1 <= j <= a.len() && mk_err(s0, a, mode, (j - 1) as nat) is None
                    && #[trigger] step_err(s0, a, mode, j) == Some(r->Err_0.kind)
                    && final(guard).st() == mk_all(s0, a, mode, (j - 1) as nat)                                        //@ clause mkdir.error_is_first_failing_component [C01]
        }),
//@ body

// ---- failure atomicity of mkdir: an error at component j means nothing was created before it
// a path that exists has all its prefixes (wf: every entry's parent exists)
pub proof fn lemma_prefix_exists(s: St, q: PathV, n: int)
    requires wf(s), s.entries.contains_key(q), 0 <= n <= q.len()
    ensures s.entries.contains_key(q.take(n))
    decreases q.len() - n
{
    if n == q.len() { assert(q.take(n) =~= q); } else {
        assert(entry_ok(s, q));
        let d = q.drop_last();
        assert(d.take(n) =~= q.take(n));
        lemma_prefix_exists(s, d, n);
    }
}
//@ obligation lemma_prefix_exists props=C01,C03
// state of the walk after m components: either nothing was created yet, or the deepest component a.take(m) is a fresh
// directory below which nothing exists
pub open spec fn walk_ok(s0: St, a: PathV, mode: Option<u32>, m: nat) -> bool {
    let s = mk_all(s0, a, mode, m);
    &&& wf(s) && links_from(s, s0)
    &&& s.entries.contains_key(a.take(m as int)) && s.entries[a.take(m as int)].dir
    &&& (s == s0 || forall|q: PathV| q.len() > m && #[trigger] q.take(m as int) == a.take(m as int) ==> !s.entries.contains_key(q))
}
pub proof fn lemma_walk(s0: St, a: PathV, mode: Option<u32>, m: nat)
    requires wf(s0), no_link_prefix(s0, a), m <= a.len(), mk_err(s0, a, mode, m) is None
    ensures walk_ok(s0, a, mode, m)
    decreases m
{
    if m == 0 {
        assert(a.take(0) =~= root());
    } else {
        let m1 = (m - 1) as nat;
        lemma_walk(s0, a, mode, m1);
        let s = mk_all(s0, a, mode, m1);
        let p = a.take(m as int);
        let d = a.take(m1 as int);
        let e = dir_entry(p, mode);
        assert(p.drop_last() =~= d);
        assert(d.push(p.last()) =~= p);
        assert(!parent_is_link(s, p)) by { if s.entries.contains_key(d) && s.entries[d].link { assert(s0.entries[d].link); } }
        lemma_add_wf(s, e);
        let s2 = spec_add_st(s, e);
        assert(links_from(s2, s0));
        if s.entries.contains_key(p) {
            // nothing created at this step
            if s != s0 { assert(p.take(m1 as int) =~= d); }
        } else {
            assert forall|q: PathV| q.len() > m && #[trigger] q.take(m as int) == p implies !s2.entries.contains_key(q) by {
                if s.entries.contains_key(q) { lemma_prefix_exists(s, q, m as int); }
                if q == d { }
            }
        }
    }
}
//@ obligation lemma_walk props=C01,C03
pub proof fn lemma_mkdir_atomic(s0: St, a: PathV, mode: Option<u32>, j: nat)
    requires wf(s0), no_link_prefix(s0, a), 1 <= j <= a.len(), mk_err(s0, a, mode, (j - 1) as nat) is None, step_err(s0, a, mode, j) is Some
    ensures mk_all(s0, a, mode, (j - 1) as nat) == s0      //@ clause mkdir.failure_atomic [C01]
{
    let m1 = (j - 1) as nat;
    lemma_walk(s0, a, mode, m1);
    let s = mk_all(s0, a, mode, m1);
    let p = a.take(j as int);
    assert(p.drop_last() =~= a.take(m1 as int));
    if s != s0 { assert(p.take(m1 as int) =~= a.take(m1 as int)); }
}
//@ obligation lemma_mkdir_atomic props=C01

pub proof fn lemma_mk_err_mono(s0: St, a: PathV, mode: Option<u32>, j: nat, n: nat)
    requires j <= n, mk_err(s0, a, mode, j) is Some
    ensures mk_err(s0, a, mode, n) is Some
    decreases n - j
{
    if j < n { lemma_mk_err_mono(s0, a, mode, j, (n - 1) as nat); }
}
//@ obligation lemma_mk_err_mono props=C01
pub proof fn lemma_mkdir_err(s0: St, a: PathV, mode: Option<u32>, j: nat)
    requires wf(s0), no_link_prefix(s0, a), 1 <= j <= a.len(), mk_err(s0, a, mode, (j - 1) as nat) is None, step_err(s0, a, mode, j) is Some
    ensures mk_all(s0, a, mode, (j - 1) as nat) == s0, mk_err(s0, a, mode, a.len()) is Some
{
    lemma_mkdir_atomic(s0, a, mode, j);
    assert(mk_err(s0, a, mode, j) is Some);
    lemma_mk_err_mono(s0, a, mode, j, a.len());
}
//@ obligation lemma_mkdir_err props=C01

//@ item mkdir_p file=src/sys/fs/memfs/vfs.rs block="impl VirtualFileSystem for Memfs" fn=mkdir_p props=C01,C03,C05,C12,C20
//@ ins after ⟦_abs(guard, path)?;⟧
        let ghost s0 = guard.st();
        proof { assert forall|j: nat| 1 <= j <= abs@.len() && mk_err(s0, abs@, None, (j - 1) as nat) is None && #[trigger] step_err(s0, abs@, None, j) is Some
                    implies mk_all(s0, abs@, None, (j - 1) as nat) == s0 && mk_err(s0, abs@, None, abs@.len()) is Some by { lemma_mkdir_err(s0, abs@, None, j); } }
//@ endins
pub fn mkdir_p(guard: &mut MemfsGuard, path: &PathBuf) -> (r: RvResult<PathBuf>)
    requires wf(old(guard).st()),
             spec_abs(old(guard).st().cwd, path.comps()) is Some ==> no_link_prefix(old(guard).st(), spec_abs(old(guard).st().cwd, path.comps())->Some_0),
    ensures
        wf(final(guard).st()),                                                                               //@ clause mkdir_p.wf_preserved [C03]
        r is Err ==> final(guard).st() == old(guard).st(),                                                   //@ clause mkdir_p.failure_atomic [C01]
        ({
            let s0 = old(guard).st();
            let a = spec_abs(s0.cwd, path.comps());
            &&& a is None ==> r is Err
            &&& (a is Some && r is Ok) ==> r->Ok_0@ == a->Some_0 && r->Ok_0.abs_clean()
                    && final(guard).st() == mk_all(s0, a->Some_0, None, a->Some_0.len())                    //@ clause mkdir_p.creates_missing_components_mode_0o40755 [C01]
            &&& (a is Some) ==> (r is Ok) == (mk_err(s0, a->Some_0, None, a->Some_0.len()) is None)          //@ clause mkdir_p.errors [C01]
        }),
//@ body

//@ item mkdir_m file=src/sys/fs/memfs/vfs.rs block="impl VirtualFileSystem for Memfs" fn=mkdir_m props=C01,C03,C05,C11,C12,C20
//@ ins after ⟦_abs(guard, path)?;⟧
        let ghost s0 = guard.st();
        proof { assert forall|j: nat| 1 <= j <= abs@.len() && mk_err(s0, abs@, Some(mode), (j - 1) as nat) is None && #[trigger] step_err(s0, abs@, Some(mode), j) is Some
                    implies mk_all(s0, abs@, Some(mode), (j - 1) as nat) == s0 && mk_err(s0, abs@, Some(mode), abs@.len()) is Some by { lemma_mkdir_err(s0, abs@, Some(mode), j); } }
//@ endins
pub fn mkdir_m(guard: &mut MemfsGuard, path: &PathBuf, mode: u32) -> (r: RvResult<PathBuf>)
    requires wf(old(guard).st()),
             spec_abs(old(guard).st().cwd, path.comps()) is Some ==> no_link_prefix(old(guard).st(), spec_abs(old(guard).st().cwd, path.comps())->Some_0),
    ensures
        wf(final(guard).st()),                                                                               //@ clause mkdir_m.wf_preserved [C03]
        r is Err ==> final(guard).st() == old(guard).st(),                                                   //@ clause mkdir_m.failure_atomic [C01]
        ({
            let s0 = old(guard).st();
            let a = spec_abs(s0.cwd, path.comps());
            &&& a is None ==> r is Err
            &&& (a is Some && r is Ok) ==> r->Ok_0@ == a->Some_0 && r->Ok_0.abs_clean()
                    && final(guard).st() == mk_all(s0, a->Some_0, Some(mode), a->Some_0.len())              //@ clause mkdir_m.creates_missing_components_with_mode [C01,C11]
            &&& (a is Some) ==> (r is Ok) == (mk_err(s0, a->Some_0, Some(mode), a->Some_0.len()) is None)
        }),
//@ body

// =====================================================================================================================
// Memfs::new: the initial state satisfies wf (base case of the induction over histories)
// HashMap<PathBuf, MemfsEntry> / HashMap<PathBuf, MemfsFile> as finite maps (ASSUMED[hashmap])
#[verifier::external_body] pub struct MemfsEntries { x: u8 }
#[verifier::external_body] pub struct MemfsFiles { x: u8 }
impl MemfsEntries {
    pub uninterp spec fn view(&self) -> Map<PathV, EntryV>;
    #[verifier::external_body] pub fn new() -> (r: MemfsEntries) ensures r@ == Map::<PathV, EntryV>::empty() { unimplemented!() }
    #[verifier::external_body] pub fn insert(&mut self, k: PathBuf, v: MemfsEntry) requires k.abs_clean() ensures final(self)@ == old(self)@.insert(k@, v.ev()) { unimplemented!() }
}
impl MemfsFiles {
    pub uninterp spec fn view(&self) -> Map<PathV, FileV>;
    #[verifier::external_body] pub fn new() -> (r: MemfsFiles) ensures r@ == Map::<PathV, FileV>::empty() { unimplemented!() }
}
//@ struct file=src/sys/fs/memfs/vfs.rs name=MemfsInner
//@ endstruct
impl Memfs {
    // the state a guard of this instance observes before any operation
    pub uninterp spec fn initial_st(&self) -> St;
    // R11: `Self(Arc::new(RwLock::new(inner)))`.  ASSUMED[guard]: the guards of the new instance see exactly `inner`
    #[verifier::external_body]
    pub fn from_inner(inner: MemfsInner) -> (r: Memfs)
        ensures r.initial_st() == (St { entries: inner.entries@, files: inner.files@, cwd: inner.cwd@, cwd_ok: inner.cwd.abs_clean() })
    { unimplemented!() }
    #[verifier::external_body]
    pub fn root_component() -> (r: Component) ensures r@ == Comp::RootDir { unimplemented!() }

//@ item memfs_new file=src/sys/fs/memfs/vfs.rs block="impl Memfs" fn=new props=C03,C01,C12
//@ sig pub fn new() -> Self
//@ rw R8 * ⟦root.push(Component::RootDir);⟧ => ⟦root.push(Memfs::root_component());⟧
//@ rw R4 * ⟦let mut entries = HashMap::new();⟧ => ⟦let mut entries = MemfsEntries::new();⟧
//@ rw R4 * ⟦files: HashMap::new(),⟧ => ⟦files: MemfsFiles::new(),⟧
//@ rw R11 1 ⟦Self(Arc::new(RwLock::new(MemfsInner {⟧ => ⟦Memfs::from_inner((MemfsInner {⟧
//@ rw R11 1 re⟦\}\)\)\)\s*\}\s*$⟧ => ⟦})) }⟧
    pub fn new() -> (r: Memfs)
        ensures
            r.initial_st().entries =~= Map::<PathV, EntryV>::empty().insert(root(), dir_entry(root(), None)),     //@ clause new.only_the_root_directory [C01]
            r.initial_st().files =~= Map::<PathV, FileV>::empty(), r.initial_st().cwd == root(), r.initial_st().cwd_ok,
            wf(r.initial_st()),                                                                                      //@ clause new.establishes_wf [C03]
//@ body
}

// =====================================================================================================================
// Line helpers (C06): write_lines / append_line / append_lines add exactly one newline per line; read_all decodes the bytes
// ASSUMED[str-utf8-bytes]: String::as_bytes / AsRef<[u8]> is the UTF-8 encoding, a homomorphism on concatenation
pub uninterp spec fn utf8(s: Seq<char>) -> Seq<u8>;
// [&str]::join("\n"): the lines separated by single newlines (std docs of slice::join)
pub open spec fn join_nl(ls: Seq<Seq<char>>) -> Seq<char> decreases ls.len() {
    if ls.len() == 0 { Seq::empty() } else if ls.len() == 1 { ls[0] } else { join_nl(ls.drop_last()) + seq!['\n'] + ls.last() }
}
// every line followed by exactly one newline
pub open spec fn each_line_nl(ls: Seq<Seq<char>>) -> Seq<char> decreases ls.len() {
    if ls.len() == 0 { Seq::empty() } else { each_line_nl(ls.drop_last()) + ls.last() + seq!['\n'] }
}
pub proof fn lemma_join_is_one_newline_per_line(ls: Seq<Seq<char>>)
    requires ls.len() > 0
    ensures join_nl(ls) + seq!['\n'] =~= each_line_nl(ls)      //@ clause lines.exactly_one_newline_per_line [C06]
    decreases ls.len()
{
    if ls.len() == 1 {
        assert(ls.drop_last() =~= Seq::<Seq<char>>::empty());
        assert(each_line_nl(ls.drop_last()) =~= Seq::<char>::empty());
    } else {
        lemma_join_is_one_newline_per_line(ls.drop_last());
    }
}
//@ obligation lemma_join_is_one_newline_per_line props=C06
pub open spec fn views(v: Seq<Str>) -> Seq<Seq<char>> { Seq::new(v.len(), |i: int| v[i]@) }
// R4: `lines.iter().map(|x| x.as_ref()).collect::<Vec<&str>>().join("\n")`
#[verifier::external_body]
pub fn join_lines(lines: &[Str]) -> (r: Str) ensures r@ == join_nl(views(lines@)) { unimplemented!() }
impl Str {
    // R4: `s + "\n"`
    #[verifier::external_body] pub fn plus_nl(self) -> (r: Str) ensures r@ == self@ + seq!['\n'] { unimplemented!() }
    #[verifier::external_body] pub fn as_bytes(&self) -> (r: &[u8]) ensures r@ == utf8(self@) { unimplemented!() }
}
// R12 helper: the data argument of write_all / append_all (identity)
pub fn rw_data(s: Str) -> (r: Str) ensures r@ == s@ { s }
// the effect of write_all / append_all on the abstract state, as proved above (same formulas as their ensures clauses)
pub open spec fn st_write_all(s0: St, a: PathV, data: Seq<u8>) -> St {
    let s1 = spec_add_st(s0, new_file_entry(a));
    if s1.files.contains_key(a) { put(s1, a, data) } else { s1 }
}
pub open spec fn st_append_all(s0: St, a: PathV, data: Seq<u8>) -> St {
    let s1 = spec_add_st(s0, new_file_entry(a));
    put(s1, a, s1.files[a].data + data)
}

//@ item write_lines file=src/sys/fs/memfs/vfs.rs block="impl VirtualFileSystem for Memfs" fn=write_lines props=C06,C01,C12
//@ sig fn write_lines<T: AsRef<Path>, U: AsRef<str>>(&self, path: T, lines: &[U]) -> RvResult<()>
//@ rw R4 * ⟦lines.iter().map(|x| x.as_ref()).collect::<Vec<&str>>().join("\n")⟧ => ⟦join_lines(lines)⟧
//@ rw R12 1 re⟦self\.write_all\(path, (.*?)\)\?;⟧ => ⟦write_all(fs, guard, path, rw_data(\1).as_bytes())?;⟧
//@ rw R4 * ⟦rw_data(lines + "\n")⟧ => ⟦lines.plus_nl()⟧
pub fn write_lines(fs: &Memfs, guard: &mut MemfsGuard, path: &PathBuf, lines: &[Str]) -> (r: RvResult<()>)
    requires wf(old(guard).st()),
    ensures
        r is Err ==> final(guard).st() == old(guard).st(),
        ({
            let s0 = old(guard).st();
            let a = spec_abs(s0.cwd, path.comps());
            let j = join_nl(views(lines@));
            // nothing to write: the file is left alone
            &&& j.len() == 0 ==> r is Ok && final(guard).st() == s0
            // otherwise the whole content becomes the lines, each followed by exactly one newline
            &&& (j.len() > 0 && a is Some && r is Ok) ==> final(guard).st() == st_write_all(s0, a->Some_0, utf8(j + seq!['\n']))      //@ clause write_lines.content_is_lines_plus_newline [C06]
            &&& (j.len() > 0 && a is None) ==> r is Err
        }),
//@ body

//@ item append_lines file=src/sys/fs/memfs/vfs.rs block="impl VirtualFileSystem for Memfs" fn=append_lines props=C06,C01,C12
//@ sig fn append_lines<T: AsRef<Path>, U: AsRef<str>>(&self, path: T, lines: &[U]) -> RvResult<()>
//@ rw R4 * ⟦lines.iter().map(|x| x.as_ref()).collect::<Vec<&str>>().join("\n")⟧ => ⟦join_lines(lines)⟧
//@ rw R12 1 re⟦self\.append_all\(path, (.*?)\)\?;⟧ => ⟦append_all(fs, guard, path, rw_data(\1).as_bytes())?;⟧
//@ rw R4 * ⟦rw_data(lines + "\n")⟧ => ⟦lines.plus_nl()⟧
pub fn append_lines(fs: &Memfs, guard: &mut MemfsGuard, path: &PathBuf, lines: &[Str]) -> (r: RvResult<()>)
    requires wf(old(guard).st()),
    ensures
        r is Err ==> final(guard).st() == old(guard).st(),
        ({
            let s0 = old(guard).st();
            let a = spec_abs(s0.cwd, path.comps());
            let j = join_nl(views(lines@));
            &&& j.len() == 0 ==> r is Ok && final(guard).st() == s0
            &&& (j.len() > 0 && a is Some && r is Ok) ==> final(guard).st() == st_append_all(s0, a->Some_0, utf8(j + seq!['\n']))     //@ clause append_lines.appends_lines_plus_newline [C06]
            &&& (j.len() > 0 && a is None) ==> r is Err
        }),
//@ body

//@ item append_line file=src/sys/fs/memfs/vfs.rs block="impl VirtualFileSystem for Memfs" fn=append_line props=C06,C01,C12
//@ sig fn append_line<T: AsRef<Path>, U: AsRef<str>>(&self, path: T, line: U) -> RvResult<()>
//@ rw R12 1 re⟦self\.append_all\(path, (.*?)\)\?;⟧ => ⟦append_all(fs, guard, path, rw_data(\1).as_bytes())?;⟧
//@ rw R4 * ⟦rw_data(line + "\n")⟧ => ⟦line.plus_nl()⟧
pub fn append_line(fs: &Memfs, guard: &mut MemfsGuard, path: &PathBuf, line: &Str) -> (r: RvResult<()>)
    requires wf(old(guard).st()),
    ensures
        r is Err ==> final(guard).st() == old(guard).st(),
        ({
            let s0 = old(guard).st();
            let a = spec_abs(s0.cwd, path.comps());
            &&& line@.len() == 0 ==> r is Ok && final(guard).st() == s0
            &&& (line@.len() > 0 && a is Some && r is Ok) ==> final(guard).st() == st_append_all(s0, a->Some_0, utf8(line@ + seq!['\n']))     //@ clause append_line.appends_line_plus_newline [C06]
            &&& (line@.len() > 0 && a is None) ==> r is Err
        }),
//@ body

// =====================================================================================================================
// _copy (C09, copy clause): a fold of per-entry steps over the traversal of the source, on link-free trees.
// The traversal itself (Entries / MemfsEntryIter: order, completeness, loop detection) is NOT verified (C02 is not applicable to
// this technique); it enters as the uninterpreted sequence `traversal(snapshot, root, follow)` with the two facts in ax_traversal.
pub struct ItemV { pub path: PathV, pub path_ok: bool, pub link: bool }
#[verifier::external_body] pub struct VfsEntry { x: u8 }
impl VfsEntry {
    pub uninterp spec fn iv(&self) -> ItemV;
    #[verifier::external_body]
    pub fn path(&self) -> (r: &PathBuf) ensures r@ == self.iv().path, r.abs_clean() == self.iv().path_ok, self.iv().path_ok ==> r.comps() == abs_comps(r@) { unimplemented!() }
    #[verifier::external_body]
    pub fn is_symlink(&self) -> (r: bool) ensures r == self.iv().link { unimplemented!() }
    #[verifier::external_body]
    pub fn alt(&self) -> (r: &PathBuf) { unimplemented!() }
    // further Entry accessors of the snapshot entry: left unspecified (the copy re-reads the live entry for everything but the path)
    pub uninterp spec fn xmode(&self) -> u32;
    pub uninterp spec fn xdir(&self) -> bool;
    pub uninterp spec fn xfile(&self) -> bool;
    #[verifier::external_body] pub fn mode(&self) -> (r: u32) ensures r == self.xmode() { unimplemented!() }
    #[verifier::external_body] pub fn is_dir(&self) -> (r: bool) ensures r == self.xdir() { unimplemented!() }
    #[verifier::external_body] pub fn is_file(&self) -> (r: bool) ensures r == self.xfile() { unimplemented!() }
    // Entry default methods (proved for the trait defaults above): link && dir / link && file
    #[verifier::external_body] pub fn is_exec(&self) -> (r: bool) ensures r == (self.xmode() & 0o111 != 0) { unimplemented!() }
    #[verifier::external_body] pub fn is_readonly(&self) -> (r: bool) ensures r == (self.xmode() & 0o222 == 0) { unimplemented!() }
    #[verifier::external_body] pub fn path_buf(&self) -> (r: PathBuf) ensures r@ == self.iv().path, r.abs_clean() == self.iv().path_ok, self.iv().path_ok ==> r.comps() == abs_comps(r@) { unimplemented!() }
    #[verifier::external_body] pub fn is_symlink_dir(&self) -> (r: bool) ensures r == (self.iv().link && self.xdir()) { unimplemented!() }
    #[verifier::external_body] pub fn is_symlink_file(&self) -> (r: bool) ensures r == (self.iv().link && self.xfile()) { unimplemented!() }
}
// the options of an Entries traversal that the callers under contract set
pub struct TravCfg { pub follow: bool, pub min_depth: usize, pub max_depth: usize, pub contents_first: bool, pub dirs_first: bool, pub pre_op: bool, pub sort_by_name: bool, pub only_dirs: bool, pub only_files: bool }
pub open spec fn default_cfg(follow: bool) -> TravCfg { TravCfg { follow: follow, min_depth: 0, max_depth: usize::MAX, contents_first: false, dirs_first: false, pre_op: false, sort_by_name: false, only_dirs: false, only_files: false } }
pub uninterp spec fn traversal_cfg(snap: St, root: PathV, cfg: TravCfg) -> Seq<ItemV>;
pub open spec fn traversal(snap: St, root: PathV, follow: bool) -> Seq<ItemV> { traversal_cfg(snap, root, default_cfg(follow)) }
pub open spec fn no_links(s: St) -> bool { forall|p: PathV| s.entries.contains_key(p) ==> !(#[trigger] s.entries[p]).link }
// ASSUMED[traversal]: every yielded entry carries an absolute clean path at or below the traversal root, and is reported as a
// link only if the snapshot contains a link (Entries / MemfsEntryIter, src/sys/fs/entries.rs + memfs/entry_iter.rs, unverified)
#[verifier::external_body]
pub proof fn ax_traversal(snap: St, root: PathV, follow: bool)
    ensures forall|i: int| 0 <= i < traversal(snap, root, follow).len() ==> {
                let it = #[trigger] traversal(snap, root, follow)[i];
                it.path_ok && in_sub(root, it.path) && (it.link ==> !no_links(snap)) }
{ }
// ASSUMED[traversal], any configuration: yielded paths are absolute and clean
#[verifier::external_body]
pub proof fn ax_traversal_cfg(snap: St, root: PathV, cfg: TravCfg)
    ensures forall|i: int| 0 <= i < traversal_cfg(snap, root, cfg).len() ==> (#[trigger] traversal_cfg(snap, root, cfg)[i]).path_ok
{ }
#[verifier::external_body] pub struct EntriesIt { x: u8 }
impl EntriesIt {
    pub uninterp spec fn snap(&self) -> St;
    pub uninterp spec fn root(&self) -> PathV;
    pub uninterp spec fn cfg(&self) -> TravCfg;
    pub open spec fn flw(&self) -> bool { self.cfg().follow }
    pub uninterp spec fn idx(&self) -> nat;
    pub open spec fn items(&self) -> Seq<ItemV> { traversal_cfg(self.snap(), self.root(), self.cfg()) }
    #[verifier::external_body]
    pub fn follow(self, yes: bool) -> (r: EntriesIt) ensures r.snap() == self.snap(), r.root() == self.root(), r.cfg() == (TravCfg { follow: yes, ..self.cfg() }), r.idx() == self.idx() { unimplemented!() }
    // ASSUMED[entries-opts]: the Entries option setters as proved in unit entries_opts (min/max depth are clamped against each other)
    #[verifier::external_body]
    pub fn max_depth(self, n: usize) -> (r: EntriesIt) ensures r.snap() == self.snap(), r.root() == self.root(), r.cfg() == (TravCfg { max_depth: if n < self.cfg().min_depth { self.cfg().min_depth } else { n }, ..self.cfg() }), r.idx() == self.idx() { unimplemented!() }
    #[verifier::external_body]
    pub fn min_depth(self, n: usize) -> (r: EntriesIt) ensures r.snap() == self.snap(), r.root() == self.root(), r.cfg() == (TravCfg { min_depth: if n > self.cfg().max_depth { self.cfg().max_depth } else { n }, ..self.cfg() }), r.idx() == self.idx() { unimplemented!() }
    #[verifier::external_body]
    pub fn sort_by_name(self) -> (r: EntriesIt) ensures r.snap() == self.snap(), r.root() == self.root(), r.cfg() == (TravCfg { sort_by_name: true, ..self.cfg() }), r.idx() == self.idx() { unimplemented!() }
    #[verifier::external_body]
    pub fn dirs(self) -> (r: EntriesIt) ensures r.snap() == self.snap(), r.root() == self.root(), r.cfg() == (TravCfg { only_dirs: true, only_files: false, ..self.cfg() }), r.idx() == self.idx() { unimplemented!() }
    #[verifier::external_body]
    pub fn files(self) -> (r: EntriesIt) ensures r.snap() == self.snap(), r.root() == self.root(), r.cfg() == (TravCfg { only_dirs: false, only_files: true, ..self.cfg() }), r.idx() == self.idx() { unimplemented!() }
    #[verifier::external_body]
    pub fn contents_first(self) -> (r: EntriesIt) ensures r.snap() == self.snap(), r.root() == self.root(), r.cfg() == (TravCfg { contents_first: true, ..self.cfg() }), r.idx() == self.idx() { unimplemented!() }
    #[verifier::external_body]
    pub fn dirs_first(self) -> (r: EntriesIt) ensures r.snap() == self.snap(), r.root() == self.root(), r.cfg() == (TravCfg { dirs_first: true, ..self.cfg() }), r.idx() == self.idx() { unimplemented!() }
    // R13: `.pre_op(move |x| { .. })` -- the boxed closure is verified as its own item (chmod_pre_op); here it only marks the configuration
    #[verifier::external_body]
    pub fn pre_op_set(self) -> (r: EntriesIt) ensures r.snap() == self.snap(), r.root() == self.root(), r.cfg() == (TravCfg { pre_op: true, ..self.cfg() }), r.idx() == self.idx() { unimplemented!() }
    // next() of a traversal with a pre_op: the callback may run (any number of times) before an entry is yielded.
    // ASSUMED[traversal]: it runs only the callback, whose contract (item chmod_pre_op) keeps wf and the cwd
    #[verifier::external_body]
    pub fn next_g(&mut self, guard: &mut MemfsGuard) -> (r: Option<RvResult<VfsEntry>>)
        requires wf(old(guard).st())
        ensures final(self).snap() == old(self).snap(), final(self).root() == old(self).root(), final(self).cfg() == old(self).cfg(),
                wf(final(guard).st()), final(guard).st().cwd == old(guard).st().cwd,
                r is None ==> old(self).idx() == old(self).items().len() && final(self).idx() == old(self).idx(),
                r is Some ==> old(self).idx() < old(self).items().len() && final(self).idx() == old(self).idx() + 1,
                (r is Some && r->Some_0 is Ok) ==> r->Some_0->Ok_0.iv() == old(self).items()[old(self).idx() as int],
    { unimplemented!() }
    // ASSUMED[traversal]: the iterator yields traversal(..) front to back, or an error, and ends only after the last element
    #[verifier::external_body]
    pub fn next(&mut self) -> (r: Option<RvResult<VfsEntry>>)
        ensures final(self).snap() == old(self).snap(), final(self).root() == old(self).root(), final(self).cfg() == old(self).cfg(),
                r is None ==> old(self).idx() == old(self).items().len() && final(self).idx() == old(self).idx(),
                r is Some ==> old(self).idx() < old(self).items().len() && final(self).idx() == old(self).idx() + 1,
                (r is Some && r->Some_0 is Ok) ==> r->Some_0->Ok_0.iv() == old(self).items()[old(self).idx() as int],
    { unimplemented!() }
}
// Memfs::_entries: a traversal of a snapshot (clone) of the tree taken at the call, rooted at abs(path)
#[verifier::external_body]
pub fn _entries(guard: &MemfsGuard, path: &PathBuf) -> (r: RvResult<EntriesIt>)
    requires guard.st().cwd_ok
    ensures r is Ok ==> spec_abs(guard.st().cwd, path.comps()) is Some && r->Ok_0.snap() == guard.st()
                        && r->Ok_0.root() == spec_abs(guard.st().cwd, path.comps())->Some_0 && r->Ok_0.cfg() == default_cfg(false) && r->Ok_0.idx() == 0
{ unimplemented!() }
impl MemfsEntry {
    // ASSUMED[entry-follow-contract]: MemfsEntry::follow (proved in unit entry_follow): nothing is swapped unless asked to follow a link
    #[verifier::external_body]
    pub fn follow(self, follow: bool) -> (r: VfsEntry)
        ensures !(follow && self.link && !self.follow) ==> r.iv() == (ItemV { path: self.path@, path_ok: self.path.abs_clean(), link: self.link })
    { unimplemented!() }
//@ item entry_path file=src/sys/fs/memfs/entry.rs block="impl Entry for MemfsEntry" fn=path props=C01,C09,C12
    pub fn path(&self) -> (r: &PathBuf) ensures r@ == self.path@, r.abs_clean() == self.path.abs_clean(), r.comps() == self.path.comps()
//@ body
}
impl PathBuf {
    // relative remainder below a component prefix, and its re-attachment (ASSUMED[trim-prefix-abs], ASSUMED[mash-contract]: unit path_helpers)
    pub uninterp spec fn rel_names(&self) -> Seq<Name>;
    pub uninterp spec fn is_rel(&self) -> bool;
    #[verifier::external_body]
    pub fn trim_prefix<T: PathArg>(&self, prefix: T) -> (r: PathBuf)
        ensures (self.abs_clean() && prefix.pok() && in_sub(prefix.pv(), self@)) ==> r.is_rel() && r.rel_names() == self@.skip(prefix.pv().len() as int)
    { unimplemented!() }
    #[verifier::external_body]
    pub fn mash_rel(&self, p: PathBuf) -> (r: PathBuf)
        ensures (self.abs_clean() && p.is_rel()) ==> r.abs_clean() && r@ == self@ + p.rel_names() && r.comps() == abs_comps(r@)
    { unimplemented!() }
    #[verifier::external_body]
    pub fn eq_abs(&self, o: &PathBuf) -> (b: bool) ensures (self.abs_clean() && o.abs_clean()) ==> b == (self@ == o@) { unimplemented!() }
}
//@ struct file=src/sys/fs/copy.rs name=CopyOpts
//@ endstruct
pub open spec fn dir_mode_of(o: CopyOpts) -> Option<u32> { match o.mode { Some(x) => if o.cdirs || !o.cfiles { Some(x) } else { None }, None => None } }
pub open spec fn file_mode_of(o: CopyOpts) -> Option<u32> { match o.mode { Some(x) => if o.cfiles || !o.cdirs { Some(x) } else { None }, None => None } }
pub open spec fn or_mode(m: Option<u32>, d: u32) -> Option<u32> { match m { Some(x) => Some(x), None => Some(d) } }
#[verifier::external_body]
pub fn opt_or(a: Option<u32>, b: Option<u32>) -> (r: Option<u32>) ensures r == (match a { Some(x) => Some(x), None => b }) { unimplemented!() }
// abs is the identity on absolute clean paths (C05 "abs is idempotent"; not mechanised: stated as a precondition of _copy)
pub open spec fn abs_stable(cwd: PathV) -> bool { forall|p: PathV| #[trigger] spec_abs(cwd, abs_comps(p)) == Some(p) }

pub struct CopyV { pub a: PathV, pub b: PathV, pub into: bool, pub dmode: Option<u32>, pub fmode: Option<u32> }
// destination of a source path: relative to the source root (copy onto dst) or to the source root's parent (copy into an existing directory)
pub open spec fn copy_dst(c: CopyV, p: PathV) -> PathV { if c.into { c.b + p.skip(c.a.len() - 1) } else { c.b + p.skip(c.a.len() as int) } }
// one step, written from the property statement: a directory is (re)created with the selected or the source mode; a file entry is
// duplicated under its new path with the selected or the source mode and its content is copied; missing parents are created first
pub open spec fn copy_step(s: St, c: CopyV, p: PathV) -> St {
    let e = s.entries[p];
    let d = copy_dst(c, p);
    if e.dir { mk_all(s, d, or_mode(c.dmode, e.mode), d.len()) } else if d.len() == 0 { s } else {
        let dd = d.drop_last();
        let s1 = if !s.entries.contains_key(dd) { mk_all(s, dd, or_mode(c.dmode, s.entries[p.drop_last()].mode), dd.len()) } else { s };
        let e2 = EntryV { path: d, path_ok: true, mode: kind_mode(e.link, e.file, e.dir, or_mode(c.fmode, e.mode)), ..e };
        let s2 = spec_add_st(s1, e2);
        St { files: s2.files.insert(d, s2.files[p]), ..s2 }
    }
}
pub open spec fn copy_fold(s: St, c: CopyV, items: Seq<ItemV>, k: nat) -> St decreases k {
    if k == 0 { s } else { copy_step(copy_fold(s, c, items, (k - 1) as nat), c, items[k - 1].path) }
}
pub proof fn lemma_mk_all_keeps(s: St, a: PathV, mode: Option<u32>, j: nat)
    requires no_links(s)
    ensures no_links(mk_all(s, a, mode, j)), mk_all(s, a, mode, j).cwd == s.cwd, mk_all(s, a, mode, j).cwd_ok == s.cwd_ok
    decreases j
{
    if j > 0 {
        lemma_mk_all_keeps(s, a, mode, (j - 1) as nat);
        let s1 = mk_all(s, a, mode, (j - 1) as nat);
        let e = dir_entry(a.take(j as int), mode);
        assert forall|p: PathV| spec_add_st(s1, e).entries.contains_key(p) implies !(#[trigger] spec_add_st(s1, e).entries[p]).link by {
            if s1.entries.contains_key(p) { assert(!s1.entries[p].link); }
            if s1.entries.contains_key(e.path.drop_last()) { assert(!s1.entries[e.path.drop_last()].link); }
        }
    }
}
//@ obligation lemma_mk_all_keeps props=C09,C03
// overwriting the content of an existing regular file keeps the tree well formed
pub proof fn lemma_put_file_wf(s: St, d: PathV, f: FileV)
    requires wf(s), s.files.contains_key(d), f.pos == 0
    ensures wf(St { files: s.files.insert(d, f), ..s })
{
    let s2 = St { files: s.files.insert(d, f), ..s };
    assert forall|q: PathV| s2.entries.contains_key(q) implies #[trigger] entry_ok(s2, q) by { assert(entry_ok(s, q)); }
    assert forall|q: PathV, n: Name| #[trigger] kids_ok(s2, q, n) by { assert(kids_ok(s, q, n)); }
    assert forall|q: PathV| #[trigger] file_ok(s2, q) by { assert(file_ok(s, q)); assert(file_ok(s, d)); }
}
//@ obligation lemma_put_file_wf props=C09,C03,C06

// every step of the fold succeeded (what `r is Ok` means step by step): the entry existed, directories could be created, the new
// entry could be added and the source content was there
pub open spec fn step_ok(s: St, c: CopyV, p: PathV) -> bool {
    let e = s.entries[p];
    let d = copy_dst(c, p);
    &&& s.entries.contains_key(p)
    &&& e.dir ==> mk_err(s, d, or_mode(c.dmode, e.mode), d.len()) is None
    &&& !e.dir ==> ({
            let dd = d.drop_last();
            let m = or_mode(c.dmode, s.entries[p.drop_last()].mode);
            let s1 = if !s.entries.contains_key(dd) { mk_all(s, dd, m, dd.len()) } else { s };
            let e2 = EntryV { path: d, path_ok: true, mode: kind_mode(e.link, e.file, e.dir, or_mode(c.fmode, e.mode)), ..e };
            &&& d.len() > 0
            &&& (!s.entries.contains_key(dd) ==> mk_err(s, dd, m, dd.len()) is None)
            &&& spec_add_err(s1, e2) is None
            &&& spec_add_st(s1, e2).files.contains_key(p)
        })
}
pub open spec fn copy_ok(s: St, c: CopyV, items: Seq<ItemV>, k: nat) -> bool decreases k {
    k == 0 || (copy_ok(s, c, items, (k - 1) as nat) && step_ok(copy_fold(s, c, items, (k - 1) as nat), c, items[k - 1].path))
}
pub open spec fn ent_of(s: St, k: PathV) -> Option<EntryV> { if s.entries.contains_key(k) { Some(s.entries[k]) } else { None } }
pub open spec fn file_of(s: St, k: PathV) -> Option<FileV> { if s.files.contains_key(k) { Some(s.files[k]) } else { None } }
// creating the components of `a` touches only prefixes of `a`, and no file content
pub proof fn lemma_mk_all_frame(s: St, a: PathV, mode: Option<u32>, j: nat, q: PathV)
    requires j <= a.len(), !in_sub(q, a)
    ensures ent_of(mk_all(s, a, mode, j), q) == ent_of(s, q), mk_all(s, a, mode, j).files == s.files
    decreases j
{
    if j > 0 {
        lemma_mk_all_frame(s, a, mode, (j - 1) as nat, q);
        let t = a.take(j as int);
        assert(in_sub(t, a)) by { assert(a.take(t.len() as int) =~= t); }
        assert(in_sub(t.drop_last(), a)) by { assert(a.take(t.len() - 1) =~= t.drop_last()); }
    }
}
//@ obligation lemma_mk_all_frame props=C09,C01
// FRAME of one step: only the destination path of the entry and its ancestors can change (nothing else, in particular no other content)
pub proof fn lemma_copy_step_frame(s: St, c: CopyV, p: PathV, q: PathV)
    requires !in_sub(q, copy_dst(c, p))
    ensures ent_of(copy_step(s, c, p), q) == ent_of(s, q), file_of(copy_step(s, c, p), q) == file_of(s, q)     //@ clause copy.step_changes_only_destination_and_ancestors [C09]
{
    let e = s.entries[p];
    let d = copy_dst(c, p);
    assert(in_sub(d, d)) by { assert(d.take(d.len() as int) =~= d); }
    if e.dir { lemma_mk_all_frame(s, d, or_mode(c.dmode, e.mode), d.len(), q); } else if d.len() > 0 {
        let dd = d.drop_last();
        assert(in_sub(dd, d)) by { assert(d.take(dd.len() as int) =~= dd); }
        assert(!in_sub(q, dd)) by { if in_sub(q, dd) { assert(d.take(q.len() as int) =~= dd.take(q.len() as int)); } }
        assert(q != d && q != dd);
        let m = or_mode(c.dmode, s.entries[p.drop_last()].mode);
        lemma_mk_all_frame(s, dd, m, dd.len(), q);
        let s1 = if !s.entries.contains_key(dd) { mk_all(s, dd, m, dd.len()) } else { s };
        assert(ent_of(s1, q) == ent_of(s, q) && s1.files == s.files);
        let e2 = EntryV { path: d, path_ok: true, mode: kind_mode(e.link, e.file, e.dir, or_mode(c.fmode, e.mode)), ..e };
        let s2 = spec_add_st(s1, e2);
        assert(ent_of(s2, q) == ent_of(s1, q));
        assert(file_of(s2, q) == file_of(s1, q));
    }
}
//@ obligation lemma_copy_step_frame props=C09,C01
// PLACEMENT of one step for a non-directory entry: the destination exists with the source's kind; a newly created destination is the
// source entry under its new path with the selected (or the source's) mode; and the content is the source's content
pub proof fn lemma_copy_step_places(s: St, c: CopyV, p: PathV)
    requires step_ok(s, c, p), !s.entries[p].dir
    ensures ({
        let e = s.entries[p];
        let d = copy_dst(c, p);
        let dd = d.drop_last();
        let s1 = if !s.entries.contains_key(dd) { mk_all(s, dd, or_mode(c.dmode, s.entries[p.drop_last()].mode), dd.len()) } else { s };
        let s3 = copy_step(s, c, p);
        &&& s3.entries.contains_key(d)
        &&& (e.file ==> s3.entries[d].file)
        &&& !s1.entries.contains_key(d) ==> s3.entries[d] == (EntryV { path: d, path_ok: true, mode: kind_mode(e.link, e.file, e.dir, or_mode(c.fmode, e.mode)), ..e })     //@ clause copy.new_entry_has_source_kind_and_selected_or_source_mode [C09]
        &&& p != d ==> s3.files.contains_key(d) && s.files.contains_key(p) && s3.files[d] == s.files[p]                   //@ clause copy.content_is_copied [C09,C06]
    }),
{
    let e = s.entries[p];
    let d = copy_dst(c, p);
    let dd = d.drop_last();
    let m = or_mode(c.dmode, s.entries[p.drop_last()].mode);
    if !s.entries.contains_key(dd) { lemma_mk_all_frame(s, dd, m, dd.len(), d); assert(!in_sub(d, dd)); }
}
//@ obligation lemma_copy_step_places props=C09,C06
// composition: a path that is not at or above any destination path is untouched by the whole copy -- "nothing outside the destination changes"
pub proof fn theorem_copy_frame(s: St, c: CopyV, items: Seq<ItemV>, k: nat, q: PathV)
    requires k <= items.len(), forall|j: int| 0 <= j < k ==> !in_sub(q, copy_dst(c, #[trigger] items[j].path))
    ensures ent_of(copy_fold(s, c, items, k), q) == ent_of(s, q), file_of(copy_fold(s, c, items, k), q) == file_of(s, q)     //@ clause copy.nothing_outside_the_destination_changes [C09]
    decreases k
{
    if k > 0 {
        theorem_copy_frame(s, c, items, (k - 1) as nat, q);
        lemma_copy_step_frame(copy_fold(s, c, items, (k - 1) as nat), c, items[k - 1].path, q);
    }
}
//@ obligation theorem_copy_frame props=C09
// composition: the content placed for item i survives to the end if no later destination path is at or below ... above it
pub proof fn theorem_copy_content(s: St, c: CopyV, items: Seq<ItemV>, i: nat, n: nat)
    requires i < n <= items.len(), copy_ok(s, c, items, n),
             !copy_fold(s, c, items, i).entries[items[i as int].path].dir,
             items[i as int].path != copy_dst(c, items[i as int].path),
             forall|j: int| i < j < n ==> !in_sub(copy_dst(c, items[i as int].path), copy_dst(c, #[trigger] items[j].path)),
    ensures ({
        let p = items[i as int].path;
        let d = copy_dst(c, p);
        file_of(copy_fold(s, c, items, n), d) == file_of(copy_fold(s, c, items, i), p)          //@ clause copy.copied_content_survives_to_the_end [C09,C06]
        && copy_fold(s, c, items, i).files.contains_key(p)
    }),
    decreases n - i
{
    let p = items[i as int].path;
    let d = copy_dst(c, p);
    lemma_copy_ok_prefix(s, c, items, (i + 1) as nat, n);
    if n == i + 1 {
        lemma_copy_step_places(copy_fold(s, c, items, i), c, p);
    } else {
        lemma_copy_ok_prefix(s, c, items, (n - 1) as nat, n);
        theorem_copy_content(s, c, items, i, (n - 1) as nat);
        lemma_copy_step_frame(copy_fold(s, c, items, (n - 1) as nat), c, items[n - 1].path, d);
    }
}
pub proof fn lemma_copy_ok_prefix(s: St, c: CopyV, items: Seq<ItemV>, k: nat, n: nat)
    requires k <= n, copy_ok(s, c, items, n)
    ensures copy_ok(s, c, items, k)
    decreases n - k
{
    if k < n { lemma_copy_ok_prefix(s, c, items, k, (n - 1) as nat); }
}
//@ obligation theorem_copy_content props=C09,C06
//@ obligation lemma_copy_ok_prefix props=C09

//@ item _copy file=src/sys/fs/memfs/vfs.rs block="impl Memfs" fn=_copy props=C09,C03,C06,C05,C01,C12
//@ sig fn _copy(&self, guard: &mut MemfsGuard, cp: sys::CopyOpts) -> RvResult<()>
//@ rw R1 * re⟦\b(cp\.src|cp\.dst|src_root|dst_root) == (cp\.src|cp\.dst|src_root|dst_root)\b⟧ => ⟦\1.eq_abs(&\2)⟧
//@ rw R1 * ⟦_clone_entry(guard, src_root)?⟧ => ⟦_clone_entry(guard, &src_root)?⟧
//@ rw R1 + re⟦dst_root\.mash\(⟧ => ⟦dst_root.mash_rel(⟧
//@ rw R1 * ⟦_symlink(guard, dst_path, src.alt())?⟧ => ⟦_symlink(guard, &dst_path, src.alt())?⟧
//@ rw R1 * ⟦_clone_entry(guard, src.path().dir()?)?⟧ => ⟦_clone_entry(guard, &src.path().dir()?)?⟧
//@ rw R4 + re⟦(\w+)\.or\(⟧ => ⟦opt_or(\1, ⟧
//@ rw R4 * ⟦dst.path.clone_from(&dst_path);⟧ => ⟦dst.path = dst_path.clone();⟧
//@ rw R3 1 for
//@ ins start
    let ghost s0 = guard.st();
//@ endins
//@ ins after ⟦let copy_into = _is_dir(guard, &dst_root);⟧
        let ghost a = src_root@;
        let ghost b = dst_root@;
        let ghost c = CopyV { a: a, b: b, into: copy_into, dmode: dir_mode, fmode: file_mode };
        proof { src_root.ax_abs(); dst_root.ax_abs(); }
//@ endins
//@ ins before ⟦let src_root = _clone_entry(guard, &src_root)?.follow(cp.follow);⟧
        proof { assert(spec_abs(s0.cwd, abs_comps(a)) == Some(a)); assert(spec_abs(s0.cwd, abs_comps(b)) == Some(b)); }
//@ endins
//@ ins before ⟦{ let mut __it1 =⟧
        proof { assert(entry_ok(s0, a)); assert(!s0.entries[a].link); assert(src_root.iv().path == a); }
//@ endins
//@ loop 1
            invariant
                wf(guard.st()), no_links(guard.st()), no_links(s0), abs_stable(s0.cwd), guard.st().cwd == s0.cwd,
                s0 == old(guard).st(),
                __it1.snap() == s0, __it1.root() == a, __it1.cfg() == default_cfg(cp.follow), __it1.idx() <= __it1.items().len(),
                src_root.iv() == (ItemV { path: a, path_ok: true, link: false }),
                dst_root.abs_clean(), dst_root@ == b,
                c == (CopyV { a: a, b: b, into: copy_into, dmode: dir_mode, fmode: file_mode }),
                guard.st() == copy_fold(s0, c, __it1.items(), __it1.idx()), copy_ok(s0, c, __it1.items(), __it1.idx()),
            ensures __it1.idx() == __it1.items().len(),
            decreases __it1.items().len() - __it1.idx()
//@ endloop
//@ ins after ⟦let src = entry?;⟧
            let ghost k0 = (__it1.idx() - 1) as nat;
            let ghost p = src.iv().path;
            let ghost st1 = guard.st();
            let ghost mut s1 = st1;
            let ghost mut s2 = st1;
            let ghost mut e2 = st1.entries[p];
            proof {
                ax_traversal(s0, a, cp.follow);
                assert(__it1.items() == traversal(s0, a, cp.follow));
                assert(src.iv() == traversal(s0, a, cp.follow)[k0 as int]);
                assert(a.take(a.len() as int) =~= a);
                if a.len() > 0 { assert(p.take(a.len() - 1) =~= p.take(a.len() as int).take(a.len() - 1)); assert(a.take(a.len() - 1) =~= a.drop_last()); }
            }
//@ endins
//@ ins after ⟦dst_root.mash_rel(src.path().trim_prefix(src_root.path())) };⟧
            let ghost d = dst_path@;
            proof {
                assert(d == copy_dst(c, p));
                assert(!src.iv().link);
                assert(spec_abs(st1.cwd, abs_comps(p)) == Some(p));
                assert(copy_fold(s0, c, __it1.items(), (k0 + 1) as nat) == copy_step(st1, c, p));
            }
//@ endins
//@ ins after ⟦let src = _clone_entry(guard, src.path())?;⟧
                let ghost e = src.ev();
                proof { assert(entry_ok(st1, p)); assert(e == st1.entries[p]); assert(!e.link); src.path.ax_abs(); }
//@ endins
//@ ins after re⟦_mkdir_m\(guard, &dst_path, [^;]*\)\?;⟧
                    proof { lemma_mk_all_keeps(st1, d, or_mode(c.dmode, e.mode), d.len()); }
//@ endins
//@ ins before re⟦if !guard\.contains_entry\(&dst_(?:path\.dir\(\)\?|dir)\) \{⟧
                    let ghost dd = d.drop_last();
                    proof { if p.len() > 0 { assert(spec_abs(st1.cwd, abs_comps(p.drop_last())) == Some(p.drop_last())); } }
//@ endins
//@ ins before ⟦let mut dst = src.clone();⟧
                    proof {
                        s1 = guard.st();
                        let m = or_mode(c.dmode, st1.entries[p.drop_last()].mode);
                        if !st1.entries.contains_key(dd) { lemma_mk_all_keeps(st1, dd, m, dd.len()); assert(s1 == mk_all(st1, dd, m, dd.len())); } else { assert(s1 == st1); }
                        assert(no_links(s1) && s1.cwd == s0.cwd);
                    }
//@ endins
//@ ins before ⟦_add(guard, dst)?;⟧
                    proof {
                        e2 = dst.ev();
                        assert(e2 == (EntryV { path: d, path_ok: true, mode: kind_mode(e.link, e.file, e.dir, or_mode(c.fmode, e.mode)), ..e }));
                        assert(fresh_entry(e2));
                        assert(!parent_is_link(s1, d)) by { if s1.entries.contains_key(d.drop_last()) { assert(!s1.entries[d.drop_last()].link); } }
                    }
//@ endins
//@ ins after ⟦_add(guard, dst)?;⟧
                    proof {
                        s2 = guard.st();
                        assert(s2 == spec_add_st(s1, e2));
                        assert(wf(s2));
                        assert forall|q: PathV| s2.entries.contains_key(q) implies !(#[trigger] s2.entries[q]).link by {
                            if s1.entries.contains_key(q) { assert(!s1.entries[q].link); }
                            if s1.entries.contains_key(d.drop_last()) { assert(!s1.entries[d.drop_last()].link); }
                        }
                        assert(spec_abs(s2.cwd, abs_comps(p)) == Some(p));
                    }
//@ endins
//@ ins loopend 1
            proof { assert(step_ok(st1, c, p)); }
//@ endins
//@ ins after ⟦guard.insert_file(dst_path, dst_file);⟧
                        proof {
                            assert(file_ok(s2, p)); assert(file_ok(s2, d));
                            assert(s2.entries.contains_key(d) && s2.entries[d].file && !s2.entries[d].link);
                            lemma_put_file_wf(s2, d, s2.files[p]);
                        }
//@ endins
pub fn _copy(guard: &mut MemfsGuard, cp: CopyOpts) -> (r: RvResult<()>)
    requires wf(old(guard).st()), no_links(old(guard).st()), abs_stable(old(guard).st().cwd),
    ensures
        wf(final(guard).st()),                                                                                   //@ clause copy.wf_preserved [C03]
        r is Ok ==> ({
            let s0 = old(guard).st();
            let a = spec_abs(s0.cwd, cp.src.comps());
            let b = spec_abs(s0.cwd, cp.dst.comps());
            &&& a is Some && b is Some
            &&& a->Some_0 == b->Some_0 ==> final(guard).st() == s0                                                  //@ clause copy.onto_itself_is_a_noop [C09]
            &&& a->Some_0 != b->Some_0 ==> ({
                    let c = CopyV { a: a->Some_0, b: b->Some_0, into: s0.entries.contains_key(b->Some_0) && s0.entries[b->Some_0].dir,
                                    dmode: dir_mode_of(cp), fmode: file_mode_of(cp) };
                    let items = traversal(s0, a->Some_0, cp.follow);
                    final(guard).st() == copy_fold(s0, c, items, items.len())                                       //@ clause copy.is_the_fold_of_per_entry_steps [C09,C06]
                    && copy_ok(s0, c, items, items.len())
                })
        }),
//@ body

// =====================================================================================================================
// _chown / _chmod (C11): per-entry application over an (assumed) traversal
//@ struct file=src/sys/fs/chown.rs name=ChownOpts
//@ endstruct
//@ struct file=src/sys/fs/chmod.rs name=ChmodOpts
//@ rw R1 * ⟦String⟧ => ⟦Str⟧
//@ endstruct
impl ChmodOpts {
    #[verifier::external_body]
    pub fn clone(&self) -> (r: ChmodOpts) ensures r == *self { unimplemented!() }
}
pub open spec fn owned(e: EntryV, uid: Option<u32>, gid: Option<u32>) -> EntryV {
    EntryV { uid: match uid { Some(u) => u, None => e.uid }, gid: match gid { Some(g) => g, None => e.gid }, ..e }
}
pub open spec fn chown_step(s: St, p: PathV, uid: Option<u32>, gid: Option<u32>) -> St {
    if s.entries.contains_key(p) { St { entries: s.entries.insert(p, owned(s.entries[p], uid, gid)), ..s } } else { s }
}
pub open spec fn chown_fold(s: St, items: Seq<ItemV>, k: nat, uid: Option<u32>, gid: Option<u32>) -> St decreases k {
    if k == 0 { s } else { chown_step(chown_fold(s, items, (k - 1) as nat, uid, gid), items[k - 1].path, uid, gid) }
}
// changing ids keeps the tree well formed and touches nothing but the uid/gid of that one entry
pub proof fn lemma_chown_step(s: St, p: PathV, uid: Option<u32>, gid: Option<u32>)
    requires wf(s)
    ensures wf(chown_step(s, p, uid, gid)), chown_step(s, p, uid, gid).files == s.files, chown_step(s, p, uid, gid).cwd == s.cwd,
            forall|q: PathV| q != p ==> ent_of(chown_step(s, p, uid, gid), q) == ent_of(s, q),                         //@ clause chown.step_touches_only_the_yielded_entry [C11]
            s.entries.contains_key(p) ==> chown_step(s, p, uid, gid).entries[p] == owned(s.entries[p], uid, gid),      //@ clause chown.step_sets_only_the_given_ids [C11]
{
    let s2 = chown_step(s, p, uid, gid);
    if s.entries.contains_key(p) {
        assert forall|q: PathV| s2.entries.contains_key(q) implies #[trigger] entry_ok(s2, q) by {
            assert(entry_ok(s, q));
            if q.len() > 0 { assert(entry_ok(s, q.drop_last()) || true); }
        }
        assert forall|q: PathV, n: Name| #[trigger] kids_ok(s2, q, n) by { assert(kids_ok(s, q, n)); }
        assert forall|q: PathV| #[trigger] file_ok(s2, q) by { assert(file_ok(s, q)); }
        assert(entry_ok(s, root()));
    }
}
//@ obligation lemma_chown_step props=C11,C03
// composition: an entry whose path the traversal never yields keeps everything, ids included
pub proof fn theorem_chown_frame(s: St, items: Seq<ItemV>, k: nat, uid: Option<u32>, gid: Option<u32>, q: PathV)
    requires wf(s), k <= items.len(), forall|j: int| 0 <= j < k ==> (#[trigger] items[j]).path != q
    ensures ent_of(chown_fold(s, items, k, uid, gid), q) == ent_of(s, q), wf(chown_fold(s, items, k, uid, gid)),
            chown_fold(s, items, k, uid, gid).files == s.files                                                         //@ clause chown.untargeted_entries_and_all_content_unchanged [C11]
    decreases k
{
    if k > 0 {
        theorem_chown_frame(s, items, (k - 1) as nat, uid, gid, q);
        lemma_chown_step(chown_fold(s, items, (k - 1) as nat, uid, gid), items[k - 1].path, uid, gid);
    }
}
//@ obligation theorem_chown_frame props=C11

//@ item _chown file=src/sys/fs/memfs/vfs.rs block="impl Memfs" fn=_chown props=C11,C03,C01,C12,C10
//@ sig fn _chown(&self, opts: ChownOpts) -> RvResult<()>
//@ rw R11 1 ⟦self.entries(&opts.path)?⟧ => ⟦_entries(guard, &opts.path)?⟧
//@ rw R3 1 for
//@ ins start
    let ghost s0 = guard.st();
//@ endins
//@ loop 1
            invariant
                wf(guard.st()), s0 == old(guard).st(), wf(s0),
                __it1.snap() == s0, __it1.idx() <= __it1.items().len(),
                spec_abs(s0.cwd, opts.path.comps()) is Some,
                __it1.root() == spec_abs(s0.cwd, opts.path.comps())->Some_0,
                __it1.cfg() == (TravCfg { follow: opts.follow, max_depth: if opts.recursive { usize::MAX } else { 0 }, ..default_cfg(false) }),
                guard.st() == chown_fold(s0, __it1.items(), __it1.idx(), opts.uid, opts.gid),
            ensures __it1.idx() == __it1.items().len(),
            decreases __it1.items().len() - __it1.idx()
//@ endloop
//@ ins after ⟦let src = entry?;⟧
            let ghost st1 = guard.st();
            let ghost k0 = (__it1.idx() - 1) as nat;
            proof {
                ax_traversal_cfg(s0, __it1.root(), __it1.cfg());
                assert(src.iv() == __it1.items()[k0 as int]);
                assert(chown_fold(s0, __it1.items(), (k0 + 1) as nat, opts.uid, opts.gid) == chown_step(st1, src.iv().path, opts.uid, opts.gid));
                lemma_chown_step(st1, src.iv().path, opts.uid, opts.gid);
            }
//@ endins
pub fn _chown(guard: &mut MemfsGuard, opts: ChownOpts) -> (r: RvResult<()>)
    requires wf(old(guard).st()),
    ensures
        wf(final(guard).st()),                                                                                   //@ clause chown.wf_preserved [C03]
        r is Ok ==> ({
            let s0 = old(guard).st();
            let a = spec_abs(s0.cwd, opts.path.comps());
            &&& a is Some
            &&& ({
                // recursive => unbounded depth, otherwise only the entry itself; follow as requested
                let items = traversal_cfg(s0, a->Some_0, TravCfg { follow: opts.follow, max_depth: if opts.recursive { usize::MAX } else { 0 }, ..default_cfg(false) });
                final(guard).st() == chown_fold(s0, items, items.len(), opts.uid, opts.gid)                       //@ clause chown.sets_ids_on_exactly_the_yielded_entries [C11]
            })
        }),
//@ body

// ---- chmod
// ASSUMED[mode-contract]: sys::mode(entry, octal, sym) is a function of the entry's kind flags, its mode, the octal value and the expression
// (proved equal to the documented grammar's interpreter in unit chmod_mode); revoking_mode as proved there
pub uninterp spec fn spec_mode(link: bool, dir: bool, file: bool, mode: u32, octal: u32, sym: Seq<char>) -> Option<u32>;
#[verifier::external_body]
pub fn sys_mode(e: &VfsEntry, octal: u32, sym: &Str) -> (r: RvResult<u32>)
    ensures r is Ok == spec_mode(e.iv().link, e.xdir(), e.xfile(), e.xmode(), octal, sym@) is Some,
            r is Ok ==> r->Ok_0 == spec_mode(e.iv().link, e.xdir(), e.xfile(), e.xmode(), octal, sym@)->Some_0
{ unimplemented!() }
pub open spec fn revoking(old: u32, new: u32) -> bool { old & 0o0500 > new & 0o0500 || old & 0o0050 > new & 0o0050 || old & 0o0005 > new & 0o0005 }
#[verifier::external_body]
pub fn revoking_mode(old: u32, new: u32) -> (r: bool) ensures r == revoking(old, new) { unimplemented!() }
pub open spec fn with_mode(s: St, p: PathV, m: u32) -> St {
    if s.entries.contains_key(p) { let e = s.entries[p]; St { entries: s.entries.insert(p, EntryV { mode: kind_mode(e.link, e.file, e.dir, Some(m)), ..e }), ..s } } else { s }
}
pub proof fn lemma_with_mode_wf(s: St, p: PathV, m: u32)
    requires wf(s)
    ensures wf(with_mode(s, p, m)), with_mode(s, p, m).files == s.files, with_mode(s, p, m).cwd == s.cwd,
            forall|q: PathV| q != p ==> ent_of(with_mode(s, p, m), q) == ent_of(s, q),       //@ clause chmod.step_touches_only_the_yielded_entry [C11]
{
    let s2 = with_mode(s, p, m);
    if s.entries.contains_key(p) {
        assert forall|q: PathV| s2.entries.contains_key(q) implies #[trigger] entry_ok(s2, q) by { assert(entry_ok(s, q)); }
        assert forall|q: PathV, n: Name| #[trigger] kids_ok(s2, q, n) by { assert(kids_ok(s, q, n)); }
        assert forall|q: PathV| #[trigger] file_ok(s2, q) by { assert(file_ok(s, q)); }
        assert(entry_ok(s, root()));
    }
}
//@ obligation lemma_with_mode_wf props=C11,C03
// the on-the-way-out step of chmod for one yielded entry: directories get the mode computed from the `dirs` octal / the expression,
// files from the `files` octal / the expression, anything else nothing; a symlink is only touched when following; mode 0 = nothing to do
pub open spec fn chmod_step(s: St, link: bool, dir: bool, file: bool, mode: u32, p: PathV, o: ChmodOpts) -> Option<St> {
    let m2 = if dir { spec_mode(link, dir, file, mode, o.dirs, o.sym@) } else if file { spec_mode(link, dir, file, mode, o.files, o.sym@) } else { Some(0u32) };
    match m2 {
        None => None,
        Some(v) => Some(if (!link || o.follow) && v != mode && v != 0 { with_mode(s, p, v) } else { s }),
    }
}
// the on-the-way-in step (pre_op): only directories, only when the new mode takes no read/execute bit away (granting first)
pub open spec fn chmod_pre_step(s: St, link: bool, dir: bool, file: bool, mode: u32, p: PathV, o: ChmodOpts) -> Option<St> {
    match spec_mode(link, dir, file, mode, o.dirs, o.sym@) {
        None => None,
        Some(v) => Some(if (!link || o.follow) && dir && v != 0 && !revoking(mode, v) && mode != v { with_mode(s, p, v) } else { s }),      // 0 = no directory mode requested: nothing to do
    }
}

//@ item chmod_pre_op file=src/sys/fs/memfs/vfs.rs block="impl Memfs" fn=_chmod closure=1 props=C11,C03,C10,C01,C12
//@ sig closure |x| in fn _chmod(&self, opts: ChmodOpts) -> RvResult<()>
//@ rw R8 + re⟦\bsys::mode\(⟧ => ⟦sys_mode(⟧
//@ rw R8 + re⟦\bsys::revoking_mode\(⟧ => ⟦revoking_mode(⟧
//@ rw R11 1 ⟦let mut guard = vfs.write_guard();⟧ => ⟦⟧
//@ ins start
    let ghost s0 = guard.st();
    proof { if x.iv().path_ok { } }
//@ endins
//@ ins before ⟦Ok(())⟧
    proof { lemma_with_mode_wf(s0, x.iv().path, m1); }
//@ endins
// R13: the boxed closure `move |x| { .. }` handed to Entries::pre_op becomes a function; its captures `m` (a clone of the options)
// and `vfs` (a clone of the handle, used only to take the write guard) become the parameters `m` and `guard`
pub fn chmod_pre_op(x: &VfsEntry, m: &ChmodOpts, guard: &mut MemfsGuard) -> (r: RvResult<()>)
    requires wf(old(guard).st()), x.iv().path_ok,
    ensures
        wf(final(guard).st()), final(guard).st().cwd == old(guard).st().cwd,                                      //@ clause chmod.pre_op_keeps_wf [C03]
        r is Err ==> final(guard).st() == old(guard).st(),
        ({
            let st = chmod_pre_step(old(guard).st(), x.iv().link, x.xdir(), x.xfile(), x.xmode(), x.iv().path, *m);
            &&& (r is Ok) == (st is Some)
            &&& r is Ok ==> final(guard).st() == st->Some_0                                                       //@ clause chmod.pre_op_grants_directory_mode_only_when_not_revoking [C11]
        }),
//@ body

//@ item _chmod file=src/sys/fs/memfs/vfs.rs block="impl Memfs" fn=_chmod props=C11,C03,C10,C01,C12
//@ sig fn _chmod(&self, opts: ChmodOpts) -> RvResult<()>
//@ rw R11 1 ⟦self.entries(&opts.path)?⟧ => ⟦_entries(guard, &opts.path)?⟧
//@ rw R11 1 ⟦let vfs = self.clone();⟧ => ⟦⟧
//@ rw R13 1 re⟦\.pre_op\(move \|x\| \{.*?\}\);⟧ => ⟦.pre_op_set();⟧
//@ rw R8 + re⟦\bsys::mode\(⟧ => ⟦sys_mode(⟧
//@ rw R3 1 for
//@ rw R13 1 ⟦__it1.next()⟧ => ⟦__it1.next_g(guard)⟧
//@ loop 1
            invariant wf(guard.st()), guard.st().cwd_ok,
            decreases __it1.items().len() - __it1.idx()
//@ endloop
//@ ins after ⟦let src = entry?;⟧
            let ghost st1 = guard.st();
            proof { ax_traversal_cfg(__it1.snap(), __it1.root(), __it1.cfg()); assert(src.iv().path_ok); }
//@ endins
//@ ins loopend 1
            proof {
                let st = chmod_step(st1, src.iv().link, src.xdir(), src.xfile(), src.xmode(), src.iv().path, opts);
                assert(st is Some && guard.st() == st->Some_0);      //@ clause chmod.applies_the_kind_specific_mode_to_each_yielded_entry [C11]
                if m2 != 0 { lemma_with_mode_wf(st1, src.iv().path, m2); }
            }
//@ endins
pub fn _chmod(guard: &mut MemfsGuard, opts: ChmodOpts) -> (r: RvResult<()>)
    requires wf(old(guard).st()),
    ensures wf(final(guard).st()),                                                                                //@ clause chmod.wf_preserved [C03]
//@ body

// =====================================================================================================================
// read_all / read_lines (C06): decoding of the stored bytes, and the round trip with write_lines
// ASSUMED[str-utf8-bytes]: UTF-8 decoding is the inverse of encoding
pub uninterp spec fn decode(b: Seq<u8>) -> Option<Seq<char>>;
#[verifier::external_body]
pub proof fn ax_utf8_roundtrip(s: Seq<char>) ensures decode(utf8(s)) == Some(s) { }
#[verifier::external_body]
pub proof fn ax_decode_inverse(b: Seq<u8>) ensures decode(b) is Some ==> utf8(decode(b)->Some_0) == b { }
// BufRead::lines (std docs): split at every '\n'; a final piece without terminator is a line, an empty final piece is not; one trailing
// '\r' directly before the '\n' is removed as well
pub open spec fn first_nl(t: Seq<char>, i: int) -> int decreases t.len() - i {
    if i >= t.len() { t.len() as int } else if t[i] == '\n' { i } else { first_nl(t, i + 1) }
}
pub open spec fn strip_cr(l: Seq<char>) -> Seq<char> { if l.len() > 0 && l.last() == '\r' { l.drop_last() } else { l } }
pub proof fn lemma_first_nl(t: Seq<char>, i: int)
    requires 0 <= i <= t.len()
    ensures i <= first_nl(t, i) <= t.len(), first_nl(t, i) < t.len() ==> t[first_nl(t, i)] == '\n',
            forall|j: int| i <= j < first_nl(t, i) ==> t[j] != '\n'
    decreases t.len() - i
{
    if i < t.len() && t[i] != '\n' { lemma_first_nl(t, i + 1); }
}
pub open spec fn split_lines(t: Seq<char>) -> Seq<Seq<char>> decreases t.len() via split_lines_dec {
    if t.len() == 0 { Seq::empty() } else {
        let i = first_nl(t, 0);
        if i >= t.len() { seq![t] } else { seq![strip_cr(t.take(i))] + split_lines(t.skip(i + 1)) }
    }
}
#[via_fn]
proof fn split_lines_dec(t: Seq<char>) { if t.len() > 0 { lemma_first_nl(t, 0); } }
pub open spec fn plain_line(l: Seq<char>) -> bool { (forall|j: int| 0 <= j < l.len() ==> l[j] != '\n') && !(l.len() > 0 && l.last() == '\r') }
// text that starts with a plain line followed by '\n'
pub proof fn lemma_split_head(l: Seq<char>, rest: Seq<char>)
    requires plain_line(l)
    ensures split_lines(l + seq!['\n'] + rest) == seq![l] + split_lines(rest)
{
    let t = l + seq!['\n'] + rest;
    lemma_first_nl(t, 0);
    let i = first_nl(t, 0);
    assert(t[l.len() as int] == '\n');
    assert(i == l.len()) by {
        if i < l.len() { assert(t[i] == l[i]); }
        if i > l.len() { assert(t[l.len() as int] != '\n'); }
    }
    assert(t.take(i) =~= l);
    assert(t.skip(i + 1) =~= rest);
}
// front view of "every line followed by one newline"
pub proof fn lemma_each_line_front(ls: Seq<Seq<char>>)
    requires ls.len() > 0
    ensures each_line_nl(ls) =~= ls[0] + seq!['\n'] + each_line_nl(ls.skip(1))
    decreases ls.len()
{
    if ls.len() == 1 {
        assert(ls.drop_last() =~= Seq::<Seq<char>>::empty());
        assert(ls.skip(1) =~= Seq::<Seq<char>>::empty());
    } else {
        lemma_each_line_front(ls.drop_last());
        assert(ls.drop_last().skip(1) =~= ls.skip(1).drop_last());
        assert(ls.drop_last()[0] == ls[0]);
        assert(ls.skip(1).last() == ls.last());
    }
}
// ROUND TRIP: reading back what write_lines stored gives the lines, for lines without terminators (empty lines included, except that
// write_lines of nothing but empty text writes nothing: that case is excluded by its own contract)
pub proof fn theorem_lines_roundtrip(ls: Seq<Seq<char>>)
    requires forall|i: int| 0 <= i < ls.len() ==> plain_line(#[trigger] ls[i])
    ensures split_lines(each_line_nl(ls)) =~= ls,                                              //@ clause lines.read_lines_of_write_lines_is_identity [C06]
            ls.len() > 0 ==> split_lines(join_nl(ls) + seq!['\n']) =~= ls,
    decreases ls.len()
{
    if ls.len() > 0 {
        lemma_each_line_front(ls);
        theorem_lines_roundtrip(ls.skip(1));
        lemma_split_head(ls[0], each_line_nl(ls.skip(1)));
        assert(seq![ls[0]] + ls.skip(1) =~= ls);
        lemma_join_is_one_newline_per_line(ls);
    } else {
        assert(each_line_nl(ls) =~= Seq::<char>::empty());
    }
}
//@ obligation lemma_first_nl props=C06
//@ obligation lemma_split_head props=C06
//@ obligation lemma_each_line_front props=C06
//@ obligation theorem_lines_roundtrip props=C06
impl Str {
}
impl MemfsFile {
    // ASSUMED[io-read-to-string]: Read::read_to_string appends the UTF-8 decoding of all bytes from the position to the end (delivered by
    // MemfsFile::read, proved in unit memfs_file) and fails on invalid UTF-8
    #[verifier::external_body]
    pub fn read_to_string(&mut self, buf: &mut Str) -> (r: RvResult<usize>)
        requires old(self).pos as int <= old(self).data@.len()
        ensures (r is Ok) == (decode(old(self).data@.skip(old(self).pos as int)) is Some),
                r is Ok ==> final(buf)@ == old(buf)@ + decode(old(self).data@.skip(old(self).pos as int))->Some_0,
    { unimplemented!() }
}
// ASSUMED[bufread-lines]: BufReader::new(r).lines() yields split_lines(decoded content), each Ok, when the content is valid UTF-8
pub enum LineRes { L(Str), E }
#[verifier::external_body]
pub fn buf_lines(f: MemfsFile) -> (r: DeIter<RvResult<Str>>)
    requires f.pos as int <= f.data@.len()
    ensures decode(f.data@.skip(f.pos as int)) is Some ==> ({
                let ls = split_lines(decode(f.data@.skip(f.pos as int))->Some_0);
                r.rest().len() == ls.len() && forall|i: int| 0 <= i < ls.len() ==> (#[trigger] r.rest()[i]) is Ok && r.rest()[i]->Ok_0@ == ls[i] })
{ unimplemented!() }

//@ item read_all file=src/sys/fs/memfs/vfs.rs block="impl VirtualFileSystem for Memfs" fn=read_all props=C06,C01,C05,C12,C20
//@ rw R11 1 ⟦self.read(path)⟧ => ⟦read(guard, path)⟧
//@ rw R1 * ⟦String::new()⟧ => ⟦Str::new()⟧
//@ ins before ⟦file.read_to_string(&mut buf)?;⟧
                proof { assert(file.data@.skip(0) =~= file.data@); assert(buf@ + decode(file.data@)->Some_0 =~= decode(file.data@)->Some_0); }
//@ endins
pub fn read_all(guard: &MemfsGuard, path: &PathBuf) -> (r: RvResult<Str>)
    requires wf(guard.st()),
    ensures ({
        let s = guard.st();
        let a = spec_abs(s.cwd, path.comps());
        &&& (a is None || !s.files.contains_key(a->Some_0)) ==> r is Err
        &&& (a is Some && s.files.contains_key(a->Some_0)) ==> (r is Ok) == (decode(s.files[a->Some_0].data) is Some)
        &&& (a is Some && r is Ok) ==> decode(s.files[a->Some_0].data) == Some(r->Ok_0@)              //@ clause read_all.returns_the_decoded_stored_bytes [C06]
    }),
//@ body

// read() as used by read_lines: the handle is positioned at 0, so "from the position to the end" is the whole content
pub fn read_at0(guard: &MemfsGuard, path: &PathBuf) -> (r: RvResult<MemfsFile>)
    requires guard.st().cwd_ok, wf(guard.st()),
    ensures ({
        let s = guard.st();
        let a = spec_abs(s.cwd, path.comps());
        &&& (a is Some && s.files.contains_key(a->Some_0)) ==> r is Ok && r->Ok_0.data@.skip(r->Ok_0.pos as int) == s.files[a->Some_0].data && r->Ok_0.pos == 0
        &&& (a is Some && !s.files.contains_key(a->Some_0)) ==> r is Err
        &&& a is None ==> r is Err
    }),
{
    let r = read(guard, path);
    proof { if r is Ok { assert(r->Ok_0.data@.skip(0) =~= r->Ok_0.data@); } }
    r
}
//@ item read_lines file=src/sys/fs/memfs/vfs.rs block="impl VirtualFileSystem for Memfs" fn=read_lines props=C06,C01,C05,C12,C20
//@ rw R9 1 ⟦let mut lines = vec![];⟧ => ⟦let mut lines: Vec<Str> = Vec::new();⟧
//@ rw R4 * ⟦BufReader::new(self.read(path)?).lines()⟧ => ⟦buf_lines(read_at0(guard, path)?)⟧
//@ rw R3 1 for
//@ ins after ⟦{ let mut __it1 = buf_lines(read_at0(guard, path)?);⟧
        let ghost all = __it1.rest();
        let ghost mut k: int = 0;
        let ghost dec = decode(guard.st().files[spec_abs(guard.st().cwd, path.comps())->Some_0].data);
//@ endins
//@ loop 1
            invariant 0 <= k <= all.len(), __it1.rest() == all.skip(k), lines@.len() == k,
                      spec_abs(guard.st().cwd, path.comps()) is Some, guard.st().files.contains_key(spec_abs(guard.st().cwd, path.comps())->Some_0),
                      dec == decode(guard.st().files[spec_abs(guard.st().cwd, path.comps())->Some_0].data),
                      dec is Some ==> all.len() == split_lines(dec->Some_0).len()
                          && forall|i: int| 0 <= i < all.len() ==> (#[trigger] all[i]) is Ok && all[i]->Ok_0@ == split_lines(dec->Some_0)[i],
                      forall|i: int| 0 <= i < k ==> (#[trigger] all[i]) is Ok,
                      forall|i: int| 0 <= i < k ==> (#[trigger] lines@[i])@ == all[i]->Ok_0@,
            ensures k == all.len(),
            decreases all.len() - k
//@ endloop
//@ ins after ⟦None => break };⟧
            proof { assert(line == all[k]); }
            let ghost before = lines@;
//@ endins
//@ ins loopend 1
            proof {
                assert(lines@ =~= before.push(all[k]->Ok_0));
                assert forall|i: int| 0 <= i < k + 1 implies (#[trigger] lines@[i])@ == all[i]->Ok_0@ by { if i < k { assert(lines@[i] == before[i]); } }
                k = k + 1;
            }
//@ endins
pub fn read_lines(guard: &MemfsGuard, path: &PathBuf) -> (r: RvResult<Vec<Str>>)
    requires wf(guard.st()),
    ensures ({
        let s = guard.st();
        let a = spec_abs(s.cwd, path.comps());
        &&& (a is None || !s.files.contains_key(a->Some_0)) ==> r is Err
        &&& (a is Some && s.files.contains_key(a->Some_0) && decode(s.files[a->Some_0].data) is Some) ==>
                r is Ok && views(r->Ok_0@) =~= split_lines(decode(s.files[a->Some_0].data)->Some_0)          //@ clause read_lines.returns_the_lines_of_the_decoded_content [C06]
    }),
//@ body

// =====================================================================================================================
// builders: the options a fresh Chmod / Chown / Copier starts from (the provider callback `exec` is dropped: R9, boxed closure)
// R9: the structs without their `exec: Box<dyn Fn(..)>` field
pub struct Chmod { pub opts: ChmodOpts }
pub struct Chown { pub opts: ChownOpts }
pub struct Copier { pub opts: CopyOpts }
//@ item chmod_b file=src/sys/fs/memfs/vfs.rs block="impl VirtualFileSystem for Memfs" fn=chmod_b props=C11,C05,C12
//@ rw R11 1 ⟦self.abs(path)?⟧ => ⟦_abs(guard, path)?⟧
//@ rw R9 1 ⟦let vfs = self.clone();⟧ => ⟦⟧
//@ rw R9 1 re⟦let exec_func = move \|[^|]*\| -> RvResult<\(\)> \{[^}]*\};⟧ => ⟦⟧
//@ rw R9 1 ⟦exec: Box::new(exec_func),⟧ => ⟦⟧
//@ rw R1 * ⟦"".to_string()⟧ => ⟦Str::new()⟧
pub fn chmod_b(guard: &MemfsGuard, path: &PathBuf) -> (r: RvResult<Chmod>)
    requires guard.st().cwd_ok
    ensures (r is Ok) == (spec_abs(guard.st().cwd, path.comps()) is Some),
            r is Ok ==> ({
                let o = r->Ok_0.opts;
                // chmod is recursive by default, does not follow links, and starts with no octal modes and no expression
                &&& o.path@ == spec_abs(guard.st().cwd, path.comps())->Some_0 && o.path.abs_clean() && o.path.comps() == abs_comps(o.path@)
                &&& o.dirs == 0 && o.files == 0 && !o.follow && o.recursive && o.sym@ == Seq::<char>::empty()     //@ clause chmod_b.defaults [C11]
            }),
//@ body
//@ item chown_b file=src/sys/fs/memfs/vfs.rs block="impl VirtualFileSystem for Memfs" fn=chown_b props=C11,C05,C12
//@ rw R11 * ⟦self.abs(path)?⟧ => ⟦_abs(guard, path)?⟧
//@ rw R9 1 ⟦let vfs = self.clone();⟧ => ⟦⟧
//@ rw R9 1 re⟦let exec_func = move \|[^|]*\| -> RvResult<\(\)> \{[^}]*\};⟧ => ⟦⟧
//@ rw R9 1 ⟦exec: Box::new(exec_func),⟧ => ⟦⟧
pub fn chown_b(guard: &MemfsGuard, path: &PathBuf) -> (r: RvResult<Chown>)
    requires guard.st().cwd_ok
    ensures (r is Ok) == (spec_abs(guard.st().cwd, path.comps()) is Some),
            r is Ok ==> ({
                let o = r->Ok_0.opts;
                &&& o.path@ == spec_abs(guard.st().cwd, path.comps())->Some_0 && o.path.abs_clean() && o.path.comps() == abs_comps(o.path@)
                &&& o.uid is None && o.gid is None && !o.follow && o.recursive                                     //@ clause chown_b.defaults [C11]
            }),
//@ body
//@ item copy_b file=src/sys/fs/memfs/vfs.rs block="impl VirtualFileSystem for Memfs" fn=copy_b props=C09,C12
//@ rw R9 1 ⟦let vfs = self.clone();⟧ => ⟦⟧
//@ rw R9 1 re⟦let exec_func = move \|[^|]*\| -> RvResult<\(\)> \{.*?\n        \};⟧ => ⟦⟧
//@ rw R9 1 ⟦exec: Box::new(exec_func),⟧ => ⟦⟧
//@ rw R8 * ⟦sys::CopyOpts {⟧ => ⟦CopyOpts {⟧
// ASSUMED[derive-default]: Default::default() is None for Option<u32> and false for bool
//@ rw R4 * ⟦mode: Default::default(),⟧ => ⟦mode: None,⟧
//@ rw R4 3 re⟦(cdirs|cfiles|follow): Default::default\(\),⟧ => ⟦\1: false,⟧
pub fn copy_b(src: &PathBuf, dst: &PathBuf) -> (r: RvResult<Copier>)
    ensures r is Ok && ({
                let o = r->Ok_0.opts;
                // a fresh Copier copies src to dst as given, selects no mode and does not follow links
                &&& same_path(o.src, *src) && same_path(o.dst, *dst)
                &&& o.mode is None && !o.cdirs && !o.cfiles && !o.follow                                          //@ clause copy_b.defaults [C09]
            }),
//@ body

// ---- remaining one-line queries
// MemfsEntry::upcast (proved in unit entry_follow) seen through the traversal-entry view
impl MemfsEntry {
    #[verifier::external_body]
    pub fn upcast(self) -> (r: VfsEntry) ensures r.iv() == (ItemV { path: self.path@, path_ok: self.path.abs_clean(), link: self.link }),
        r.xmode() == self.mode, r.xdir() == self.dir, r.xfile() == self.file { unimplemented!() }
}
//@ item cwd file=src/sys/fs/memfs/vfs.rs block="impl VirtualFileSystem for Memfs" fn=cwd props=C01,C12
//@ rw R11 1 ⟦Ok(self.read_guard().cwd())⟧ => ⟦Ok(guard.cwd())⟧
pub fn cwd(guard: &MemfsGuard) -> (r: RvResult<PathBuf>)
    ensures r is Ok && r->Ok_0@ == guard.st().cwd && r->Ok_0.abs_clean() == guard.st().cwd_ok     //@ clause cwd.returns_the_stored_cwd [C01]
//@ body
//@ item root file=src/sys/fs/memfs/vfs.rs block="impl VirtualFileSystem for Memfs" fn=root props=C01,C12
//@ rw R11 1 ⟦self.read_guard().root()⟧ => ⟦guard.root()⟧
pub fn root_(guard: &MemfsGuard) -> (r: PathBuf)
    ensures r@ == root() && r.abs_clean()     //@ clause root.is_the_root [C01]
//@ body
//@ item entry file=src/sys/fs/memfs/vfs.rs block="impl VirtualFileSystem for Memfs" fn=entry props=C01,C05,C12
pub fn entry(guard: &MemfsGuard, path: &PathBuf) -> (r: RvResult<VfsEntry>)
    requires guard.st().cwd_ok
    ensures (r is Ok) == (at(guard.st(), path.comps()) is Some),
            r is Ok ==> ({ let e = at(guard.st(), path.comps())->Some_0;
                           r->Ok_0.iv() == (ItemV { path: e.path, path_ok: e.path_ok, link: e.link }) && r->Ok_0.xmode() == e.mode && r->Ok_0.xdir() == e.dir && r->Ok_0.xfile() == e.file }),     //@ clause entry.is_the_stored_entry [C01]
//@ body

// =====================================================================================================================
// listings (C01 "list"): dirs / files / paths / all_dirs / all_files / all_paths return, in traversal order, the paths of the entries
// yielded by the (assumed) traversal below the directory, with exactly the documented options; anything but a real directory is refused
pub open spec fn paths_of(items: Seq<ItemV>) -> Seq<PathV> { Seq::new(items.len(), |i: int| items[i].path) }
pub open spec fn pviews(v: Seq<PathBuf>) -> Seq<PathV> { Seq::new(v.len(), |i: int| v[i]@) }
pub open spec fn list_cfg(deep: bool, only_dirs: bool, only_files: bool) -> TravCfg {
    TravCfg { min_depth: 1, max_depth: if deep { usize::MAX } else { 1 }, sort_by_name: true, only_dirs: only_dirs, only_files: only_files, ..default_cfg(false) }
}
//@ item dirs file=src/sys/fs/memfs/vfs.rs block="impl VirtualFileSystem for Memfs" fn=dirs props=C01,C05,C12
//@ rw R11 1 ⟦self.is_dir(&path)⟧ => ⟦is_dir(guard, path)⟧
//@ rw R11 1 ⟦self.entries(path)?⟧ => ⟦_entries(guard, path)?⟧
//@ rw R9 * ⟦let mut paths: Vec<PathBuf> = vec![];⟧ => ⟦let mut paths: Vec<PathBuf> = Vec::new();⟧
//@ rw R3 1 for
//@ ins before re⟦\{ let mut __it1 =⟧
        let ghost s0 = guard.st();
//@ endins
//@ loop 1
            invariant
                __it1.snap() == s0, s0 == guard.st(), spec_abs(s0.cwd, path.comps()) is Some, __it1.root() == spec_abs(s0.cwd, path.comps())->Some_0,
                at(s0, path.comps()) is Some && at(s0, path.comps())->Some_0.dir && !at(s0, path.comps())->Some_0.link,
                __it1.cfg() == list_cfg(false, true, false), __it1.idx() <= __it1.items().len(),
                paths@.len() == __it1.idx(),
                forall|i: int| 0 <= i < paths@.len() ==> (#[trigger] paths@[i])@ == __it1.items()[i].path,
            ensures __it1.idx() == __it1.items().len(),
            decreases __it1.items().len() - __it1.idx()
//@ endloop
//@ ins after ⟦let entry = entry?;⟧
            let ghost before = paths@;
            let ghost k0 = (__it1.idx() - 1) as int;
            proof { assert(entry.iv() == __it1.items()[k0]); }
//@ endins
//@ ins loopend 1
            proof { assert(paths@ =~= before.push(paths@[k0])); assert forall|i: int| 0 <= i < paths@.len() implies (#[trigger] paths@[i])@ == __it1.items()[i].path by { if i < k0 { assert(paths@[i] == before[i]); } } }
//@ endins
pub fn dirs(guard: &MemfsGuard, path: &PathBuf) -> (r: RvResult<Vec<PathBuf>>)
    requires guard.st().cwd_ok
    ensures ({
        let s = guard.st();
        let e = at(s, path.comps());
        &&& !(e is Some && e->Some_0.dir && !e->Some_0.link) ==> r is Err && r->Err_0.kind == ErrKind::IsNotDir                      //@ clause dirs.refuses_anything_but_a_directory [C01]
        &&& r is Ok ==> pviews(r->Ok_0@) =~= paths_of(traversal_cfg(s, spec_abs(s.cwd, path.comps())->Some_0, list_cfg(false, true, false)))     //@ clause dirs.lists_the_traversal_with_the_documented_options [C01]
    }),
//@ body
//@ item files file=src/sys/fs/memfs/vfs.rs block="impl VirtualFileSystem for Memfs" fn=files props=C01,C05,C12
//@ rw R11 1 ⟦self.is_dir(&path)⟧ => ⟦is_dir(guard, path)⟧
//@ rw R11 1 ⟦self.entries(path)?⟧ => ⟦_entries(guard, path)?⟧
//@ rw R9 * ⟦let mut paths: Vec<PathBuf> = vec![];⟧ => ⟦let mut paths: Vec<PathBuf> = Vec::new();⟧
//@ rw R3 1 for
//@ ins before re⟦\{ let mut __it1 =⟧
        let ghost s0 = guard.st();
//@ endins
//@ loop 1
            invariant
                __it1.snap() == s0, s0 == guard.st(), spec_abs(s0.cwd, path.comps()) is Some, __it1.root() == spec_abs(s0.cwd, path.comps())->Some_0,
                at(s0, path.comps()) is Some && at(s0, path.comps())->Some_0.dir && !at(s0, path.comps())->Some_0.link,
                __it1.cfg() == list_cfg(false, false, true), __it1.idx() <= __it1.items().len(),
                paths@.len() == __it1.idx(),
                forall|i: int| 0 <= i < paths@.len() ==> (#[trigger] paths@[i])@ == __it1.items()[i].path,
            ensures __it1.idx() == __it1.items().len(),
            decreases __it1.items().len() - __it1.idx()
//@ endloop
//@ ins after ⟦let entry = entry?;⟧
            let ghost before = paths@;
            let ghost k0 = (__it1.idx() - 1) as int;
            proof { assert(entry.iv() == __it1.items()[k0]); }
//@ endins
//@ ins loopend 1
            proof { assert(paths@ =~= before.push(paths@[k0])); assert forall|i: int| 0 <= i < paths@.len() implies (#[trigger] paths@[i])@ == __it1.items()[i].path by { if i < k0 { assert(paths@[i] == before[i]); } } }
//@ endins
pub fn files(guard: &MemfsGuard, path: &PathBuf) -> (r: RvResult<Vec<PathBuf>>)
    requires guard.st().cwd_ok
    ensures ({
        let s = guard.st();
        let e = at(s, path.comps());
        &&& !(e is Some && e->Some_0.dir && !e->Some_0.link) ==> r is Err && r->Err_0.kind == ErrKind::IsNotDir                      //@ clause files.refuses_anything_but_a_directory [C01]
        &&& r is Ok ==> pviews(r->Ok_0@) =~= paths_of(traversal_cfg(s, spec_abs(s.cwd, path.comps())->Some_0, list_cfg(false, false, true)))     //@ clause files.lists_the_traversal_with_the_documented_options [C01]
    }),
//@ body
//@ item paths file=src/sys/fs/memfs/vfs.rs block="impl VirtualFileSystem for Memfs" fn=paths props=C01,C05,C12
//@ rw R11 1 ⟦self.is_dir(&path)⟧ => ⟦is_dir(guard, path)⟧
//@ rw R11 1 ⟦self.entries(path)?⟧ => ⟦_entries(guard, path)?⟧
//@ rw R9 * ⟦let mut paths: Vec<PathBuf> = vec![];⟧ => ⟦let mut paths: Vec<PathBuf> = Vec::new();⟧
//@ rw R3 1 for
//@ ins before re⟦\{ let mut __it1 =⟧
        let ghost s0 = guard.st();
//@ endins
//@ loop 1
            invariant
                __it1.snap() == s0, s0 == guard.st(), spec_abs(s0.cwd, path.comps()) is Some, __it1.root() == spec_abs(s0.cwd, path.comps())->Some_0,
                at(s0, path.comps()) is Some && at(s0, path.comps())->Some_0.dir && !at(s0, path.comps())->Some_0.link,
                __it1.cfg() == list_cfg(false, false, false), __it1.idx() <= __it1.items().len(),
                paths@.len() == __it1.idx(),
                forall|i: int| 0 <= i < paths@.len() ==> (#[trigger] paths@[i])@ == __it1.items()[i].path,
            ensures __it1.idx() == __it1.items().len(),
            decreases __it1.items().len() - __it1.idx()
//@ endloop
//@ ins after ⟦let entry = entry?;⟧
            let ghost before = paths@;
            let ghost k0 = (__it1.idx() - 1) as int;
            proof { assert(entry.iv() == __it1.items()[k0]); }
//@ endins
//@ ins loopend 1
            proof { assert(paths@ =~= before.push(paths@[k0])); assert forall|i: int| 0 <= i < paths@.len() implies (#[trigger] paths@[i])@ == __it1.items()[i].path by { if i < k0 { assert(paths@[i] == before[i]); } } }
//@ endins
pub fn paths(guard: &MemfsGuard, path: &PathBuf) -> (r: RvResult<Vec<PathBuf>>)
    requires guard.st().cwd_ok
    ensures ({
        let s = guard.st();
        let e = at(s, path.comps());
        &&& !(e is Some && e->Some_0.dir && !e->Some_0.link) ==> r is Err && r->Err_0.kind == ErrKind::IsNotDir                      //@ clause paths.refuses_anything_but_a_directory [C01]
        &&& r is Ok ==> pviews(r->Ok_0@) =~= paths_of(traversal_cfg(s, spec_abs(s.cwd, path.comps())->Some_0, list_cfg(false, false, false)))     //@ clause paths.lists_the_traversal_with_the_documented_options [C01]
    }),
//@ body
//@ item all_dirs file=src/sys/fs/memfs/vfs.rs block="impl VirtualFileSystem for Memfs" fn=all_dirs props=C01,C05,C12
//@ rw R11 1 ⟦self.is_dir(&path)⟧ => ⟦is_dir(guard, path)⟧
//@ rw R11 1 ⟦self.entries(path)?⟧ => ⟦_entries(guard, path)?⟧
//@ rw R9 * ⟦let mut paths: Vec<PathBuf> = vec![];⟧ => ⟦let mut paths: Vec<PathBuf> = Vec::new();⟧
//@ rw R3 1 for
//@ ins before re⟦\{ let mut __it1 =⟧
        let ghost s0 = guard.st();
//@ endins
//@ loop 1
            invariant
                __it1.snap() == s0, s0 == guard.st(), spec_abs(s0.cwd, path.comps()) is Some, __it1.root() == spec_abs(s0.cwd, path.comps())->Some_0,
                at(s0, path.comps()) is Some && at(s0, path.comps())->Some_0.dir && !at(s0, path.comps())->Some_0.link,
                __it1.cfg() == list_cfg(true, true, false), __it1.idx() <= __it1.items().len(),
                paths@.len() == __it1.idx(),
                forall|i: int| 0 <= i < paths@.len() ==> (#[trigger] paths@[i])@ == __it1.items()[i].path,
            ensures __it1.idx() == __it1.items().len(),
            decreases __it1.items().len() - __it1.idx()
//@ endloop
//@ ins after ⟦let entry = entry?;⟧
            let ghost before = paths@;
            let ghost k0 = (__it1.idx() - 1) as int;
            proof { assert(entry.iv() == __it1.items()[k0]); }
//@ endins
//@ ins loopend 1
            proof { assert(paths@ =~= before.push(paths@[k0])); assert forall|i: int| 0 <= i < paths@.len() implies (#[trigger] paths@[i])@ == __it1.items()[i].path by { if i < k0 { assert(paths@[i] == before[i]); } } }
//@ endins
pub fn all_dirs(guard: &MemfsGuard, path: &PathBuf) -> (r: RvResult<Vec<PathBuf>>)
    requires guard.st().cwd_ok
    ensures ({
        let s = guard.st();
        let e = at(s, path.comps());
        &&& !(e is Some && e->Some_0.dir && !e->Some_0.link) ==> r is Err && r->Err_0.kind == ErrKind::IsNotDir                      //@ clause all_dirs.refuses_anything_but_a_directory [C01]
        &&& r is Ok ==> pviews(r->Ok_0@) =~= paths_of(traversal_cfg(s, spec_abs(s.cwd, path.comps())->Some_0, list_cfg(true, true, false)))     //@ clause all_dirs.lists_the_traversal_with_the_documented_options [C01]
    }),
//@ body
//@ item all_files file=src/sys/fs/memfs/vfs.rs block="impl VirtualFileSystem for Memfs" fn=all_files props=C01,C05,C12
//@ rw R11 1 ⟦self.is_dir(&path)⟧ => ⟦is_dir(guard, path)⟧
//@ rw R11 1 ⟦self.entries(path)?⟧ => ⟦_entries(guard, path)?⟧
//@ rw R9 * ⟦let mut paths: Vec<PathBuf> = vec![];⟧ => ⟦let mut paths: Vec<PathBuf> = Vec::new();⟧
//@ rw R3 1 for
//@ ins before re⟦\{ let mut __it1 =⟧
        let ghost s0 = guard.st();
//@ endins
//@ loop 1
            invariant
                __it1.snap() == s0, s0 == guard.st(), spec_abs(s0.cwd, path.comps()) is Some, __it1.root() == spec_abs(s0.cwd, path.comps())->Some_0,
                at(s0, path.comps()) is Some && at(s0, path.comps())->Some_0.dir && !at(s0, path.comps())->Some_0.link,
                __it1.cfg() == list_cfg(true, false, true), __it1.idx() <= __it1.items().len(),
                paths@.len() == __it1.idx(),
                forall|i: int| 0 <= i < paths@.len() ==> (#[trigger] paths@[i])@ == __it1.items()[i].path,
            ensures __it1.idx() == __it1.items().len(),
            decreases __it1.items().len() - __it1.idx()
//@ endloop
//@ ins after ⟦let entry = entry?;⟧
            let ghost before = paths@;
            let ghost k0 = (__it1.idx() - 1) as int;
            proof { assert(entry.iv() == __it1.items()[k0]); }
//@ endins
//@ ins loopend 1
            proof { assert(paths@ =~= before.push(paths@[k0])); assert forall|i: int| 0 <= i < paths@.len() implies (#[trigger] paths@[i])@ == __it1.items()[i].path by { if i < k0 { assert(paths@[i] == before[i]); } } }
//@ endins
pub fn all_files(guard: &MemfsGuard, path: &PathBuf) -> (r: RvResult<Vec<PathBuf>>)
    requires guard.st().cwd_ok
    ensures ({
        let s = guard.st();
        let e = at(s, path.comps());
        &&& !(e is Some && e->Some_0.dir && !e->Some_0.link) ==> r is Err && r->Err_0.kind == ErrKind::IsNotDir                      //@ clause all_files.refuses_anything_but_a_directory [C01]
        &&& r is Ok ==> pviews(r->Ok_0@) =~= paths_of(traversal_cfg(s, spec_abs(s.cwd, path.comps())->Some_0, list_cfg(true, false, true)))     //@ clause all_files.lists_the_traversal_with_the_documented_options [C01]
    }),
//@ body
//@ item all_paths file=src/sys/fs/memfs/vfs.rs block="impl VirtualFileSystem for Memfs" fn=all_paths props=C01,C05,C12
//@ rw R11 1 ⟦self.is_dir(&path)⟧ => ⟦is_dir(guard, path)⟧
//@ rw R11 1 ⟦self.entries(path)?⟧ => ⟦_entries(guard, path)?⟧
//@ rw R9 * ⟦let mut paths: Vec<PathBuf> = vec![];⟧ => ⟦let mut paths: Vec<PathBuf> = Vec::new();⟧
//@ rw R3 1 for
//@ ins before re⟦\{ let mut __it1 =⟧
        let ghost s0 = guard.st();
//@ endins
//@ loop 1
            invariant
                __it1.snap() == s0, s0 == guard.st(), spec_abs(s0.cwd, path.comps()) is Some, __it1.root() == spec_abs(s0.cwd, path.comps())->Some_0,
                at(s0, path.comps()) is Some && at(s0, path.comps())->Some_0.dir && !at(s0, path.comps())->Some_0.link,
                __it1.cfg() == list_cfg(true, false, false), __it1.idx() <= __it1.items().len(),
                paths@.len() == __it1.idx(),
                forall|i: int| 0 <= i < paths@.len() ==> (#[trigger] paths@[i])@ == __it1.items()[i].path,
            ensures __it1.idx() == __it1.items().len(),
            decreases __it1.items().len() - __it1.idx()
//@ endloop
//@ ins after ⟦let entry = entry?;⟧
            let ghost before = paths@;
            let ghost k0 = (__it1.idx() - 1) as int;
            proof { assert(entry.iv() == __it1.items()[k0]); }
//@ endins
//@ ins loopend 1
            proof { assert(paths@ =~= before.push(paths@[k0])); assert forall|i: int| 0 <= i < paths@.len() implies (#[trigger] paths@[i])@ == __it1.items()[i].path by { if i < k0 { assert(paths@[i] == before[i]); } } }
//@ endins
pub fn all_paths(guard: &MemfsGuard, path: &PathBuf) -> (r: RvResult<Vec<PathBuf>>)
    requires guard.st().cwd_ok
    ensures ({
        let s = guard.st();
        let e = at(s, path.comps());
        &&& !(e is Some && e->Some_0.dir && !e->Some_0.link) ==> r is Err && r->Err_0.kind == ErrKind::IsNotDir                      //@ clause all_paths.refuses_anything_but_a_directory [C01]
        &&& r is Ok ==> pviews(r->Ok_0@) =~= paths_of(traversal_cfg(s, spec_abs(s.cwd, path.comps())->Some_0, list_cfg(true, false, false)))     //@ clause all_paths.lists_the_traversal_with_the_documented_options [C01]
    }),
//@ body

// =====================================================================================================================
// chown / chmod / copy / mkfile_m as whole calls: builder -> setters -> exec -> provider callback -> _chown / _chmod / _copy.
// R13: `Chown { opts, exec: Box::new(exec_func) }` stores the closure written in chown_b; `(self.exec)(opts)` in X::exec calls it.
// Both ends are real code under contract here (the closure as item *_cb, exec as item *_exec); that the boxed field holds that closure
// is the one structural fact taken from the struct literal (ASSUMED[builder-exec]).
// ASSUMED[builder-setters]: Chown::owner / Chmod::all as proved in unit chmod_opts
impl Chown {
    #[verifier::external_body]
    pub fn owner(self, uid: u32, gid: u32) -> (r: Chown) ensures r.opts == (ChownOpts { uid: Some(uid), gid: Some(gid), ..self.opts }) { unimplemented!() }
    #[verifier::external_body]
    pub fn uid(self, uid: u32) -> (r: Chown) ensures r.opts == (ChownOpts { uid: Some(uid), ..self.opts }) { unimplemented!() }
    #[verifier::external_body]
    pub fn gid(self, gid: u32) -> (r: Chown) ensures r.opts == (ChownOpts { gid: Some(gid), ..self.opts }) { unimplemented!() }
    #[verifier::external_body]
    pub fn follow(self) -> (r: Chown) ensures r.opts == (ChownOpts { follow: true, ..self.opts }) { unimplemented!() }
    #[verifier::external_body]
    pub fn recurse(self, yes: bool) -> (r: Chown) ensures r.opts == (ChownOpts { recursive: yes, ..self.opts }) { unimplemented!() }
}
impl Copier {
    // ASSUMED[builder-setters]: Copier setters as proved in unit copy_opts
    #[verifier::external_body]
    pub fn follow(self, yes: bool) -> (r: Copier) ensures r.opts == (CopyOpts { follow: yes, ..self.opts }) { unimplemented!() }
    #[verifier::external_body]
    pub fn chmod_all(self, mode: u32) -> (r: Copier) ensures r.opts == (CopyOpts { cdirs: false, cfiles: false, mode: Some(mode), ..self.opts }) { unimplemented!() }
}
impl Chmod {
    #[verifier::external_body]
    pub fn all(self, mode: u32) -> (r: Chmod) ensures r.opts == (ChmodOpts { dirs: mode, files: mode, ..self.opts }) { unimplemented!() }
}
impl ChownOpts { #[verifier::external_body] pub fn clone(&self) -> (r: ChownOpts) ensures r == *self { unimplemented!() } }
impl CopyOpts { #[verifier::external_body] pub fn clone(&self) -> (r: CopyOpts) ensures r == *self { unimplemented!() } }
pub open spec fn chown_done(s0: St, s1: St, o: ChownOpts) -> bool {
    let a = spec_abs(s0.cwd, o.path.comps());
    a is Some && ({
        let items = traversal_cfg(s0, a->Some_0, TravCfg { follow: o.follow, max_depth: if o.recursive { usize::MAX } else { 0 }, ..default_cfg(false) });
        s1 == chown_fold(s0, items, items.len(), o.uid, o.gid) })
}
//@ item chown_cb file=src/sys/fs/memfs/vfs.rs block="impl VirtualFileSystem for Memfs" fn=chown_b closure=1 props=C11,C01,C03,C12,C10
//@ rw R11 1 ⟦vfs._chown(opts)⟧ => ⟦_chown(guard, opts)⟧
pub fn chown_cb(guard: &mut MemfsGuard, opts: ChownOpts) -> (r: RvResult<()>)
    requires wf(old(guard).st()),
    ensures wf(final(guard).st()), r is Ok ==> chown_done(old(guard).st(), final(guard).st(), opts),
//@ body
impl Chown {
//@ item chown_exec file=src/sys/fs/chown.rs block="impl Chown" fn=exec props=C11,C01,C03,C12
//@ rw R13 1 ⟦(self.exec)(self.opts.clone())⟧ => ⟦chown_cb(guard, self.opts.clone())⟧
    pub fn exec(&self, guard: &mut MemfsGuard) -> (r: RvResult<()>)
        requires wf(old(guard).st()),
        ensures wf(final(guard).st()), r is Ok ==> chown_done(old(guard).st(), final(guard).st(), self.opts),
//@ body
}
//@ item chown file=src/sys/fs/memfs/vfs.rs block="impl VirtualFileSystem for Memfs" fn=chown props=C11,C01,C03,C05,C12,C10
//@ rw R11 1 ⟦self.chown_b(path)?⟧ => ⟦chown_b(guard, path)?⟧
//@ rw R13 1 re⟦\.exec\(\)⟧ => ⟦.exec(guard)⟧
//@ ins start
    let ghost s0 = guard.st();
//@ endins
pub fn chown(guard: &mut MemfsGuard, path: &PathBuf, uid: u32, gid: u32) -> (r: RvResult<()>)
    requires wf(old(guard).st()), abs_stable(old(guard).st().cwd),
    ensures
        wf(final(guard).st()),
        r is Ok ==> ({
            let s0 = old(guard).st();
            let a = spec_abs(s0.cwd, path.comps());
            &&& a is Some
            // chown(path, uid, gid): recursive, not following links, both ids set on every yielded entry and nothing else
            &&& ({ let items = traversal_cfg(s0, a->Some_0, TravCfg { follow: false, max_depth: usize::MAX, ..default_cfg(false) });
                   final(guard).st() == chown_fold(s0, items, items.len(), Some(uid), Some(gid)) })                                     //@ clause chown.whole_call_is_recursive_non_following_fold [C11,C01]
        }),
//@ body

pub open spec fn copy_done(s0: St, s1: St, o: CopyOpts) -> bool {
    let a = spec_abs(s0.cwd, o.src.comps());
    let b = spec_abs(s0.cwd, o.dst.comps());
    &&& a is Some && b is Some
    &&& a->Some_0 == b->Some_0 ==> s1 == s0
    &&& a->Some_0 != b->Some_0 ==> ({
            let c = CopyV { a: a->Some_0, b: b->Some_0, into: s0.entries.contains_key(b->Some_0) && s0.entries[b->Some_0].dir, dmode: dir_mode_of(o), fmode: file_mode_of(o) };
            let items = traversal(s0, a->Some_0, o.follow);
            s1 == copy_fold(s0, c, items, items.len()) && copy_ok(s0, c, items, items.len()) })
}
//@ item copy_cb file=src/sys/fs/memfs/vfs.rs block="impl VirtualFileSystem for Memfs" fn=copy_b closure=1 props=C09,C01,C03,C12
pub fn copy_cb(guard: &mut MemfsGuard, cp: CopyOpts) -> (r: RvResult<()>)
    requires wf(old(guard).st()), no_links(old(guard).st()), abs_stable(old(guard).st().cwd),
    ensures wf(final(guard).st()), r is Ok ==> copy_done(old(guard).st(), final(guard).st(), cp),
//@ body
impl Copier {
//@ item copy_exec file=src/sys/fs/copy.rs block="impl Copier" fn=exec props=C09,C01,C03,C12
//@ rw R13 1 ⟦(self.exec)(self.opts.clone())⟧ => ⟦copy_cb(guard, self.opts.clone())⟧
    pub fn exec(&self, guard: &mut MemfsGuard) -> (r: RvResult<()>)
        requires wf(old(guard).st()), no_links(old(guard).st()), abs_stable(old(guard).st().cwd),
        ensures wf(final(guard).st()), r is Ok ==> copy_done(old(guard).st(), final(guard).st(), self.opts),
//@ body
}
//@ item copy file=src/sys/fs/memfs/vfs.rs block="impl VirtualFileSystem for Memfs" fn=copy props=C09,C01,C03,C05,C06,C12
//@ rw R11 1 ⟦self.copy_b(src, dst)?⟧ => ⟦copy_b(src, dst)?⟧
//@ rw R13 1 re⟦\.exec\(\)⟧ => ⟦.exec(guard)⟧
pub fn copy(guard: &mut MemfsGuard, src: &PathBuf, dst: &PathBuf) -> (r: RvResult<()>)
    requires wf(old(guard).st()), no_links(old(guard).st()), abs_stable(old(guard).st().cwd),
    ensures
        wf(final(guard).st()),
        // copy(src, dst): no mode selection, links not followed: the fold of per-entry steps over the traversal of abs(src)
        r is Ok ==> ({
            let s0 = old(guard).st();
            let a = spec_abs(s0.cwd, src.comps());
            let b = spec_abs(s0.cwd, dst.comps());
            &&& a is Some && b is Some
            &&& a->Some_0 == b->Some_0 ==> final(guard).st() == s0
            &&& a->Some_0 != b->Some_0 ==> ({
                    let c = CopyV { a: a->Some_0, b: b->Some_0, into: s0.entries.contains_key(b->Some_0) && s0.entries[b->Some_0].dir, dmode: None, fmode: None };
                    let items = traversal(s0, a->Some_0, false);
                    final(guard).st() == copy_fold(s0, c, items, items.len()) && copy_ok(s0, c, items, items.len()) })          //@ clause copy.whole_call_keeps_modes_and_does_not_follow_links [C09,C01]
        }),
//@ body
