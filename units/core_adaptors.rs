//@ unit core_adaptors
//@ props C19 C12
// take_while_p (src/core/peekable.rs) and the defer guard (src/core/defer.rs).  PeekingTakeWhile::next is one call of
// Peekable::next_if (ASSUMED[peekable-next-if]: pops the front item iff the predicate accepts it), so it yields the longest prefix
// satisfying the predicate and leaves the first failing item in the underlying iterator; size_hint must not promise more items than
// that prefix has.  Defer::drop calls its closure once; that drop itself runs once per scope exit, in reverse order of creation and
// also on unwinding, is Rust's Drop guarantee (ASSUMED[drop]).
//@ prelude base errors iter
// ASSUMED[peekable-next-if]: Peekable::next_if(p) pops and returns the front item iff p accepts it, otherwise returns None and leaves the iterator unchanged; peek / next / size_hint as documented
// ASSUMED[callbacks-are-functions]: the predicate of take_while_p and the folding closure answer as functions of their arguments
// ASSUMED[drop]: Rust runs Drop::drop exactly once when a value goes out of scope, in reverse order of declaration, also while unwinding

// a predicate `FnMut(&T) -> bool` whose answer is a function of the item (ASSUMED[callbacks-are-functions])
#[verifier::external_body]
#[verifier::reject_recursive_types(T)]
pub struct PredFn<T> { x: core::marker::PhantomData<T> }
impl<T> PredFn<T> {
    pub uninterp spec fn holds(&self, x: T) -> bool;
    #[verifier::external_body]
    pub fn call(&mut self, x: &T) -> (b: bool) ensures b == old(self).holds(*x), *final(self) == *old(self) { unimplemented!() }
}
// R13 (unit-wide): a direct call of the predicate field
//@ rwall R13 re⟦\(self\.predicate\)\(⟧ => ⟦self.predicate.call(⟧
// std::iter::Peekable<I> seen as the sequence it will still yield
#[verifier::external_body]
#[verifier::reject_recursive_types(T)]
pub struct PeekIt<T> { x: core::marker::PhantomData<T> }
impl<T> PeekIt<T> {
    pub uninterp spec fn rest(&self) -> Seq<T>;
    #[verifier::external_body]
    pub fn next_if(&mut self, p: &mut PredFn<T>) -> (r: Option<T>)
        ensures
            *final(p) == *old(p),
            old(self).rest().len() > 0 && old(p).holds(old(self).rest()[0]) ==> r == Some(old(self).rest()[0]) && final(self).rest() == old(self).rest().skip(1),
            !(old(self).rest().len() > 0 && old(p).holds(old(self).rest()[0])) ==> r is None && final(self).rest() == old(self).rest(),
    { unimplemented!() }
    #[verifier::external_body]
    pub fn peek(&mut self) -> (r: Option<&T>)
        ensures final(self).rest() == old(self).rest(), old(self).rest().len() == 0 ==> r is None, old(self).rest().len() > 0 ==> r is Some && *r->Some_0 == old(self).rest()[0]
    { unimplemented!() }
    #[verifier::external_body]
    pub fn next(&mut self) -> (r: Option<T>)
        ensures old(self).rest().len() == 0 ==> r is None && final(self).rest() == old(self).rest(),
                old(self).rest().len() > 0 ==> r == Some(old(self).rest()[0]) && final(self).rest() == old(self).rest().skip(1)
    { unimplemented!() }
    #[verifier::external_body]
    pub fn size_hint(&self) -> (r: (usize, Option<usize>))
        ensures r.0 <= self.rest().len(), r.1 is Some ==> self.rest().len() <= r.1->Some_0
    { unimplemented!() }
}
// length of the longest prefix of s whose items all satisfy p
pub open spec fn prefix_len<T>(p: PredFn<T>, s: Seq<T>) -> nat
    decreases s.len()
{
    if s.len() > 0 && p.holds(s[0]) { 1 + prefix_len(p, s.skip(1)) } else { 0 }
}
pub proof fn lemma_prefix_le<T>(p: PredFn<T>, s: Seq<T>)
    ensures prefix_len(p, s) <= s.len()
    decreases s.len()
{
    if s.len() > 0 && p.holds(s[0]) { lemma_prefix_le(p, s.skip(1)); }
}
pub proof fn lemma_out_step<T>(p: PredFn<T>, s: Seq<T>)
    ensures
        s.len() > 0 && p.holds(s[0]) ==> prefix_len(p, s) > 0 && s.take(prefix_len(p, s) as int)[0] == s[0]
            && s.take(prefix_len(p, s) as int).skip(1) == s.skip(1).take(prefix_len(p, s.skip(1)) as int),
        !(s.len() > 0 && p.holds(s[0])) ==> prefix_len(p, s) == 0,
        prefix_len(p, s) <= s.len(),
{
    lemma_prefix_le(p, s);
    if s.len() > 0 && p.holds(s[0]) {
        lemma_prefix_le(p, s.skip(1));
        assert(s.take(prefix_len(p, s) as int).skip(1) =~= s.skip(1).take(prefix_len(p, s.skip(1)) as int));
    }
}
//@ obligation lemma_prefix_le props=C19
//@ obligation lemma_out_step props=C19

// R9: the borrowed `&'a mut Peekable<I>` and the predicate type parameter become the opaque types above
//@ struct file=src/core/peekable.rs name=PeekingTakeWhile generics="<T>"
//@ rw R9 1 ⟦&'a mut std::iter::Peekable<I>⟧ => ⟦PeekIt<T>⟧
//@ rw R9 1 re⟦predicate: P,⟧ => ⟦predicate: PredFn<T>,⟧
#[verifier::reject_recursive_types(T)]
//@ endstruct

impl<T> PeekingTakeWhile<T> {
    // what the adaptor will still yield
    pub open spec fn out(&self) -> Seq<T> { self.iter.rest().take(prefix_len(self.predicate, self.iter.rest()) as int) }

//@ item next file=src/core/peekable.rs block="impl<I, P> Iterator for PeekingTakeWhile<'_, I, P> where I: Iterator, P: FnMut(&I::Item) -> bool," fn=next props=C19,C12
//@ sig fn next(&mut self) -> Option<Self::Item>
//@ ins start
        proof {
            let s = self.iter.rest();
            lemma_prefix_le(self.predicate, s);
            if s.len() > 0 && self.predicate.holds(s[0]) {
                lemma_prefix_le(self.predicate, s.skip(1));
                assert(s.take(prefix_len(self.predicate, s) as int).skip(1) =~= s.skip(1).take(prefix_len(self.predicate, s.skip(1)) as int));
            }
        }
//@ endins
    pub fn next(&mut self) -> (r: Option<T>)
        ensures
            final(self).predicate == old(self).predicate,
            match r {
                Some(x) => old(self).out().len() > 0 && x == old(self).out()[0] && final(self).out() == old(self).out().skip(1) && final(self).iter.rest() == old(self).iter.rest().skip(1),
                None => old(self).out().len() == 0 && final(self).iter.rest() == old(self).iter.rest(),      // the first failing item stays in the underlying iterator
            },                                                                                            //@ clause take_while_p.yields_longest_prefix_and_leaves_first_failing_item [C19]
//@ body

//@ item size_hint file=src/core/peekable.rs block="impl<I, P> Iterator for PeekingTakeWhile<'_, I, P> where I: Iterator, P: FnMut(&I::Item) -> bool," fn=size_hint props=C19,C12
//@ sig fn size_hint(&self) -> (usize, Option<usize>)
//@ ins start
        proof { lemma_prefix_le(self.predicate, self.iter.rest()); }
//@ endins
    pub fn size_hint(&self) -> (r: (usize, Option<usize>))
        ensures r.0 <= self.out().len(), r.1 is Some ==> self.out().len() <= r.1->Some_0,                 //@ clause take_while_p.size_hint_bounds_what_next_yields [C19]
//@ body
}

// the folding closure `FnMut(B, T) -> B` as a function of its arguments (ASSUMED[callbacks-are-functions])
#[verifier::external_body]
#[verifier::reject_recursive_types(B)]
#[verifier::reject_recursive_types(T)]
pub struct FoldFn<B, T> { x: core::marker::PhantomData<(B, T)> }
impl<B, T> FoldFn<B, T> {
    pub uninterp spec fn apply(&self, b: B, x: T) -> B;
    #[verifier::external_body]
    pub fn call(&mut self, b: B, x: T) -> (r: B) ensures r == old(self).apply(b, x), *final(self) == *old(self) { unimplemented!() }
}
pub open spec fn fold_spec<B, T>(f: FoldFn<B, T>, acc: B, s: Seq<T>) -> B
    decreases s.len()
{
    if s.len() == 0 { acc } else { fold_spec(f, f.apply(acc, s[0]), s.skip(1)) }
}
impl<T> PeekingTakeWhile<T> {
//@ item fold file=src/core/peekable.rs block="impl<I, P> Iterator for PeekingTakeWhile<'_, I, P> where I: Iterator, P: FnMut(&I::Item) -> bool," fn=fold props=C19,C12
//@ sig fn fold<B, F>(mut self, mut accum: B, mut f: F) -> B where F: FnMut(B, I::Item) -> B
// R2: `mut self` / `mut accum` / `mut f` parameters become locals; R13: the folding closure is called through its opaque type
//@ rw R2 + re⟦\bself\b⟧ => ⟦this⟧
//@ rw R13 1 ⟦f(accum, x)⟧ => ⟦f.call(accum, x)⟧
//@ ins start
        let mut this = self;
        let mut accum = accum0;
        let mut f = f0;
        let ghost out0 = this.out();
        let ghost mut gr = this.iter.rest();       // what the underlying iterator held at the loop head
//@ endins
//@ loop 1
            invariant
                f == f0, this.predicate == self.predicate, gr == this.iter.rest(),
                fold_spec(f0, accum, this.out()) == fold_spec(f0, accum0, out0),
            ensures this.out().len() == 0
            decreases this.iter.rest().len()
//@ endloop
//@ ins after re⟦while let Some\(x\) = this\.iter\.next_if\(&mut this\.predicate\) \{⟧
            proof {
                lemma_out_step(this.predicate, gr);
                assert(gr.len() > 0 && this.predicate.holds(gr[0]) && x == gr[0]);
                let old_out = gr.take(prefix_len(this.predicate, gr) as int);
                assert(this.out() == old_out.skip(1));
                assert(old_out.len() > 0 && old_out[0] == x);
                assert(fold_spec(f0, accum, old_out) == fold_spec(f0, f0.apply(accum, x), old_out.skip(1)));
            }
//@ endins
//@ ins loopend 1
            proof { gr = this.iter.rest(); }
//@ endins
//@ ins afterloop 1
        proof { lemma_out_step(this.predicate, gr); }
//@ endins
    pub fn fold<B>(self, accum0: B, f0: FoldFn<B, T>) -> (r: B)
        ensures r == fold_spec(f0, accum0, self.out()),                                                       //@ clause take_while_p.fold_folds_exactly_the_longest_prefix [C19]
//@ body
}

// ---- defer guard: `Defer<T: FnMut()>(T)` with the closure as a call counter (R9)
pub struct Callee { pub calls: Ghost<nat> }
impl Callee {
    #[verifier::external_body]
    pub fn call(&mut self) ensures final(self).calls@ == old(self).calls@ + 1 { unimplemented!() }
}
pub struct Defer(pub Callee);
impl Defer {
//@ item drop file=src/core/defer.rs block="impl<T: FnMut()> Drop for Defer<T>" fn=drop props=C19,C12
//@ sig fn drop(&mut self)
//@ rw R13 1 ⟦(self.0)();⟧ => ⟦self.0.call();⟧
    pub fn drop(&mut self)
        ensures final(self).0.calls@ == old(self).0.calls@ + 1,                                             //@ clause defer.drop_runs_the_closure_exactly_once [C19]
//@ body
}
