//@ unit path_relative
//@ props C16 C12 C10
// path::relative(path, base): the navigation from base to path, at component level.
//@ prelude base errors iter path_comps spec_clean

// R4: `comps.extend(x.by_ref())` appends everything the iterator has left and exhausts it (std docs of Extend / by_ref)
#[verifier::external_body]
pub fn extend_rest(v: &mut Vec<Component>, it: &mut Components)
    ensures final(v)@ == old(v)@ + old(it).rest(), final(it).rest() == Seq::<Component>::empty()
{ unimplemented!() }

pub open spec fn rep(c: Component, n: int) -> Comps { Seq::new(if n >= 0 { n as nat } else { 0 }, |i: int| c) }
// k is the length of the common component prefix of p and b
pub open spec fn is_cpl(p: Comps, b: Comps, k: int) -> bool {
    &&& 0 <= k <= p.len() && k <= b.len()
    &&& p.take(k) == b.take(k)
    &&& (k < p.len() && k < b.len() ==> p[k] != b[k])
}
// one `..` for every component of base below the common prefix, then the rest of path
pub open spec fn rel_seq(p: Comps, b: Comps, k: int) -> Comps { rep(Component::ParentDir, b.len() - k) + p.skip(k) }

// exit (None, None): both exhausted after ki steps
pub proof fn lemma_exit_both_done(p: Comps, b: Comps, ki: int)
    requires ki == b.len(),
             (ki <= p.len()) ==> (p.skip(ki).len() == 0 && p.take(ki) == b.take(ki)),
    ensures  ki <= p.len() ==> is_cpl(p, b, ki) && Seq::<Component>::empty() =~= rel_seq(p, b, ki),
             ki > p.len() && p == b.take(p.len() as int) ==> is_cpl(p, b, p.len() as int) && rep(Component::ParentDir, ki - p.len()) =~= rel_seq(p, b, p.len() as int),
{
    if ki > p.len() && p == b.take(p.len() as int) { assert(p.take(p.len() as int) =~= p); }
}
pub proof fn lemma_exit_base_done(p: Comps, b: Comps, ki: int, c: Comps)
    requires ki == b.len(), ki < p.len(), p.take(ki) == b.take(ki), c =~= Seq::<Component>::empty().push(p[ki]) + p.skip(ki + 1)
    ensures is_cpl(p, b, ki) && c =~= rel_seq(p, b, ki)
{ }
pub proof fn lemma_exit_mismatch(p: Comps, b: Comps, ki: int, c: Comps)
    requires 0 <= ki < b.len(), ki < p.len(), p.take(ki) == b.take(ki), p[ki] != b[ki],
             c =~= rep(Component::ParentDir, b.len() - ki).push(p[ki]) + p.skip(ki + 1)
    ensures is_cpl(p, b, ki) && c =~= rel_seq(p, b, ki)
{ }
//@ obligation lemma_exit_both_done props=C16
//@ obligation lemma_exit_base_done props=C16
//@ obligation lemma_exit_mismatch props=C16

//@ item relative file=src/sys/fs/path.rs fn=relative props=C16,C12,C10,C09,C20,C01
//@ sig pub fn relative<T: AsRef<Path>, U: AsRef<Path>>(path: T, base: U) -> RvResult<PathBuf>
//@ rw R1 * ⟦if path != base {⟧ => ⟦if path.ne(base) {⟧
//@ rw R9 1 ⟦let mut comps: Vec<Component> = vec![];⟧ => ⟦let mut comps: Vec<Component> = Vec::new();⟧
//@ rw R4 2 ⟦comps.extend(x.by_ref());⟧ => ⟦extend_rest(&mut comps, &mut x);⟧
//@ rw R4 * ⟦comps.iter().collect::<PathBuf>()⟧ => ⟦collect_path(&comps)⟧
//@ rw R3 1 for
//@ ins after ⟦let mut comps: Vec<Component> = Vec::new();⟧
        let ghost p = path.comps();
        let ghost b = base.comps();
//@ endins
//@ loop 1
            invariant_except_break
                y.rest().len() <= b.len(),
                y.rest() == b.skip(b.len() - y.rest().len()),
                (b.len() - y.rest().len() <= p.len()) ==> (x.rest() == p.skip(b.len() - y.rest().len()) && comps@.len() == 0
                        && p.take(b.len() - y.rest().len()) == b.take(b.len() - y.rest().len())),
                (b.len() - y.rest().len() > p.len()) ==> (x.rest().len() == 0 && comps@ == rep(Component::ParentDir, b.len() - y.rest().len() - p.len())
                        && p == b.take(p.len() as int)),
            invariant
                p == path.comps(), b == base.comps(),
            ensures
                exists|k: int| is_cpl(p, b, k) && comps@ == rel_seq(p, b, k),
            decreases y.rest().len()
//@ endloop
//@ loop 2
                        invariant
                            b == base.comps(),
                            __it1.rest().len() <= b.len(),
                            __it1.rest() == b.skip(b.len() - __it1.rest().len()),
                            0 <= ki < b.len() - __it1.rest().len(),
                            comps@ == rep(Component::ParentDir, b.len() - __it1.rest().len() - ki),
                        ensures __it1.rest().len() == 0,
                        decreases __it1.rest().len()
//@ endloop
//@ rw PROOF 1 ⟦(None, None) => break,⟧ => ⟦(None, None) => { proof { lemma_exit_both_done(p, b, ki); } break },⟧
//@ ins after#1 ⟦extend_rest(&mut comps, &mut x);⟧
                    proof { lemma_exit_base_done(p, b, ki, comps@); }
//@ endins
//@ ins after#2 ⟦extend_rest(&mut comps, &mut x);⟧
                    proof { lemma_exit_mismatch(p, b, ki, comps@); }
//@ endins
//@ ins before ⟦match (x.next(), y.next()) {⟧
                let ghost ki: int = b.len() - y.rest().len();
                let ghost x0 = x.rest();
                let ghost y0 = y.rest();
//@ endins
pub fn relative(path: &PathBuf, base: &PathBuf) -> (r: RvResult<PathBuf>)
    ensures
        r is Ok,
        path.comps() == base.comps() ==> r->Ok_0.comps() == path.comps(),                 //@ clause relative.same_path [C16]
        path.comps() != base.comps() ==> exists|k: int| is_cpl(path.comps(), base.comps(), k)
            && r->Ok_0.comps() == collect_spec(Seq::empty(), rel_seq(path.comps(), base.comps(), k)),     //@ clause relative.navigation [C16,C10]
//@ body


// =====================================================================================================================
// The navigation law of property C16: for clean absolute p != b, joining relative(p, b) onto b and cleaning gives p back;
// the result consists of |b|-k `..` followed by normal components only (k = length of the common prefix).
pub open spec fn abs_form(c: Comps) -> bool { c.len() > 0 && c[0] == Component::RootDir && forall|i: int| 0 < i < c.len() ==> (#[trigger] c[i]) is Normal }

pub proof fn lemma_fold_append(st: Comps, s1: Comps, s2: Comps)
    ensures fold(st, s1 + s2) == fold(fold(st, s1), s2)
    decreases s1.len()
{
    if s1.len() == 0 { assert(s1 + s2 =~= s2); } else {
        assert((s1 + s2)[0] == s1[0]);
        assert((s1 + s2).skip(1) =~= s1.skip(1) + s2);
        lemma_fold_append(step(st, s1[0]), s1.skip(1), s2);
    }
}
// pushing normal names only appends them
pub proof fn lemma_fold_normals(st: Comps, s: Comps)
    requires forall|i: int| 0 <= i < s.len() ==> (#[trigger] s[i]) is Normal
    ensures fold(st, s) == st + s
    decreases s.len()
{
    if s.len() == 0 { assert(st + s =~= st); } else {
        assert(s[0] is Normal);
        assert(step(st, s[0]) == st.push(s[0]));
        assert forall|i: int| 0 <= i < s.skip(1).len() implies (#[trigger] s.skip(1)[i]) is Normal by { assert(s.skip(1)[i] == s[i + 1]); }
        lemma_fold_normals(st.push(s[0]), s.skip(1));
        assert(st.push(s[0]) + s.skip(1) =~= st + s);
    }
}
// n `..` on top of an absolute clean stack pop its last n names (n < |st|)
pub proof fn lemma_fold_pops(st: Comps, n: int, rest: Comps)
    requires abs_form(st), 0 <= n < st.len()
    ensures fold(st, rep(Component::ParentDir, n) + rest) == fold(st.take(st.len() - n), rest)
    decreases n
{
    let r = rep(Component::ParentDir, n);
    if n == 0 { assert(r + rest =~= rest); assert(st.take(st.len() as int) =~= st); } else {
        assert((r + rest)[0] == Component::ParentDir);
        assert(st.last() is Normal);
        assert(step(st, Component::ParentDir) == st.drop_last());
        assert((r + rest).skip(1) =~= rep(Component::ParentDir, n - 1) + rest);
        let st2 = st.drop_last();
        assert(abs_form(st2)) by { assert forall|i: int| 0 < i < st2.len() implies (#[trigger] st2[i]) is Normal by { assert(st2[i] == st[i]); } }
        lemma_fold_pops(st2, n - 1, rest);
        assert(st2.take(st2.len() - (n - 1)) =~= st.take(st.len() - n));
    }
}
pub proof fn lemma_abs_form_is_clean(c: Comps)
    requires abs_form(c)
    ensures clean_form(c), stack_ok(c), fold(Seq::empty(), c) == c
{
    assert(Seq::<Component>::empty() + c =~= c);
    lemma_fold_fix(Seq::empty(), c);
}
pub proof fn theorem_relative_navigates(p: Comps, b: Comps, k: int)
    requires abs_form(p), abs_form(b), p != b, is_cpl(p, b, k)
    ensures
        k >= 1,
        // the returned path is the component list itself: |b|-k `..` then the rest of p, normal components only
        collect_spec(Seq::empty(), rel_seq(p, b, k)) == rel_seq(p, b, k),                                                //@ clause relative.result_is_dotdots_then_normals [C16]
        forall|i: int| 0 <= i < b.len() - k ==> rel_seq(p, b, k)[i] == Component::ParentDir,
        forall|i: int| b.len() - k <= i < rel_seq(p, b, k).len() ==> (#[trigger] rel_seq(p, b, k)[i]) is Normal,
        // joining it onto b and cleaning yields p
        spec_clean(join_spec(b, rel_seq(p, b, k))) == p,                                                                 //@ clause relative.clean_base_join_result_is_path [C16,C10]
{
    // both start with the root, so the common prefix is at least 1
    if k == 0 { assert(p[0] == b[0]); assert(false); }
    let out = rel_seq(p, b, k);
    let n = b.len() - k;
    let tail = p.skip(k);
    assert forall|i: int| 0 <= i < tail.len() implies (#[trigger] tail[i]) is Normal by { assert(tail[i] == p[k + i]); }
    assert forall|i: int| 0 <= i < out.len() implies out[i] != Component::RootDir && (out[i] != Component::CurDir || (i == 0 && Seq::<Component>::empty().len() == 0)) by {
        if i >= n { assert(out[i] == tail[i - n]); }
    }
    assert(out.len() > 0) by { if n == 0 && tail.len() == 0 { assert(p.take(k) =~= p); assert(b.take(k) =~= b); } }
    // collecting: plain components are appended; the first one is not CurDir
    assert(out[0] != Component::CurDir) by { if n == 0 { assert(out[0] == tail[0]); } }
    assert forall|i: int| 0 <= i < out.len() implies out[i] != Component::RootDir && (out[i] != Component::CurDir || (i == 0 && (Seq::<Component>::empty()).len() == 0)) by { if i >= n { assert(out[i] == tail[i - n]); } }
    lemma_collect_plain(Seq::empty(), out);
    assert(Seq::<Component>::empty() + out =~= out);
    assert forall|i: int| b.len() - k <= i < out.len() implies (#[trigger] out[i]) is Normal by { assert(out[i] == tail[i - n]); }
    // join: out is relative and does not start with `.`
    assert(join_spec(b, out) == b + out);
    lemma_abs_form_is_clean(b);
    lemma_fold_append(Seq::empty(), b, out);
    lemma_fold_pops(b, n, tail);
    assert(b.take(b.len() - n) =~= b.take(k));
    lemma_fold_normals(b.take(k), tail);
    assert(p.take(k) + p.skip(k) =~= p);
    assert(fold(Seq::empty(), b + out) == p);
}
//@ obligation lemma_fold_append props=C16
//@ obligation lemma_fold_normals props=C16
//@ obligation lemma_fold_pops props=C16
//@ obligation lemma_abs_form_is_clean props=C16
//@ obligation theorem_relative_navigates props=C16,C10
