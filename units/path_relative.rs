//@ unit path_relative
//@ props C16 C12 C10
// path::relative(path, base): the navigation from base to path, at component level.
//@ prelude base errors iter path_comps

// R4: `comps.extend(x.by_ref())` appends everything the iterator has left and exhausts it (std docs of Extend / by_ref)
#[verifier::external_body]
pub fn extend_rest(v: &mut Vec<Component>, it: &mut Components)
    ensures final(v)@ == old(v)@ + old(it).rest(), final(it).rest() == Seq::<Component>::empty()
{ unimplemented!() }

pub open spec fn rep(c: Component, n: int) -> Comps { Seq::new(if n >= 0 { n as nat } else { 0 }, |i: int| c) }
// k is the length of the common component prefix of p and b
pub open spec fn is_cpl(p: Comps, b: Comps, k: int) -> bool {
    &&& 0 <= k <= p.len() && k <= b.len()
    &&& p.take(k) == b.take(k)
    &&& (k < p.len() && k < b.len() ==> p[k] != b[k])
}
// one `..` for every component of base below the common prefix, then the rest of path
pub open spec fn rel_seq(p: Comps, b: Comps, k: int) -> Comps { rep(Component::ParentDir, b.len() - k) + p.skip(k) }

// exit (None, None): both exhausted after ki steps
pub proof fn lemma_exit_both_done(p: Comps, b: Comps, ki: int)
    requires ki == b.len(),
             (ki <= p.len()) ==> (p.skip(ki).len() == 0 && p.take(ki) == b.take(ki)),
    ensures  ki <= p.len() ==> is_cpl(p, b, ki) && Seq::<Component>::empty() =~= rel_seq(p, b, ki),
             ki > p.len() && p == b.take(p.len() as int) ==> is_cpl(p, b, p.len() as int) && rep(Component::ParentDir, ki - p.len()) =~= rel_seq(p, b, p.len() as int),
{
    if ki > p.len() && p == b.take(p.len() as int) { assert(p.take(p.len() as int) =~= p); }
}
pub proof fn lemma_exit_base_done(p: Comps, b: Comps, ki: int, c: Comps)
    requires ki == b.len(), ki < p.len(), p.take(ki) == b.take(ki), c =~= Seq::<Component>::empty().push(p[ki]) + p.skip(ki + 1)
    ensures is_cpl(p, b, ki) && c =~= rel_seq(p, b, ki)
{ }
pub proof fn lemma_exit_mismatch(p: Comps, b: Comps, ki: int, c: Comps)
    requires 0 <= ki < b.len(), ki < p.len(), p.take(ki) == b.take(ki), p[ki] != b[ki],
             c =~= rep(Component::ParentDir, b.len() - ki).push(p[ki]) + p.skip(ki + 1)
    ensures is_cpl(p, b, ki) && c =~= rel_seq(p, b, ki)
{ }
//@ obligation lemma_exit_both_done props=C16
//@ obligation lemma_exit_base_done props=C16
//@ obligation lemma_exit_mismatch props=C16

//@ item relative file=src/sys/fs/path.rs fn=relative props=C16,C12,C10
//@ sig pub fn relative<T: AsRef<Path>, U: AsRef<Path>>(path: T, base: U) -> RvResult<PathBuf>
//@ rw R1 1 ⟦if path != base {⟧ => ⟦if path.ne(base) {⟧
//@ rw R9 1 ⟦let mut comps: Vec<Component> = vec![];⟧ => ⟦let mut comps: Vec<Component> = Vec::new();⟧
//@ rw R4 2 ⟦comps.extend(x.by_ref());⟧ => ⟦extend_rest(&mut comps, &mut x);⟧
//@ rw R4 1 ⟦comps.iter().collect::<PathBuf>()⟧ => ⟦collect_path(&comps)⟧
//@ rw R3 1 for
//@ ins after ⟦let mut comps: Vec<Component> = Vec::new();⟧
        let ghost p = path.comps();
        let ghost b = base.comps();
//@ endins
//@ loop 1
            invariant_except_break
                y.rest().len() <= b.len(),
                y.rest() == b.skip(b.len() - y.rest().len()),
                (b.len() - y.rest().len() <= p.len()) ==> (x.rest() == p.skip(b.len() - y.rest().len()) && comps@.len() == 0
                        && p.take(b.len() - y.rest().len()) == b.take(b.len() - y.rest().len())),
                (b.len() - y.rest().len() > p.len()) ==> (x.rest().len() == 0 && comps@ == rep(Component::ParentDir, b.len() - y.rest().len() - p.len())
                        && p == b.take(p.len() as int)),
            invariant
                p == path.comps(), b == base.comps(),
            ensures
                exists|k: int| is_cpl(p, b, k) && comps@ == rel_seq(p, b, k),
            decreases y.rest().len()
//@ endloop
//@ loop 2
                        invariant
                            b == base.comps(),
                            __it1.rest().len() <= b.len(),
                            __it1.rest() == b.skip(b.len() - __it1.rest().len()),
                            0 <= ki < b.len() - __it1.rest().len(),
                            comps@ == rep(Component::ParentDir, b.len() - __it1.rest().len() - ki),
                        ensures __it1.rest().len() == 0,
                        decreases __it1.rest().len()
//@ endloop
//@ rw PROOF 1 ⟦(None, None) => break,⟧ => ⟦(None, None) => { proof { lemma_exit_both_done(p, b, ki); } break },⟧
//@ ins after#1 ⟦extend_rest(&mut comps, &mut x);⟧
                    proof { lemma_exit_base_done(p, b, ki, comps@); }
//@ endins
//@ ins after#2 ⟦extend_rest(&mut comps, &mut x);⟧
                    proof { lemma_exit_mismatch(p, b, ki, comps@); }
//@ endins
//@ ins before ⟦match (x.next(), y.next()) {⟧
                let ghost ki: int = b.len() - y.rest().len();
                let ghost x0 = x.rest();
                let ghost y0 = y.rest();
//@ endins
pub fn relative(path: &PathBuf, base: &PathBuf) -> (r: RvResult<PathBuf>)
    ensures
        r is Ok,
        path.comps() == base.comps() ==> r->Ok_0.comps() == path.comps(),                 //@ clause relative.same_path [C16]
        path.comps() != base.comps() ==> exists|k: int| is_cpl(path.comps(), base.comps(), k)
            && r->Ok_0.comps() == collect_spec(Seq::empty(), rel_seq(path.comps(), base.comps(), k)),     //@ clause relative.navigation [C16,C10]
//@ body
