//@ unit entry_follow
//@ props C10 C12 C11 C08
// Entry::follow on both backends' entry types (plain struct code): follow(true) on a link swaps path and alt exactly once.
//@ prelude base errors iter path_abs memfs_state
//@ struct file=src/sys/fs/memfs/file.rs name=MemfsFile
//@ endstruct
//@ struct file=src/sys/fs/memfs/entry.rs name=MemfsEntry
//@ rw R4 * ⟦Option<HashSet<String>>⟧ => ⟦Option<NameSet>⟧
//@ endstruct
//@ struct file=src/sys/fs/stdfs/entry.rs name=StdfsEntry
//@ endstruct
//@ struct file=src/sys/fs/entry.rs name=VfsEntry kw=enum
//@ endstruct

// ASSUMED[mem-swap]: std::mem::swap exchanges the two values
#[verifier::external_body]
pub fn swap_paths(a: &mut PathBuf, b: &mut PathBuf)
    ensures final(a).comps() == old(b).comps() && final(a)@ == old(b)@ && final(a).abs_clean() == old(b).abs_clean(),
            final(b).comps() == old(a).comps() && final(b)@ == old(a)@ && final(b).abs_clean() == old(a).abs_clean(),
{ unimplemented!() }

impl MemfsEntry {
//@ item m_upcast file=src/sys/fs/memfs/entry.rs block="impl Entry for MemfsEntry" fn=upcast
    pub fn upcast(self) -> (r: VfsEntry) ensures r == VfsEntry::Memfs(self)
//@ body
//@ item m_follow file=src/sys/fs/memfs/entry.rs block="impl Entry for MemfsEntry" fn=follow props=C10,C12,C08
//@ sig fn follow(mut self, follow: bool) -> VfsEntry
//@ rw R2 + re⟦\bself\b⟧ => ⟦this⟧
//@ rw R4 * ⟦std::mem::swap(&mut this.path, &mut this.alt);⟧ => ⟦swap_paths(&mut this.path, &mut this.alt);⟧
//@ ins start
        let mut this = self;
//@ endins
    pub fn follow(self, follow: bool) -> (r: VfsEntry)
        ensures r is Memfs,
            ({
                let o = r->Memfs_0;
                let swap = follow && self.link && !self.follow;
                // swapped exactly when asked to follow a link that has not been followed yet; a second follow(true) is the identity
                &&& swap ==> o.path.comps() == self.alt.comps() && o.alt.comps() == self.path.comps() && o.follow                 //@ clause follow.swaps_once [C10,C08]
                &&& !swap ==> o.path.comps() == self.path.comps() && o.alt.comps() == self.alt.comps() && o.follow == self.follow   //@ clause follow.otherwise_identity [C10,C08]
                &&& o.rel.comps() == self.rel.comps() && o.dir == self.dir && o.file == self.file && o.link == self.link && o.mode == self.mode
                &&& o.uid == self.uid && o.gid == self.gid && kids_of(o.files) == kids_of(self.files)
            }),
//@ body
}
impl StdfsEntry {
//@ item s_upcast file=src/sys/fs/stdfs/entry.rs block="impl Entry for StdfsEntry" fn=upcast
    pub fn upcast(self) -> (r: VfsEntry) ensures r == VfsEntry::Stdfs(self)
//@ body
//@ item s_follow file=src/sys/fs/stdfs/entry.rs block="impl Entry for StdfsEntry" fn=follow props=C10,C12,C08
//@ sig fn follow(mut self, follow: bool) -> VfsEntry
//@ rw R2 + re⟦\bself\b⟧ => ⟦this⟧
//@ rw R4 * ⟦std::mem::swap(&mut this.path, &mut this.alt);⟧ => ⟦swap_paths(&mut this.path, &mut this.alt);⟧
//@ ins start
        let mut this = self;
//@ endins
    pub fn follow(self, follow: bool) -> (r: VfsEntry)
        ensures r is Stdfs,
            ({
                let o = r->Stdfs_0;
                let swap = follow && self.link && !self.follow;
                &&& swap ==> o.path.comps() == self.alt.comps() && o.alt.comps() == self.path.comps() && o.follow                 //@ clause follow.swaps_once [C10,C08]
                &&& !swap ==> o.path.comps() == self.path.comps() && o.alt.comps() == self.alt.comps() && o.follow == self.follow   //@ clause follow.otherwise_identity [C10,C08]
                &&& o.rel.comps() == self.rel.comps() && o.dir == self.dir && o.file == self.file && o.link == self.link && o.mode == self.mode
            }),
//@ body
}
