//@ unit entry_iter
//@ props C08 C12
// The per-directory iterator of the traversal engine (src/sys/fs/entry_iter.rs): next (switches a link to its target when
// following), cache, sort, dirs_first, files_first and their helper _split, against a sequence view: out() is what the iterator
// will still yield.  The boxed inner iterator is an opaque queue (R9), `self.collect::<Vec<_>>()` is "call next until None"
// (ASSUMED[collect]) and slice::sort_by is a stable sort by the given comparator (ASSUMED[sort-by]); the comparator closure of
// _sort, which places error items first, keeps its body and gets a postcondition.  Unit entries_engine uses these contracts as the
// assumed behaviour of EntryIter (`rest`, `arrange`).
//@ prelude base errors iter path_abs
// ASSUMED[collect]: Iterator::collect::<Vec<_>>() on an iterator calls its next() until it returns None and returns the items in order
// ASSUMED[boxed-iter]: the boxed inner iterator is a queue (vec::IntoIter, Chain of two vec::IntoIter, the backend lister): next() pops the front
// ASSUMED[entry-accessors]: VfsEntry::is_dir / is_symlink return the stored fields; follow(true) twice equals follow(true) once (follow.swaps_once, unit entry_follow)
// ASSUMED[callbacks-are-functions]: the comparator passed to sort / dirs_first / files_first answers as a function of its two arguments

use core::cmp::Ordering;
pub type Out = RvResult<VfsEntry>;
pub type Ord3 = spec_fn(VfsEntry, VfsEntry, Ordering) -> bool;

// ---- an entry (ASSUMED[entry-accessors]; follow is idempotent: proved as follow.swaps_once in unit entry_follow)
#[verifier::external_body]
pub struct VfsEntry { x: u8 }
impl VfsEntry {
    pub uninterp spec fn sdir(&self) -> bool;
    pub uninterp spec fn sfollowed(&self, yes: bool) -> VfsEntry;
    pub uninterp spec fn slink(&self) -> bool;
    #[verifier::external_body]
    pub fn is_symlink(&self) -> (b: bool) ensures b == self.slink() { unimplemented!() }
    #[verifier::external_body]
    pub proof fn ax_follow_idem(&self, yes: bool) ensures self.sfollowed(yes).sfollowed(yes) == self.sfollowed(yes), self.sfollowed(yes).sdir() == self.sfollowed(yes).sdir() { }
    #[verifier::external_body]
    pub fn is_dir(&self) -> (b: bool) ensures b == self.sdir() { unimplemented!() }
    #[verifier::external_body]
    pub fn follow(self, yes: bool) -> (r: VfsEntry) ensures r == self.sfollowed(yes) { unimplemented!() }
}
// R9: `Box::new(v.into_iter())` and `Box::new(a.into_iter().chain(b))` as the opaque queue
impl DeIter<Out> {
    #[verifier::external_body]
    pub fn from_vec(v: Vec<Out>) -> (r: DeIter<Out>) ensures r.rest() == v@ { unimplemented!() }
    #[verifier::external_body]
    pub fn from_chain(a: Vec<Out>, b: Vec<Out>) -> (r: DeIter<Out>) ensures r.rest() == a@ + b@ { unimplemented!() }
    // `self.iter.by_ref().collect::<Vec<_>>()`: the raw items of the inner iterator (ASSUMED[collect])
    #[verifier::external_body]
    pub fn take_all(&mut self) -> (r: Vec<Out>) ensures r@ == old(self).rest(), final(self).rest() == Seq::<Out>::empty() { unimplemented!() }
}

//@ struct file=src/sys/fs/entry_iter.rs name=EntryIter
//@ rw R9 1 re⟦Box<dyn Iterator<Item = RvResult<VfsEntry>>>⟧ => ⟦DeIter<RvResult<VfsEntry>>⟧
//@ endstruct

// what one item becomes on its way out
pub open spec fn fl(following: bool, x: Out) -> Out {
    match x { Ok(y) => if following { Ok::<VfsEntry, RvError>(y.sfollowed(following)) } else { Ok::<VfsEntry, RvError>(y) }, Err(e) => Err::<VfsEntry, RvError>(e) }
}
pub open spec fn outs(following: bool, s: Seq<Out>) -> Seq<Out> { s.map_values(|x: Out| fl(following, x)) }
impl EntryIter {
    pub open spec fn out(&self) -> Seq<Out> { outs(self.following, self.iter.rest()) }
}
pub proof fn lemma_outs_idem(following: bool, s: Seq<Out>)
    ensures outs(following, outs(following, s)) == outs(following, s)
{
    assert forall|i: int| 0 <= i < s.len() implies fl(following, fl(following, s[i])) == fl(following, s[i]) by {
        match s[i] { Ok(y) => { y.ax_follow_idem(following); }, Err(e) => {} }
    }
    assert(outs(following, outs(following, s)) =~= outs(following, s));
}
pub proof fn lemma_outs_skip(following: bool, s: Seq<Out>)
    requires s.len() > 0
    ensures outs(following, s.skip(1)) == outs(following, s).skip(1), outs(following, s)[0] == fl(following, s[0])
{
    assert(outs(following, s.skip(1)) =~= outs(following, s).skip(1));
}
//@ obligation lemma_outs_idem props=C08
//@ obligation lemma_outs_skip props=C08

// the two kinds _split separates: directories and error items / everything else, each in its original order
pub open spec fn is_dirlike(x: Out) -> bool { match x { Ok(e) => e.sdir(), Err(_) => true } }
pub open spec fn dirs_of(s: Seq<Out>) -> Seq<Out> { s.filter(|x: Out| is_dirlike(x)) }
pub open spec fn files_of(s: Seq<Out>) -> Seq<Out> { s.filter(|x: Out| !is_dirlike(x)) }

pub open spec fn sel(s: Seq<Out>, d: bool) -> Seq<Out>
    decreases s.len()
{
    if s.len() == 0 { Seq::<Out>::empty() } else {
        let r = sel(s.drop_last(), d);
        if is_dirlike(s.last()) == d { r.push(s.last()) } else { r }
    }
}
pub proof fn lemma_sel_step(s: Seq<Out>)
    requires s.len() > 0
    ensures forall|d: bool| #[trigger] sel(s, d) == (if is_dirlike(s.last()) == d { sel(s.drop_last(), d).push(s.last()) } else { sel(s.drop_last(), d) })
{
}
//@ obligation lemma_sel_step props=C08

// the order _sort hands to slice::sort_by: error items before entries, entries by the caller's comparator
pub open spec fn ord_of<F: Fn(&VfsEntry, &VfsEntry) -> Ordering>(cmp: F) -> Ord3 { |a: VfsEntry, b: VfsEntry, r: Ordering| call_ensures(cmp, (&a, &b), r) }
pub open spec fn lifted(ord: Ord3, x: Out, y: Out, r: Ordering) -> bool {
    match (x, y) {
        (Ok(a), Ok(b)) => ord(a, b, r),
        (Err(_), Err(_)) => r == Ordering::Equal,
        (Ok(_), Err(_)) => r == Ordering::Greater,
        (Err(_), Ok(_)) => r == Ordering::Less,
    }
}
// ASSUMED[sort-by]: slice::sort_by(f) is a stable sort: a permutation in which no later element compares Less than an earlier one
pub uninterp spec fn sorted_by(ord: Ord3, s: Seq<Out>) -> Seq<Out>;
#[verifier::external_body]
pub proof fn ax_sorted_by(ord: Ord3, s: Seq<Out>)
    ensures
        sorted_by(ord, s).len() == s.len(),
        sorted_by(ord, s).to_multiset() =~= s.to_multiset(),
        forall|i: int, j: int| 0 <= i < j < s.len() ==> !lifted(ord, #[trigger] sorted_by(ord, s)[j], #[trigger] sorted_by(ord, s)[i], Ordering::Less),
{ }
#[verifier::external_body]
pub fn vec_sort_by<G: Fn(&Out, &Out) -> Ordering>(v: &mut Vec<Out>, g: G, Ghost(ord): Ghost<Ord3>)
    requires forall|x: &Out, y: &Out| call_requires(g, (x, y)), forall|x: &Out, y: &Out, r: Ordering| #[trigger] call_ensures(g, (x, y), r) ==> lifted(ord, *x, *y, r)
    ensures final(v)@ == sorted_by(ord, old(v)@)
{ unimplemented!() }
// consequences used below: sorting keeps every element, and error items come out first
pub proof fn lemma_sorted_elems(ord: Ord3, s: Seq<Out>)
    ensures forall|i: int| 0 <= i < s.len() ==> s.contains(#[trigger] sorted_by(ord, s)[i])
{
    broadcast use vstd::seq_lib::group_seq_properties;
    ax_sorted_by(ord, s);
    let t = sorted_by(ord, s);
    assert forall|i: int| 0 <= i < s.len() implies s.contains(#[trigger] t[i]) by {
        assert(t.to_multiset().count(t[i]) > 0) by { t.to_multiset_ensures(); assert(t.contains(t[i])); }
        s.to_multiset_ensures();
    }
}
pub proof fn theorem_errors_first(ord: Ord3, s: Seq<Out>)
    ensures forall|i: int, j: int| 0 <= i < j < s.len() && (#[trigger] sorted_by(ord, s)[j]) is Err ==> (#[trigger] sorted_by(ord, s)[i]) is Err
{
    ax_sorted_by(ord, s);
    let t = sorted_by(ord, s);
    assert forall|i: int, j: int| 0 <= i < j < s.len() && (#[trigger] t[j]) is Err implies (#[trigger] t[i]) is Err by {
        if t[i] is Ok { assert(lifted(ord, t[j], t[i], Ordering::Less)); }
    }
}
// a sequence whose items are already switched stays so under selection, sorting and concatenation
pub open spec fn followed(following: bool, s: Seq<Out>) -> bool { forall|i: int| 0 <= i < s.len() ==> fl(following, #[trigger] s[i]) == s[i] }
pub proof fn lemma_followed_outs(following: bool, s: Seq<Out>)
    ensures followed(following, s) <==> outs(following, s) == s
{
    if followed(following, s) { assert(outs(following, s) =~= s); }
    if outs(following, s) == s { assert forall|i: int| 0 <= i < s.len() implies fl(following, #[trigger] s[i]) == s[i] by { assert(outs(following, s)[i] == fl(following, s[i])); } }
}
pub proof fn lemma_sel_sub(s: Seq<Out>, d: bool)
    ensures forall|i: int| 0 <= i < sel(s, d).len() ==> s.contains(#[trigger] sel(s, d)[i])
    decreases s.len()
{
    if s.len() > 0 {
        lemma_sel_sub(s.drop_last(), d);
        let r = sel(s.drop_last(), d);
        assert forall|i: int| 0 <= i < sel(s, d).len() implies s.contains(#[trigger] sel(s, d)[i]) by {
            if i < r.len() {
                assert(s.drop_last().contains(r[i]));
                let j = choose|j: int| 0 <= j < s.drop_last().len() && s.drop_last()[j] == r[i];
                assert(s[j] == r[i]);
            } else { assert(s[s.len() - 1] == s.last()); }
        }
    }
}
pub proof fn lemma_sel_followed(following: bool, s: Seq<Out>, d: bool)
    requires outs(following, s) == s
    ensures outs(following, sel(s, d)) == sel(s, d)
{
    lemma_followed_outs(following, s);
    lemma_sel_sub(s, d);
    assert forall|i: int| 0 <= i < sel(s, d).len() implies fl(following, #[trigger] sel(s, d)[i]) == sel(s, d)[i] by {
        let j = choose|j: int| 0 <= j < s.len() && s[j] == sel(s, d)[i];
    }
    lemma_followed_outs(following, sel(s, d));
}
pub proof fn lemma_sorted_stays_followed(following: bool, ord: Ord3, s: Seq<Out>)
    requires outs(following, s) == s
    ensures outs(following, sorted_by(ord, s)) == sorted_by(ord, s)
{
    lemma_followed_outs(following, s);
    lemma_sorted_elems(ord, s);
    ax_sorted_by(ord, s);
    let t = sorted_by(ord, s);
    assert forall|i: int| 0 <= i < t.len() implies fl(following, #[trigger] t[i]) == t[i] by {
        let j = choose|j: int| 0 <= j < s.len() && s[j] == t[i];
    }
    lemma_followed_outs(following, t);
}
pub proof fn lemma_outs_add(following: bool, a: Seq<Out>, b: Seq<Out>)
    ensures outs(following, a + b) == outs(following, a) + outs(following, b)
{
    assert(outs(following, a + b) =~= outs(following, a) + outs(following, b));
}
//@ obligation lemma_followed_outs props=C08
//@ obligation lemma_sel_sub props=C08
//@ obligation lemma_sel_followed props=C08
//@ obligation lemma_sorted_stays_followed props=C08
//@ obligation lemma_outs_add props=C08
//@ obligation lemma_sorted_elems props=C08
//@ obligation theorem_errors_first props=C08

impl EntryIter {
    // `self.collect::<Vec<_>>()` (ASSUMED[collect]: Iterator::collect calls next() until it returns None)
    #[verifier::external_body]
    pub fn collect_all(&mut self) -> (r: Vec<Out>)
        ensures r@ == old(self).out(), final(self).iter.rest() == Seq::<Out>::empty(),
                final(self).path == old(self).path, final(self).cached == old(self).cached, final(self).following == old(self).following
    { unimplemented!() }

//@ item next file=src/sys/fs/entry_iter.rs block="impl Iterator for EntryIter" fn=next props=C08,C12
//@ sig fn next(&mut self) -> Option<RvResult<VfsEntry>>
//@ ins start
        proof { if self.iter.rest().len() > 0 { lemma_outs_skip(self.following, self.iter.rest()); } }
//@ endins
    pub fn next(&mut self) -> (r: Option<RvResult<VfsEntry>>)
        ensures
            final(self).path == old(self).path, final(self).cached == old(self).cached, final(self).following == old(self).following,
            match r {
                Some(x) => old(self).out().len() > 0 && x == old(self).out()[0] && final(self).out() == old(self).out().skip(1),
                None => old(self).out().len() == 0 && final(self).out() == old(self).out(),
            },                                                                                             //@ clause entry_iter.next_pops_the_front_switched_to_the_target_when_following [C08]
//@ body

//@ item cache file=src/sys/fs/entry_iter.rs block="impl EntryIter" fn=cache props=C08,C12
//@ sig pub fn cache(&mut self)
//@ rw R9 1 ⟦Box::new(self.collect::<Vec<_>>().into_iter())⟧ => ⟦DeIter::from_vec(self.collect_all())⟧
//@ ins start
        proof { lemma_outs_idem(self.following, self.iter.rest()); }
//@ endins
    pub fn cache(&mut self)
        ensures final(self).out() == old(self).out(), final(self).path == old(self).path, final(self).cached, final(self).following == old(self).following,   //@ clause entry_iter.cache_keeps_the_sequence [C08]
//@ body

//@ item _split file=src/sys/fs/entry_iter.rs block="impl EntryIter" fn=_split props=C08,C12
//@ sig fn _split(&mut self) -> (Vec<RvResult<VfsEntry>>, Vec<RvResult<VfsEntry>>)
//@ rw R9 1 ⟦self.collect::<Vec<_>>()⟧ => ⟦DeIter::from_vec(self.collect_all())⟧
//@ rw R3 1 for
//@ ins start
        let ghost all = self.out();
//@ endins
//@ loop 1
            invariant
                __it1.rest().len() <= all.len(),
                __it1.rest() == all.skip(all.len() - __it1.rest().len()),
                dirs@ == sel(all.take(all.len() - __it1.rest().len()), true),
                files@ == sel(all.take(all.len() - __it1.rest().len()), false),
            ensures __it1.rest().len() == 0
            decreases __it1.rest().len()
//@ endloop
//@ ins after re⟦None => break \};⟧
            proof {
                let k = all.len() - __it1.rest().len() - 1;
                assert(all.take(k + 1).drop_last() =~= all.take(k));
                assert(all.take(k + 1).last() == all[k]);
                assert(x == all[k]);
                lemma_sel_step(all.take(k + 1));
                assert(all.skip(k).skip(1) =~= all.skip(k + 1));
            }
//@ endins
//@ ins afterloop 1
        proof { assert(all.take(all.len() as int) =~= all); }
//@ endins
    fn _split(&mut self) -> (r: (Vec<RvResult<VfsEntry>>, Vec<RvResult<VfsEntry>>))
        ensures
            r.0@ == sel(old(self).out(), true) && r.1@ == sel(old(self).out(), false),                         //@ clause entry_iter.split_separates_directories_and_errors_from_the_rest_in_order [C08]
            final(self).iter.rest() == Seq::<Out>::empty(), final(self).path == old(self).path, final(self).cached == old(self).cached, final(self).following == old(self).following,
//@ body

//@ item _sort file=src/sys/fs/entry_iter.rs block="impl EntryIter" fn=_sort props=C08,C12
//@ sig fn _sort(&mut self, entries: &mut [RvResult<VfsEntry>], cmp: impl Fn(&VfsEntry, &VfsEntry) -> Ordering)
// R1: `impl Fn` argument = anonymous generic; the slice is the caller's Vec (deref coercion); ref patterns with wildcard payload are the
// default binding mode; R13: sort_by's closure keeps its body and gets the lifted order as postcondition
//@ rw R13 1 re⟦entries\.sort_by\(\|x, y\| (match \(x, y\) \{.*?\n\s*\})\);⟧ => ⟦vec_sort_by(entries, |x: &Out, y: &Out| -> (r: Ordering) ensures lifted(ord_of(cmp), *x, *y, r) { \1 }, Ghost(ord_of(cmp)));⟧
//@ rw R1 * re⟦&(Err|Ok)\(_\)⟧ => ⟦\1(_)⟧
    fn _sort<F: Fn(&VfsEntry, &VfsEntry) -> Ordering>(&mut self, entries: &mut Vec<RvResult<VfsEntry>>, cmp: F)
        requires forall|a: &VfsEntry, b: &VfsEntry| call_requires(cmp, (a, b))
        ensures final(entries)@ == sorted_by(ord_of(cmp), old(entries)@), *final(self) == *old(self),            //@ clause entry_iter.sort_is_stable_sort_by_errors_first_then_comparator [C08]
//@ body

//@ item sort file=src/sys/fs/entry_iter.rs block="impl EntryIter" fn=sort props=C08,C12
//@ sig pub fn sort(&mut self, cmp: impl Fn(&VfsEntry, &VfsEntry) -> Ordering)
//@ rw R9 * ⟦self.collect::<Vec<_>>()⟧ => ⟦self.collect_all()⟧
//@ rw R9 * ⟦self.iter.by_ref().collect::<Vec<_>>()⟧ => ⟦self.iter.take_all()⟧
//@ rw R9 1 re⟦Box::new\((\w+)\.into_iter\(\)\)⟧ => ⟦DeIter::from_vec(\1)⟧
//@ ins start
        let ghost all = self.out();
        proof { lemma_outs_idem(self.following, self.iter.rest()); }
//@ endins
//@ ins before re⟦self\.iter = ⟧
        proof { lemma_sorted_stays_followed(self.following, ord_of(cmp), all); }
//@ endins
    pub fn sort<F: Fn(&VfsEntry, &VfsEntry) -> Ordering>(&mut self, cmp: F)
        requires forall|a: &VfsEntry, b: &VfsEntry| call_requires(cmp, (a, b))
        ensures final(self).out() == sorted_by(ord_of(cmp), old(self).out()), final(self).cached, final(self).path == old(self).path, final(self).following == old(self).following,   //@ clause entry_iter.sort_yields_the_sorted_sequence [C08]
//@ body

//@ item dirs_first file=src/sys/fs/entry_iter.rs block="impl EntryIter" fn=dirs_first props=C08,C12
//@ sig pub fn dirs_first(&mut self, cmp: impl Fn(&VfsEntry, &VfsEntry) -> Ordering)
//@ rw R9 1 re⟦Box::new\((\w+)\.into_iter\(\)\.chain\((\w+)\)\)⟧ => ⟦DeIter::from_chain(\1, \2)⟧
//@ ins start
        let ghost all = self.out();
        proof { lemma_outs_idem(self.following, self.iter.rest()); }
//@ endins
//@ ins before re⟦self\.iter = ⟧
        proof {
            assert(ord_of(&cmp) =~= ord_of(cmp));
            lemma_sel_followed(self.following, all, true); lemma_sel_followed(self.following, all, false);
            lemma_sorted_stays_followed(self.following, ord_of(cmp), sel(all, true));
            lemma_sorted_stays_followed(self.following, ord_of(cmp), sel(all, false));
            lemma_outs_add(self.following, dirs@, files@);
        }
//@ endins
    pub fn dirs_first<F: Fn(&VfsEntry, &VfsEntry) -> Ordering>(&mut self, cmp: F)
        requires forall|a: &VfsEntry, b: &VfsEntry| call_requires(cmp, (a, b))
        ensures final(self).out() == sorted_by(ord_of(cmp), sel(old(self).out(), true)) + sorted_by(ord_of(cmp), sel(old(self).out(), false)),      //@ clause entry_iter.dirs_first_yields_sorted_directories_then_sorted_files [C08]
                final(self).cached, final(self).path == old(self).path, final(self).following == old(self).following,
//@ body

//@ item files_first file=src/sys/fs/entry_iter.rs block="impl EntryIter" fn=files_first props=C08,C12
//@ sig pub fn files_first(&mut self, cmp: impl Fn(&VfsEntry, &VfsEntry) -> Ordering)
//@ rw R9 1 re⟦Box::new\((\w+)\.into_iter\(\)\.chain\((\w+)\)\)⟧ => ⟦DeIter::from_chain(\1, \2)⟧
//@ ins start
        let ghost all = self.out();
        proof { lemma_outs_idem(self.following, self.iter.rest()); }
//@ endins
//@ ins before re⟦self\.iter = ⟧
        proof {
            assert(ord_of(&cmp) =~= ord_of(cmp));
            lemma_sel_followed(self.following, all, true); lemma_sel_followed(self.following, all, false);
            lemma_sorted_stays_followed(self.following, ord_of(cmp), sel(all, true));
            lemma_sorted_stays_followed(self.following, ord_of(cmp), sel(all, false));
            lemma_outs_add(self.following, files@, dirs@);
        }
//@ endins
    pub fn files_first<F: Fn(&VfsEntry, &VfsEntry) -> Ordering>(&mut self, cmp: F)
        requires forall|a: &VfsEntry, b: &VfsEntry| call_requires(cmp, (a, b))
        ensures final(self).out() == sorted_by(ord_of(cmp), sel(old(self).out(), false)) + sorted_by(ord_of(cmp), sel(old(self).out(), true)),      //@ clause entry_iter.files_first_yields_sorted_files_then_sorted_directories [C08]
                final(self).cached, final(self).path == old(self).path, final(self).following == old(self).following,
//@ body
}
