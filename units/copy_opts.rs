//@ unit copy_opts
//@ props C09 C12
// The Copier builder (src/sys/fs/copy.rs): which kinds a chmod option selects.  _copy derives the directory mode from
// `mode if cdirs || !cfiles` and the file mode from `mode if cfiles || !cdirs`, so the two flags must never be set together.
//@ prelude base errors path_comps
//@ struct file=src/sys/fs/copy.rs name=CopyOpts
//@ endstruct
// R9: the provider callback `exec: Box<dyn Fn(CopyOpts) -> RvResult<()>>` is dropped from the struct (not used by the option setters)
//@ struct file=src/sys/fs/copy.rs name=Copier
//@ rw R9 1 re⟦pub exec: Box<dyn Fn\(CopyOpts\) -> RvResult<\(\)>>,[^\n]*⟧ => ⟦⟧
//@ endstruct

// the modes _copy will apply to newly created directories / files for given options (Memfs::_copy and Stdfs::_copy, same expression)
pub open spec fn dir_mode_of(o: CopyOpts) -> Option<u32> { match o.mode { Some(x) => if o.cdirs || !o.cfiles { Some(x) } else { None }, None => None } }
pub open spec fn file_mode_of(o: CopyOpts) -> Option<u32> { match o.mode { Some(x) => if o.cfiles || !o.cdirs { Some(x) } else { None }, None => None } }
pub open spec fn same_paths(a: CopyOpts, b: CopyOpts) -> bool { a.src == b.src && a.dst == b.dst && a.follow == b.follow }

impl Copier {
//@ item chmod_all file=src/sys/fs/copy.rs block="impl Copier" fn=chmod_all props=C09,C12
//@ sig pub fn chmod_all(mut self, mode: u32) -> Self
//@ rw R2 + re⟦\bself\b⟧ => ⟦this⟧
//@ ins start
        let mut this = self;
//@ endins
    pub fn chmod_all(self, mode: u32) -> (r: Copier)
        ensures dir_mode_of(r.opts) == Some(mode) && file_mode_of(r.opts) == Some(mode) && same_paths(r.opts, self.opts),     //@ clause copier.chmod_all_selects_both_kinds [C09]
//@ body
//@ item chmod_dirs file=src/sys/fs/copy.rs block="impl Copier" fn=chmod_dirs props=C09,C12
//@ sig pub fn chmod_dirs(mut self, mode: u32) -> Self
//@ rw R2 + re⟦\bself\b⟧ => ⟦this⟧
//@ ins start
        let mut this = self;
//@ endins
    pub fn chmod_dirs(self, mode: u32) -> (r: Copier)
        ensures dir_mode_of(r.opts) == Some(mode) && file_mode_of(r.opts) is None && same_paths(r.opts, self.opts),     //@ clause copier.chmod_dirs_selects_only_directories [C09]
//@ body
//@ item chmod_files file=src/sys/fs/copy.rs block="impl Copier" fn=chmod_files props=C09,C12
//@ sig pub fn chmod_files(mut self, mode: u32) -> Self
//@ rw R2 + re⟦\bself\b⟧ => ⟦this⟧
//@ ins start
        let mut this = self;
//@ endins
    pub fn chmod_files(self, mode: u32) -> (r: Copier)
        ensures file_mode_of(r.opts) == Some(mode) && dir_mode_of(r.opts) is None && same_paths(r.opts, self.opts),     //@ clause copier.chmod_files_selects_only_files [C09]
//@ body
//@ item follow file=src/sys/fs/copy.rs block="impl Copier" fn=follow props=C09,C12
//@ sig pub fn follow(mut self, yes: bool) -> Self
//@ rw R2 + re⟦\bself\b⟧ => ⟦this⟧
//@ ins start
        let mut this = self;
//@ endins
    pub fn follow(self, yes: bool) -> (r: Copier)
        ensures r.opts.follow == yes && r.opts.src == self.opts.src && r.opts.dst == self.opts.dst
                && dir_mode_of(r.opts) == dir_mode_of(self.opts) && file_mode_of(r.opts) == file_mode_of(self.opts),     //@ clause copier.follow_keeps_modes [C09]
//@ body
}
