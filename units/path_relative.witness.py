import os, sys
sys.path.insert(0, os.path.join(os.path.dirname(os.path.abspath(__file__)), '..', 'vc'))
import oracles as O


def find(d, fn, seed):
    if fn != 'relative':
        return None
    names = ['a', 'b']
    paths = ['/'] + ['/' + '/'.join(t) for n in range(1, 5) for t in __import__('itertools').product(names, repeat=n)]
    pairs = [(p, b) for p in paths for b in paths]
    outs = d.run(['relative\t%s\t%s' % (O.hexs(p), O.hexs(b)) for p, b in pairs])
    for (p, b), o in zip(pairs, outs):
        if p == b:
            continue      # the property leaves p == b to the "clean(b join result) == p" clause; the real code returns p itself
        exp = O.relative_ref(p, b)
        got = O.unhex(o.split('\t')[1]) if o.startswith('OK') and len(o.split('\t')) > 1 else ('' if o.startswith('OK') else o)
        if O.comps(got) != O.comps(exp):
            return {'driver_line': 'relative\t%s\t%s' % (O.hexs(p), O.hexs(b)), 'input': {'path': p, 'base': b}, 'expected': exp, 'got': got, 'oracle': "'..' per base component below the common prefix, then the rest of path"}
    return None
