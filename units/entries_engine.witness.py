import os, sys
sys.path.insert(0, os.path.join(os.path.dirname(os.path.abspath(__file__)), '..', 'vc'))
import oracles as O

# small link-free trees (the reference covers follow = false; whether a link to a directory counts as a directory for the
# dirs() filter is not something the statement settles, so links are left out)
SETUPS = [
    'mkdir_p /r/d/x;write_all /r/d/f 31;write_all /r/e 32;write_all /r/a 33',
    'mkdir_p /r/b/c/d;write_all /r/b/c/f 31;write_all /r/b/g 32;mkdir_p /r/a;write_all /r/z 33',
    'write_all /r 31',
    'mkdir_p /r',
]
FLAGSETS = ['s', 's,c', 's,c,f', 's,c,d', 's,c,m1', 's,c,m2', 's,c,M1', 's,c,pf', 's,m1,M1', 'D', 'I', 'I,c', 'D,c,m1', 's,f', 's,d', 's,M0', 's,c,M0', 's,m1,c,f', 's,pd', 's,c,pd,m1', 's,M2,c,d']


def opts_of(flags):
    o = {}
    for fl in flags.split(','):
        k, v = fl[:1], fl[1:]
        if k == 'd': o['dirs'] = True
        elif k == 'f': o['files'] = True
        elif k == 'c': o['contents_first'] = True
        elif k == 's': o['sort'] = True
        elif k == 'D': o['dirs_first'] = True
        elif k == 'I': o['files_first'] = True
        elif k == 'm': o['min_depth'] = int(v)
        elif k == 'M': o['max_depth'] = int(v)
        elif k == 'p': o['suffix'] = v
    return o


def find(d, fn, seed):
    cases = [(s, fl) for s in SETUPS for fl in FLAGSETS]
    lines = ['fs\t' + (s + ';entries /r ' + fl).encode('utf-8').hex() for s, fl in cases]
    outs = d.run(lines, timeout=600)
    for (s, fl), line, o in zip(cases, lines, outs):
        f = o.split('\t')
        if len(f) < 2 or f[0] != 'OK':
            continue
        res = [x for x in f[1].split(';') if x.startswith('entries=')]
        if not res:
            continue
        got = res[0][len('entries=OK('):-1] if res[0].startswith('entries=OK(') else res[0]
        tree = O.tree_from_script(s.split(';'))
        if '/r' not in tree:
            continue
        exp = '|'.join(O.walk_ref(tree, '/r', **opts_of(fl)))
        if got != exp:
            return {'driver_line': line, 'input': {'history': s.split(';'), 'call': 'entries("/r") with options ' + fl}, 'expected': exp, 'got': got,
                    'oracle': 'reference traversal written from the statement of C08 (follow = false): the entry if inside the depth window and accepted by the filter, before (after, with contents_first) the name-sorted / kind-grouped contents of each directory above max_depth'}
    return None
