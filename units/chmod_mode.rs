//@ unit chmod_mode
//@ props C11 C12
// sys::mode (symbolic / octal mode computation), _pop, revoking_mode  (src/sys/fs/chmod.rs)
//@ prelude base errors strs

// the entry as the mode computation sees it (accessors proved transparent in unit delegation / memfs_ops)
pub struct VfsEntry { pub dir: bool, pub file: bool, pub link: bool, pub m: u32 }
impl VfsEntry {
    pub fn is_dir(&self) -> (r: bool) ensures r == self.dir { self.dir }
    pub fn is_file(&self) -> (r: bool) ensures r == self.file { self.file }
    pub fn is_symlink(&self) -> (r: bool) ensures r == self.link { self.link }
    pub fn mode(&self) -> (r: u32) ensures r == self.m { self.m }
}
// R4: `sym.chars().rev().collect()`: the characters in reverse order (a stack whose top is the first character)
#[verifier::external_body]
pub fn rev_chars(s: &Str) -> (r: Vec<char>) ensures r@ == s@.reverse() { unimplemented!() }

//@ struct file=src/sys/fs/chmod.rs name=State kw=enum
#[derive(PartialEq, Eq, Structural, Clone, Copy)]
//@ endstruct

pub proof fn lemma_perm_bits(mode: u32, group: u32, perm: u32)
    requires group & !0o777u32 == 0
    ensures (mode & !(group & perm)) & !0o777u32 == mode & !0o777u32,
            (mode | (group & perm)) & !0o777u32 == mode & !0o777u32,
            ((!group & mode) | (group & perm)) & !0o777u32 == mode & !0o777u32,
{
    assert((mode & !(group & perm)) & !0o777u32 == mode & !0o777u32) by (bit_vector) requires group & !0o777u32 == 0;
    assert((mode | (group & perm)) & !0o777u32 == mode & !0o777u32) by (bit_vector) requires group & !0o777u32 == 0;
    assert(((!group & mode) | (group & perm)) & !0o777u32 == mode & !0o777u32) by (bit_vector) requires group & !0o777u32 == 0;
}
pub proof fn lemma_group_bits(g: u32)
    requires g & !0o777u32 == 0
    ensures (g | 0o0700u32) & !0o777u32 == 0, (g | 0o0070u32) & !0o777u32 == 0, (g | 0o0007u32) & !0o777u32 == 0, (g | 0o0777u32) & !0o777u32 == 0
{
    assert((g | 0o0700u32) & !0o777u32 == 0) by (bit_vector) requires g & !0o777u32 == 0;
    assert((g | 0o0070u32) & !0o777u32 == 0) by (bit_vector) requires g & !0o777u32 == 0;
    assert((g | 0o0007u32) & !0o777u32 == 0) by (bit_vector) requires g & !0o777u32 == 0;
    assert((g | 0o0777u32) & !0o777u32 == 0) by (bit_vector) requires g & !0o777u32 == 0;
}
//@ obligation lemma_perm_bits props=C11
//@ obligation lemma_group_bits props=C11

//@ item _pop file=src/sys/fs/chmod.rs fn=_pop props=C11,C12
//@ rw R5 * re⟦VfsError::(\w+)\(sym\.to_string\(\)\)\.into\(\)⟧ => ⟦VfsError::\1_().into()⟧
pub fn _pop(chars: &mut Vec<char>, sym: &Str) -> (r: RvResult<char>)
    ensures old(chars)@.len() > 0 ==> r is Ok && r->Ok_0 == old(chars)@.last() && final(chars)@ == old(chars)@.drop_last(),
            old(chars)@.len() == 0 ==> r is Err && r->Err_0.kind == ErrKind::InvalidChmod && final(chars)@ == old(chars)@,
//@ body

//@ item mode file=src/sys/fs/chmod.rs fn=mode props=C11,C12
//@ sig pub(crate) fn mode(entry: &VfsEntry, octal: u32, sym: &str) -> RvResult<u32>
//@ rw R5 * re⟦VfsError::(\w+)\(sym\.to_string\(\)\)\.into\(\)⟧ => ⟦VfsError::\1_().into()⟧
//@ rw R4 1 ⟦let mut chars: Vec<char> = sym.chars().rev().collect();⟧ => ⟦let mut chars: Vec<char> = rev_chars(sym);⟧
//@ rw R9 1 ⟦let mut group = 0;⟧ => ⟦let mut group: u32 = 0;⟧
//@ rw R9 1 ⟦let mut perm = 0;⟧ => ⟦let mut perm: u32 = 0;⟧
//@ loop 1
        invariant
            octal == 0, sym@.len() > 0,
            mode & !0o777u32 == entry.m & !0o777u32, group & !0o777u32 == 0,
            entry.link ==> mode == entry.m,
            (state != State::Target) ==> !entry.link,
        decreases chars@.len()
//@ endloop
//@ loop 2
                    invariant_except_break
                        state == State::Target,
                    invariant
                        mode & !0o777u32 == entry.m & !0o777u32, group & !0o777u32 == 0, entry.link ==> mode == entry.m,
                        octal == 0, sym@.len() > 0, chars@.len() <= n0,
                    ensures
                        state == State::Target || (state == State::Group && !entry.link),
                    decreases chars@.len()
//@ endloop
//@ loop 3
                            invariant chars@.len() <= n0
                            decreases chars@.len()
//@ endloop
//@ loop 4
                    invariant_except_break
                        state == State::Group,
                    invariant
                        mode & !0o777u32 == entry.m & !0o777u32, group & !0o777u32 == 0, entry.link ==> mode == entry.m,
                        !entry.link, octal == 0, sym@.len() > 0, chars@.len() <= n0,
                    ensures state == State::Perms,
                    decreases chars@.len()
//@ endloop
//@ loop 5
                    invariant
                        mode & !0o777u32 == entry.m & !0o777u32, group & !0o777u32 == 0, entry.link ==> mode == entry.m,
                        !entry.link, octal == 0, sym@.len() > 0, chars@.len() <= n0,
                        state == State::Perms || state == State::Target,
                    decreases chars@.len(), (if state == State::Perms { 1int } else { 0int })
//@ endloop
//@ ins before ⟦match state { State::Target => {⟧
            let ghost n0 = chars@.len();
            proof { assert(0u32 & !0o777u32 == 0u32) by (bit_vector); }
//@ endins
//@ ins after ⟦let mut state = State::Target;⟧
    proof { assert(0u32 & !0o777u32 == 0u32) by (bit_vector); }
//@ endins
//@ ins before ⟦match c { 'u' => group |= 0o0700,⟧
                    proof { lemma_group_bits(group); }
//@ endins
//@ ins before ⟦match op { '-' => mode &= !(group & perm),⟧
                proof { lemma_perm_bits(mode, group, perm); }
//@ endins
pub fn mode(entry: &VfsEntry, octal: u32, sym: &Str) -> (r: RvResult<u32>)
    ensures
        octal != 0 ==> r is Ok && r->Ok_0 == octal,                                                   //@ clause mode.octal_takes_priority [C11]
        (octal == 0 && sym@.len() == 0) ==> r is Ok && r->Ok_0 == 0,                                   //@ clause mode.empty_expression_is_zero [C11]
        (octal == 0 && sym@.len() > 0 && r is Ok) ==> r->Ok_0 & !0o777u32 == entry.m & !0o777u32,      //@ clause mode.keeps_file_type_bits [C11]
        (octal == 0 && sym@.len() > 0 && r is Ok && entry.link) ==> r->Ok_0 == entry.m,                //@ clause mode.never_alters_a_symlink [C11]
//@ body

//@ item revoking_mode file=src/sys/fs/chmod.rs fn=revoking_mode props=C11,C12
pub fn revoking_mode(old: u32, new: u32) -> (r: bool)
    ensures r == (old & 0o0500 > new & 0o0500 || old & 0o0050 > new & 0o0050 || old & 0o0005 > new & 0o0005)
//@ body
