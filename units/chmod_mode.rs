//@ unit chmod_mode
//@ props C11 C12
// sys::mode (symbolic / octal mode computation), _pop, revoking_mode  (src/sys/fs/chmod.rs)
//@ prelude base errors strs

// the entry as the mode computation sees it (accessors proved transparent in unit delegation / memfs_ops)
pub struct VfsEntry { pub dir: bool, pub file: bool, pub link: bool, pub m: u32 }
impl VfsEntry {
    pub fn is_dir(&self) -> (r: bool) ensures r == self.dir { self.dir }
    pub fn is_file(&self) -> (r: bool) ensures r == self.file { self.file }
    pub fn is_symlink(&self) -> (r: bool) ensures r == self.link { self.link }
    pub fn mode(&self) -> (r: u32) ensures r == self.m { self.m }
}
// R4: `let mut chars: Vec<char> = sym.chars().rev().collect()`: a stack whose top is the FIRST character of sym.
// ASSUMED[vec-rev-stack]: popping a Vec built from the reversed characters yields them in forward order; rest() is what is left
#[verifier::external_body]
pub struct CharStack { x: Vec<char> }
impl CharStack {
    pub uninterp spec fn rest(&self) -> Seq<char>;
    #[verifier::external_body]
    pub fn pop(&mut self) -> (r: Option<char>)
        ensures old(self).rest().len() == 0 ==> r is None && final(self).rest() == old(self).rest(),
                old(self).rest().len() > 0 ==> r == Some(old(self).rest()[0]) && final(self).rest() == old(self).rest().skip(1)
    { unimplemented!() }
    #[verifier::external_body]
    pub fn is_empty(&self) -> (b: bool) ensures b == (self.rest().len() == 0) { unimplemented!() }
}
#[verifier::external_body]
pub fn rev_chars(s: &Str) -> (r: CharStack) ensures r.rest() == s@ { unimplemented!() }

// ---- the documented grammar as a forward interpreter (specification) ----------------------------------------------------
//   expression = clause ("," clause)* ;  clause = [dfa]* ":" [ugoa]+ [-+=] [rwx]+
//   a clause whose target does not match the entry kind (or any clause on a symlink) is skipped; `-` clears, `+` sets, `=` replaces
pub enum Res { Ok(u32), Err(ErrKind), Unspec }
pub enum TScan { Bad(ErrKind), Skip(int), Colon(int) }
pub enum GScan { Bad(ErrKind), Done(u32, char, int) }
pub enum PScan { Bad(ErrKind), End(u32), Comma(u32, int) }
pub enum Phase { T(bool), G, P(u32, char) }     // T(after_comma)
pub open spec fn skip_clause(r: Seq<char>, i: int) -> int decreases r.len() - i {
    if i < 0 || i >= r.len() { r.len() as int } else if r[i] == ',' { i + 1 } else { skip_clause(r, i + 1) }
}
pub open spec fn comma_found(r: Seq<char>, i: int) -> bool decreases r.len() - i {
    if i < 0 || i >= r.len() { false } else if r[i] == ',' { true } else { comma_found(r, i + 1) }
}
pub open spec fn target_scan(e: VfsEntry, r: Seq<char>, i: int) -> TScan decreases r.len() - i {
    if i < 0 || i >= r.len() { TScan::Bad(ErrKind::InvalidChmod) } else {
        let c = r[i];
        if c != 'd' && c != 'f' && c != 'a' && c != ':' { TScan::Bad(ErrKind::InvalidChmodTarget) }
        else if e.link || (c == 'd' && !e.dir) || (c == 'f' && !e.file) { TScan::Skip(skip_clause(r, i + 1)) }
        else if c == ':' { TScan::Colon(i + 1) }
        else { target_scan(e, r, i + 1) }
    }
}
pub open spec fn group_bits(c: char) -> u32 { if c == 'u' { 0o0700u32 } else if c == 'g' { 0o0070u32 } else if c == 'o' { 0o0007u32 } else { 0o0777u32 } }
pub open spec fn group_scan(r: Seq<char>, i: int, g: u32) -> GScan decreases r.len() - i {
    if i < 0 || i >= r.len() { GScan::Bad(ErrKind::InvalidChmod) } else {
        let c = r[i];
        if c == 'u' || c == 'g' || c == 'o' || c == 'a' { group_scan(r, i + 1, g | group_bits(c)) }
        else if c == '-' || c == '+' || c == '=' { GScan::Done(g, c, i + 1) }
        else { GScan::Bad(ErrKind::InvalidChmodGroup) }
    }
}
pub open spec fn perm_bits(c: char) -> u32 { if c == 'r' { 0o0444u32 } else if c == 'w' { 0o0222u32 } else { 0o0111u32 } }
pub open spec fn perm_scan(r: Seq<char>, i: int, p: u32) -> PScan decreases r.len() - i {
    if i < 0 || i >= r.len() { PScan::End(p) } else {
        let c = r[i];
        if c == 'r' || c == 'w' || c == 'x' { if i + 1 < r.len() { perm_scan(r, i + 1, p | perm_bits(c)) } else { PScan::End(p | perm_bits(c)) } }
        else if c == ',' { PScan::Comma(p, i + 1) }
        else { PScan::Bad(ErrKind::InvalidChmodPermissions) }
    }
}
pub open spec fn apply_op(mode: u32, g: u32, op: char, p: u32) -> u32 {
    if op == '-' { mode & !(g & p) } else if op == '+' { mode | (g & p) } else { (!g & mode) | (g & p) }
}
pub proof fn lemma_tscan_bounds(e: VfsEntry, r: Seq<char>, i: int)
    requires 0 <= i
    ensures target_scan(e, r, i) is Skip ==> i < target_scan(e, r, i)->Skip_0 <= r.len(),
            target_scan(e, r, i) is Colon ==> i < target_scan(e, r, i)->Colon_0 <= r.len(),
    decreases r.len() - i
{
    if i < r.len() { lemma_tscan_bounds(e, r, i + 1); lemma_skip_bounds(r, i + 1); }
}
pub proof fn lemma_gscan_bounds(r: Seq<char>, i: int, g: u32)
    requires 0 <= i
    ensures group_scan(r, i, g) is Done ==> i < group_scan(r, i, g)->Done_2 <= r.len(),
    decreases r.len() - i
{
    if i < r.len() { lemma_gscan_bounds(r, i + 1, g | group_bits(r[i])); }
}
pub proof fn lemma_pscan_bounds(r: Seq<char>, i: int, p: u32)
    requires 0 <= i
    ensures perm_scan(r, i, p) is Comma ==> i < perm_scan(r, i, p)->Comma_1 <= r.len(),
    decreases r.len() - i
{
    if i < r.len() { lemma_pscan_bounds(r, i + 1, p | perm_bits(r[i])); }
}
pub proof fn lemma_skip_bounds(r: Seq<char>, i: int)
    requires 0 <= i
    ensures i <= skip_clause(r, i) <= r.len() || (i > r.len() && skip_clause(r, i) == r.len())
    decreases r.len() - i
{
    if i < r.len() && r[i] != ',' { lemma_skip_bounds(r, i + 1); }
}
//@ obligation lemma_tscan_bounds props=C11
//@ obligation lemma_gscan_bounds props=C11
//@ obligation lemma_pscan_bounds props=C11
//@ obligation lemma_skip_bounds props=C11
// `first`: still inside the first clause.  `strict`: the input so far is inside the documented grammar; outside of it the result is
// left unspecified (Res::Unspec) so that no alarm is raised where the documentation is silent:
//   * an error in a LATER clause (the property only speaks about the first clause),
//   * a trailing comma / an empty later clause,
//   * a target list that is not exactly one letter (":u+r", "df:a+r")            -- see known finding chmod-lenient-grammar
//   * an expression that ends in the middle of a clause ("f:", "f:u+")           -- see known finding chmod-lenient-grammar
pub open spec fn fin(strict: bool, res: Res) -> Res { if strict { res } else { Res::Unspec } }
pub open spec fn run(e: VfsEntry, mode: u32, r: Seq<char>, ph: Phase, first: bool, strict: bool) -> Res decreases r.len() via run_dec {
    if r.len() == 0 {
        match ph { Phase::T(ac) => if ac { Res::Unspec } else { fin(strict, Res::Ok(mode)) }, _ => Res::Unspec }
    } else {
        match ph {
            Phase::T(ac) => match target_scan(e, r, 0) {
                TScan::Bad(k) => fin(strict && first, Res::Err(k)),
                TScan::Skip(n) => run(e, mode, r.skip(n), Phase::T(comma_found(r, 0)), false, strict),
                TScan::Colon(n) => run(e, mode, r.skip(n), Phase::G, first, strict && n == 2),
            },
            Phase::G => match group_scan(r, 0, 0) {
                GScan::Bad(k) => fin(strict && first, Res::Err(k)),
                GScan::Done(g, op, n) => if g == 0 { fin(strict && first, Res::Err(ErrKind::InvalidChmodGroup)) } else { run(e, mode, r.skip(n), Phase::P(g, op), first, strict) },
            },
            Phase::P(g, op) => match perm_scan(r, 0, 0) {
                PScan::Bad(k) => fin(strict && first, Res::Err(k)),
                PScan::End(p) => if p == 0 { fin(strict && first, Res::Err(ErrKind::InvalidChmodPermissions)) } else { fin(strict, Res::Ok(apply_op(mode, g, op, p))) },
                PScan::Comma(p, n) => if p == 0 { fin(strict && first, Res::Err(ErrKind::InvalidChmodPermissions)) } else { run(e, apply_op(mode, g, op, p), r.skip(n), Phase::T(true), false, strict) },
            },
        }
    }
}
#[via_fn]
proof fn run_dec(e: VfsEntry, mode: u32, r: Seq<char>, ph: Phase, first: bool, strict: bool) {
    if r.len() > 0 { lemma_tscan_bounds(e, r, 0); lemma_gscan_bounds(r, 0, 0); lemma_pscan_bounds(r, 0, 0); }
}
// what the real function may return for a specification result
pub open spec fn agrees(res: Res, r: RvResult<u32>) -> bool {
    match res { Res::Ok(m) => r is Ok && r->Ok_0 == m, Res::Err(k) => r is Err && r->Err_0.kind == k, Res::Unspec => true }
}
pub open spec fn phase_of(state: State, group: u32, op: char, ac: bool) -> Phase {
    match state { State::Target => Phase::T(ac), State::Group => Phase::G, State::Perms => Phase::P(group, op) }
}

//@ struct file=src/sys/fs/chmod.rs name=State kw=enum
#[derive(PartialEq, Eq, Structural, Clone, Copy)]
//@ endstruct

pub proof fn lemma_perm_bits(mode: u32, group: u32, perm: u32)
    requires group & !0o777u32 == 0
    ensures (mode & !(group & perm)) & !0o777u32 == mode & !0o777u32,
            (mode | (group & perm)) & !0o777u32 == mode & !0o777u32,
            ((!group & mode) | (group & perm)) & !0o777u32 == mode & !0o777u32,
{
    assert((mode & !(group & perm)) & !0o777u32 == mode & !0o777u32) by (bit_vector) requires group & !0o777u32 == 0;
    assert((mode | (group & perm)) & !0o777u32 == mode & !0o777u32) by (bit_vector) requires group & !0o777u32 == 0;
    assert(((!group & mode) | (group & perm)) & !0o777u32 == mode & !0o777u32) by (bit_vector) requires group & !0o777u32 == 0;
}
pub proof fn lemma_group_bits(g: u32)
    requires g & !0o777u32 == 0
    ensures (g | 0o0700u32) & !0o777u32 == 0, (g | 0o0070u32) & !0o777u32 == 0, (g | 0o0007u32) & !0o777u32 == 0, (g | 0o0777u32) & !0o777u32 == 0
{
    assert((g | 0o0700u32) & !0o777u32 == 0) by (bit_vector) requires g & !0o777u32 == 0;
    assert((g | 0o0070u32) & !0o777u32 == 0) by (bit_vector) requires g & !0o777u32 == 0;
    assert((g | 0o0007u32) & !0o777u32 == 0) by (bit_vector) requires g & !0o777u32 == 0;
    assert((g | 0o0777u32) & !0o777u32 == 0) by (bit_vector) requires g & !0o777u32 == 0;
}
//@ obligation lemma_perm_bits props=C11
//@ obligation lemma_group_bits props=C11

//@ item _pop file=src/sys/fs/chmod.rs fn=_pop props=C11,C12
//@ rw R5 * re⟦VfsError::(\w+)\(sym\.to_string\(\)\)\.into\(\)⟧ => ⟦VfsError::\1_().into()⟧
pub fn _pop(chars: &mut CharStack, sym: &Str) -> (r: RvResult<char>)
    ensures old(chars).rest().len() > 0 ==> r is Ok && r->Ok_0 == old(chars).rest()[0] && final(chars).rest() == old(chars).rest().skip(1),
            old(chars).rest().len() == 0 ==> r is Err && r->Err_0.kind == ErrKind::InvalidChmod && final(chars).rest() == old(chars).rest(),
//@ body

//@ item mode file=src/sys/fs/chmod.rs fn=mode props=C11,C12
//@ sig pub(crate) fn mode(entry: &VfsEntry, octal: u32, sym: &str) -> RvResult<u32>
//@ rw R5 * re⟦VfsError::(\w+)\(sym\.to_string\(\)\)\.into\(\)⟧ => ⟦VfsError::\1_().into()⟧
//@ rw R4 * ⟦let mut chars: Vec<char> = sym.chars().rev().collect();⟧ => ⟦let mut chars: CharStack = rev_chars(sym);⟧
//@ rw R9 1 ⟦let mut group = 0;⟧ => ⟦let mut group: u32 = 0;⟧
//@ rw R9 1 ⟦let mut perm = 0;⟧ => ⟦let mut perm: u32 = 0;⟧
//@ loop 1
        invariant
            octal == 0, sym@.len() > 0,
            mode & !0o777u32 == entry.m & !0o777u32, group & !0o777u32 == 0,
            entry.link ==> mode == entry.m,
            (state != State::Target) ==> !entry.link,
            prev == chars.rest(),
            !done ==> run(*entry, mode, prev, phase_of(state, group, op, ac), gf, gs) == goal,
            done ==> prev.len() == 0 && fin(gs, Res::Ok(mode)) == goal,
            state == State::Group ==> group == 0,
        decreases chars.rest().len()
//@ endloop
//@ loop 2
                    invariant_except_break
                        state == State::Target,
                        target_scan(*entry, R, i) == target_scan(*entry, R, 0),
                        chars.rest() == R.skip(i + 1),
                    invariant
                        mode & !0o777u32 == entry.m & !0o777u32, group & !0o777u32 == 0, entry.link ==> mode == entry.m,
                        octal == 0, sym@.len() > 0, chars.rest().len() <= n0,
                        0 <= i < R.len(), c == R[i], group == 0,
                    ensures
                        (state == State::Target && target_scan(*entry, R, 0) == TScan::Skip(skip_clause(R, i + 1)) && chars.rest() == R.skip(skip_clause(R, i + 1)))
                        || (state == State::Group && !entry.link && target_scan(*entry, R, 0) == TScan::Colon(i + 1) && chars.rest() == R.skip(i + 1)),
                    decreases chars.rest().len()
//@ endloop
//@ loop 3
                            invariant_except_break
                                skip_clause(R, j) == skip_clause(R, i + 1),
                            invariant
                                chars.rest().len() <= n0, i + 1 <= j <= R.len(), chars.rest() == R.skip(j),
                            ensures
                                chars.rest() == R.skip(skip_clause(R, i + 1)),
                            decreases chars.rest().len()
//@ endloop
//@ loop 4
                    invariant_except_break
                        state == State::Group,
                        group_scan(R, i, group) == group_scan(R, 0, 0),
                    invariant
                        mode & !0o777u32 == entry.m & !0o777u32, group & !0o777u32 == 0, entry.link ==> mode == entry.m,
                        !entry.link, octal == 0, sym@.len() > 0, chars.rest().len() <= n0,
                        0 <= i < R.len(), c == R[i], chars.rest() == R.skip(i + 1),
                    ensures state == State::Perms, group_scan(R, 0, 0) == GScan::Done(group, op, i + 1),
                    decreases chars.rest().len()
//@ endloop
//@ loop 5
                    invariant_except_break
                        state == State::Perms ==> perm_scan(R, i, perm) == perm_scan(R, 0, 0),
                    invariant
                        mode & !0o777u32 == entry.m & !0o777u32, group & !0o777u32 == 0, entry.link ==> mode == entry.m,
                        !entry.link, octal == 0, sym@.len() > 0, chars.rest().len() <= n0,
                        state == State::Perms || state == State::Target,
                        0 <= i < R.len(), c == R[i], chars.rest() == R.skip(i + 1),
                        state == State::Target ==> perm_scan(R, 0, 0) == PScan::Comma(perm, i + 1),
                    ensures
                        state == State::Perms ==> perm_scan(R, 0, 0) == PScan::End(perm) && chars.rest().len() == 0,
                    decreases chars.rest().len(), (if state == State::Perms { 1int } else { 0int })
//@ endloop
//@ ins after ⟦let mut state = State::Target;⟧
    let ghost goal = run(*entry, entry.m, sym@, Phase::T(false), true, true);
    let ghost mut ac: bool = false;
    let ghost mut prev = chars.rest();
    let ghost mut gf: bool = true;
    let ghost mut gs: bool = true;
    let ghost mut done: bool = false;
    proof { assert(0u32 & !0o777u32 == 0u32) by (bit_vector); }
//@ endins
//@ ins before ⟦match state { State::Target => {⟧
            let ghost n0 = chars.rest().len();
            let ghost R = prev;
            let ghost mut i: int = 0;
            proof {
                assert(0u32 & !0o777u32 == 0u32) by (bit_vector);
                assert(R.len() > 0 && c == R[0] && chars.rest() == R.skip(1));
                lemma_tscan_bounds(*entry, R, 0); lemma_gscan_bounds(R, 0, 0); lemma_pscan_bounds(R, 0, 0);
            }
//@ endins
//@ ins loopend 1
            proof { prev = chars.rest(); }
//@ endins
//@ ins afterloop 2
                proof { if state == State::Target { gf = false; ac = comma_found(R, 0); } else { gs = gs && (i + 1 == 2); } }
//@ endins
//@ ins after ⟦_ => mode = (!group & mode) | (group & perm), }⟧
                proof { if state == State::Target { gf = false; ac = true; } else { done = true; } }
//@ endins
//@ ins before ⟦while let Some(x) = chars.pop() {⟧
                        let ghost mut j: int = i + 1;
//@ endins
//@ ins before ⟦if x == ',' { break; }⟧
                            proof {
                                assert(x == R[j]);
                                assert(R.skip(j).skip(1) =~= R.skip(j + 1));
                                j = j + 1;
                            }
//@ endins
//@ ins before#1 ⟦c = _pop(&mut chars, sym)?;⟧
                    proof {
                        assert(target_scan(*entry, R, i) == target_scan(*entry, R, i + 1));
                        if i + 1 >= R.len() { assert(target_scan(*entry, R, i + 1) == TScan::Bad(ErrKind::InvalidChmod)); assert(R.skip(i + 1).len() == 0); }
                    }
//@ endins
//@ ins before#2 ⟦c = _pop(&mut chars, sym)?;⟧
                    proof {
                        if i + 1 >= R.len() { assert(group_scan(R, i + 1, group) == GScan::Bad(ErrKind::InvalidChmod)); assert(R.skip(i + 1).len() == 0); }
                    }
//@ endins
//@ ins after#1 ⟦c = _pop(&mut chars, sym)?;⟧
                    proof { assert(R.skip(i + 1).skip(1) =~= R.skip(i + 2)); i = i + 1; }
//@ endins
//@ ins after#2 ⟦c = _pop(&mut chars, sym)?;⟧
                    proof { assert(R.skip(i + 1).skip(1) =~= R.skip(i + 2)); i = i + 1; }
//@ endins
//@ ins after ⟦c = chars.pop().unwrap();⟧
                                proof { assert(R.skip(i + 1).skip(1) =~= R.skip(i + 2)); i = i + 1; }
//@ endins
//@ ins before ⟦match c { 'u' => group |= 0o0700,⟧
                    proof { lemma_group_bits(group); }
//@ endins
//@ ins before ⟦match op { '-' => mode &= !(group & perm),⟧
                proof { lemma_perm_bits(mode, group, perm); }
//@ endins
#[verifier::loop_isolation(false)]
#[verifier::allow_complex_invariants]
pub fn mode(entry: &VfsEntry, octal: u32, sym: &Str) -> (r: RvResult<u32>)
    ensures
        octal != 0 ==> r is Ok && r->Ok_0 == octal,                                                   //@ clause mode.octal_takes_priority [C11]
        (octal == 0 && sym@.len() == 0) ==> r is Ok && r->Ok_0 == 0,                                   //@ clause mode.empty_expression_is_zero [C11]
        (octal == 0 && sym@.len() > 0 && r is Ok) ==> r->Ok_0 & !0o777u32 == entry.m & !0o777u32,      //@ clause mode.keeps_file_type_bits [C11]
        (octal == 0 && sym@.len() > 0 && r is Ok && entry.link) ==> r->Ok_0 == entry.m,                //@ clause mode.never_alters_a_symlink [C11]
        // the result is exactly what the documented grammar prescribes (forward interpreter `run`), value or error kind
        (octal == 0 && sym@.len() > 0) ==> agrees(run(*entry, entry.m, sym@, Phase::T(false), true, true), r),          //@ clause mode.equals_grammar_interpreter [C11]
//@ body

//@ item revoking_mode file=src/sys/fs/chmod.rs fn=revoking_mode props=C11,C12
pub fn revoking_mode(old: u32, new: u32) -> (r: bool)
    ensures r == (old & 0o0500 > new & 0o0500 || old & 0o0050 > new & 0o0050 || old & 0o0005 > new & 0o0005)
//@ body

// =====================================================================================================================
// The documented grammar, clause by clause, and the theorem that the interpreter (hence, by the clause above, the real
// sys::mode) computes exactly its left-to-right fold for every well-formed expression, and fails for a malformed first clause.
pub struct Clause { pub t: char, pub g: Seq<char>, pub op: char, pub p: Seq<char> }
pub open spec fn is_target(c: char) -> bool { c == 'd' || c == 'f' || c == 'a' }
pub open spec fn is_group(c: char) -> bool { c == 'u' || c == 'g' || c == 'o' || c == 'a' }
pub open spec fn is_op(c: char) -> bool { c == '-' || c == '+' || c == '=' }
pub open spec fn is_perm(c: char) -> bool { c == 'r' || c == 'w' || c == 'x' }
pub open spec fn wf_clause(c: Clause) -> bool {
    &&& is_target(c.t) && is_op(c.op) && c.g.len() > 0 && c.p.len() > 0
    &&& forall|i: int| 0 <= i < c.g.len() ==> is_group(#[trigger] c.g[i])
    &&& forall|i: int| 0 <= i < c.p.len() ==> is_perm(#[trigger] c.p[i])
}
pub open spec fn render(c: Clause) -> Seq<char> { seq![c.t, ':'] + c.g + seq![c.op] + c.p }
pub open spec fn gfold(g: Seq<char>) -> u32 decreases g.len() { if g.len() == 0 { 0 } else { group_bits(g[0]) | gfold(g.skip(1)) } }
pub open spec fn pfold(p: Seq<char>) -> u32 decreases p.len() { if p.len() == 0 { 0 } else { perm_bits(p[0]) | pfold(p.skip(1)) } }
pub open spec fn applies(e: VfsEntry, c: Clause) -> bool { !e.link && !(c.t == 'd' && !e.dir) && !(c.t == 'f' && !e.file) }
pub open spec fn sem1(e: VfsEntry, m: u32, c: Clause) -> u32 { if applies(e, c) { apply_op(m, gfold(c.g), c.op, pfold(c.p)) } else { m } }
pub open spec fn sem(e: VfsEntry, m: u32, cs: Seq<Clause>) -> u32 decreases cs.len() { if cs.len() == 0 { m } else { sem(e, sem1(e, m, cs[0]), cs.skip(1)) } }
pub open spec fn render_all(cs: Seq<Clause>) -> Seq<char> decreases cs.len() {
    if cs.len() == 0 { Seq::empty() } else if cs.len() == 1 { render(cs[0]) } else { render(cs[0]) + seq![','] + render_all(cs.skip(1)) }
}

pub proof fn lemma_or_assoc(a: u32, b: u32, c: u32) ensures (a | b) | c == a | (b | c), a | 0u32 == a, 0u32 | a == a {
    assert((a | b) | c == a | (b | c)) by (bit_vector);
    assert(a | 0u32 == a) by (bit_vector);
    assert(0u32 | a == a) by (bit_vector);
}
pub proof fn lemma_bits_nonzero(a: u32, c: char)
    ensures is_group(c) ==> (group_bits(c) | a) != 0, is_perm(c) ==> (perm_bits(c) | a) != 0
{
    assert((0o0700u32 | a) != 0) by (bit_vector); assert((0o0070u32 | a) != 0) by (bit_vector);
    assert((0o0007u32 | a) != 0) by (bit_vector); assert((0o0777u32 | a) != 0) by (bit_vector);
    assert((0o0444u32 | a) != 0) by (bit_vector); assert((0o0222u32 | a) != 0) by (bit_vector); assert((0o0111u32 | a) != 0) by (bit_vector);
}
// scanning the group letters g (at offset k of r) followed by an operator
pub proof fn lemma_group_run(r: Seq<char>, k: int, g: Seq<char>, op: char, acc: u32, i: int)
    requires 0 <= k, 0 <= i <= g.len(), k + g.len() < r.len(), is_op(op), r[k + g.len()] == op,
             forall|j: int| 0 <= j < g.len() ==> r[k + j] == g[j] && is_group(#[trigger] g[j]),
    ensures group_scan(r, k + i, acc) == GScan::Done(acc | gfold(g.skip(i)), op, k + g.len() + 1)
    decreases g.len() - i
{
    if i == g.len() {
        assert(g.skip(i) =~= Seq::<char>::empty());
        lemma_or_assoc(acc, 0, 0);
    } else {
        let c = g[i];
        assert(r[k + i] == c);
        lemma_group_run(r, k, g, op, acc | group_bits(c), i + 1);
        assert(g.skip(i).skip(1) =~= g.skip(i + 1));
        assert(g.skip(i)[0] == c);
        lemma_or_assoc(acc, group_bits(c), gfold(g.skip(i + 1)));
    }
}
// scanning the permission letters p (at offset k of r) up to the end of input or a comma
pub proof fn lemma_perm_run(r: Seq<char>, k: int, p: Seq<char>, acc: u32, i: int)
    requires 0 <= k, 0 <= i < p.len(), k + p.len() <= r.len(), (k + p.len() < r.len() ==> r[k + p.len()] == ','),
             forall|j: int| 0 <= j < p.len() ==> r[k + j] == p[j] && is_perm(#[trigger] p[j]),
    ensures perm_scan(r, k + i, acc) == (if k + p.len() == r.len() { PScan::End(acc | pfold(p.skip(i))) } else { PScan::Comma(acc | pfold(p.skip(i)), k + p.len() + 1) })
    decreases p.len() - i
{
    let c = p[i];
    assert(r[k + i] == c);
    assert(p.skip(i).skip(1) =~= p.skip(i + 1));
    assert(p.skip(i)[0] == c);
    if i + 1 == p.len() {
        assert(p.skip(i + 1) =~= Seq::<char>::empty());
        lemma_or_assoc(acc, perm_bits(c), 0);
        lemma_or_assoc(acc | perm_bits(c), 0, 0);
        if k + p.len() < r.len() {
            assert(r[k + i + 1] == ',');
            assert(perm_scan(r, k + i + 1, acc | perm_bits(c)) == PScan::Comma(acc | perm_bits(c), k + i + 2));
        }
        assert(pfold(p.skip(i)) == perm_bits(c) | pfold(p.skip(i + 1)));
        assert(pfold(p.skip(i + 1)) == 0);
    } else {
        lemma_perm_run(r, k, p, acc | perm_bits(c), i + 1);
        lemma_or_assoc(acc, perm_bits(c), pfold(p.skip(i + 1)));
    }
}
pub proof fn lemma_fold_nonzero(g: Seq<char>, p: Seq<char>)
    ensures (g.len() > 0 && is_group(g[0])) ==> gfold(g) != 0, (p.len() > 0 && is_perm(p[0])) ==> pfold(p) != 0
{
    if g.len() > 0 { lemma_bits_nonzero(gfold(g.skip(1)), g[0]); }
    if p.len() > 0 { lemma_bits_nonzero(pfold(p.skip(1)), p[0]); }
}
// no character of a rendered clause is a comma, so skipping a clause stops exactly at the separator behind it (or at the end)
pub proof fn lemma_skip_rendered(r: Seq<char>, n: int, i: int)
    requires 0 <= i <= n <= r.len(), forall|j: int| 0 <= j < n ==> #[trigger] r[j] != ',', (n < r.len() ==> r[n] == ',')
    ensures skip_clause(r, i) == (if n < r.len() { n + 1 } else { n }), comma_found(r, i) == (n < r.len())
    decreases n - i
{
    if i < n { lemma_skip_rendered(r, n, i + 1); }
}
//@ obligation lemma_or_assoc props=C11
//@ obligation lemma_bits_nonzero props=C11
//@ obligation lemma_group_run props=C11
//@ obligation lemma_perm_run props=C11
//@ obligation lemma_fold_nonzero props=C11
//@ obligation lemma_skip_rendered props=C11

// one well-formed clause in front of `tail` (empty, or a comma followed by the rest of the expression)
pub proof fn lemma_clause_step(e: VfsEntry, m: u32, c: Clause, tail: Seq<char>, ac: bool, first: bool)
    requires wf_clause(c), tail.len() == 0 || tail[0] == ','
    ensures run(e, m, render(c) + tail, Phase::T(ac), first, true) ==
                (if tail.len() == 0 { Res::Ok(sem1(e, m, c)) } else { run(e, sem1(e, m, c), tail.skip(1), Phase::T(true), false, true) })
{
    let rc = render(c);
    let r = rc + tail;
    let n = rc.len() as int;
    let gl = c.g.len() as int;
    let pl = c.p.len() as int;
    assert(n == 2 + gl + 1 + pl);
    assert(r[0] == c.t && r[1] == ':');
    assert forall|j: int| 0 <= j < gl implies r[2 + j] == c.g[j] by { }
    assert(r[2 + gl] == c.op);
    assert forall|j: int| 0 <= j < pl implies r[2 + gl + 1 + j] == c.p[j] by { }
    if tail.len() > 0 { assert(r[n] == ','); }
    assert(is_group(c.g[0]) && is_perm(c.p[0]));
    lemma_fold_nonzero(c.g, c.p);
    assert(gfold(c.g) != 0 && pfold(c.p) != 0);
    if applies(e, c) {
        // targets: one matching letter then ':'
        assert(target_scan(e, r, 0) == target_scan(e, r, 1));
        assert(target_scan(e, r, 1) == TScan::Colon(2));
        let r2 = r.skip(2);
        assert(r2.len() > 0);
        assert forall|j: int| 0 <= j < gl implies r2[0 + j] == c.g[j] && is_group(#[trigger] c.g[j]) by { assert(r2[j] == r[2 + j]); }
        assert(r2[0 + gl] == c.op);
        lemma_group_run(r2, 0, c.g, c.op, 0, 0);
        assert(c.g.skip(0) =~= c.g);
        lemma_or_assoc(gfold(c.g), 0, 0);
        assert(group_scan(r2, 0, 0) == GScan::Done(gfold(c.g), c.op, gl + 1));
        let r3 = r2.skip(gl + 1);
        assert(r3 =~= r.skip(2 + gl + 1));
        assert(r3.len() > 0);
        assert forall|j: int| 0 <= j < pl implies r3[0 + j] == c.p[j] && is_perm(#[trigger] c.p[j]) by { assert(r3[j] == r[2 + gl + 1 + j]); }
        if tail.len() > 0 { assert(r3[0 + pl] == ','); }
        lemma_perm_run(r3, 0, c.p, 0, 0);
        assert(c.p.skip(0) =~= c.p);
        lemma_or_assoc(pfold(c.p), 0, 0);
        if tail.len() > 0 { assert(r3.skip(pl + 1) =~= tail.skip(1)); }
        assert(run(e, m, r, Phase::T(ac), first, true) == run(e, m, r2, Phase::G, first, true));
        assert(run(e, m, r2, Phase::G, first, true) == run(e, m, r3, Phase::P(gfold(c.g), c.op), first, true));
        if tail.len() == 0 {
            assert(perm_scan(r3, 0, 0) == PScan::End(pfold(c.p)));
            assert(run(e, m, r3, Phase::P(gfold(c.g), c.op), first, true) == fin(true, Res::Ok(apply_op(m, gfold(c.g), c.op, pfold(c.p)))));
        } else {
            assert(run(e, m, r3, Phase::P(gfold(c.g), c.op), first, true) == run(e, apply_op(m, gfold(c.g), c.op, pfold(c.p)), r3.skip(pl + 1), Phase::T(true), false, true));
            assert(perm_scan(r3, 0, 0) == PScan::Comma(pfold(c.p), pl + 1));
        }
    } else {
        assert(target_scan(e, r, 0) == TScan::Skip(skip_clause(r, 1)));
        assert forall|j: int| 0 <= j < n implies #[trigger] r[j] != ',' by {
            if j >= 2 && j < 2 + gl { assert(is_group(c.g[j - 2])); }
            if j > 2 + gl { assert(is_perm(c.p[j - 3 - gl])); }
        }
        lemma_skip_rendered(r, n, 1);
        lemma_skip_rendered(r, n, 0);
        if tail.len() > 0 { assert(r.skip(n + 1) =~= tail.skip(1)); } else { assert(r.skip(n) =~= Seq::<char>::empty()); }
        assert(run(e, m, r, Phase::T(ac), first, true) == run(e, m, r.skip(skip_clause(r, 1)), Phase::T(comma_found(r, 0)), false, true));
        assert(sem1(e, m, c) == m);
        if tail.len() == 0 { assert(skip_clause(r, 1) == n); assert(!comma_found(r, 0)); assert(run(e, m, r.skip(n), Phase::T(false), false, true) == Res::Ok(m)); }
        else { assert(skip_clause(r, 1) == n + 1); assert(comma_found(r, 0)); }
    }
}
//@ obligation lemma_clause_step props=C11

// THEOREM: for every well-formed expression the interpreter yields exactly the left-to-right fold of its clauses
pub proof fn theorem_grammar_fold(e: VfsEntry, m: u32, cs: Seq<Clause>, ac: bool, first: bool)
    requires cs.len() > 0, forall|i: int| 0 <= i < cs.len() ==> wf_clause(#[trigger] cs[i])
    ensures run(e, m, render_all(cs), Phase::T(ac), first, true) == Res::Ok(sem(e, m, cs))      //@ clause mode.value_is_the_fold_of_the_documented_grammar [C11]
    decreases cs.len()
{
    if cs.len() == 1 {
        lemma_clause_step(e, m, cs[0], Seq::empty(), ac, first);
        assert(render(cs[0]) + Seq::<char>::empty() =~= render(cs[0]));
        assert(cs.skip(1) =~= Seq::<Clause>::empty());
        assert(sem(e, sem1(e, m, cs[0]), cs.skip(1)) == sem1(e, m, cs[0]));
    } else {
        let rest = cs.skip(1);
        let tail = seq![','] + render_all(rest);
        lemma_clause_step(e, m, cs[0], tail, ac, first);
        assert(render(cs[0]) + seq![','] + render_all(rest) =~= render(cs[0]) + tail);
        assert(tail.skip(1) =~= render_all(rest));
        assert forall|i: int| 0 <= i < rest.len() implies wf_clause(#[trigger] rest[i]) by { assert(rest[i] == cs[i + 1]); }
        theorem_grammar_fold(e, sem1(e, m, cs[0]), rest, true, false);
    }
}
//@ obligation theorem_grammar_fold props=C11

// A malformed FIRST clause is an error (for an entry the clause's single target letter applies to, or an invalid target letter)
pub proof fn theorem_malformed_first_clause(e: VfsEntry, m: u32, s: Seq<char>)
    requires s.len() > 0
    ensures
        // invalid target letter
        (s[0] != 'd' && s[0] != 'f' && s[0] != 'a' && s[0] != ':') ==> run(e, m, s, Phase::T(false), true, true) == Res::Err(ErrKind::InvalidChmodTarget),     //@ clause mode.bad_target_is_error [C11]
        // `t:` followed by something that is neither a group letter nor an operator, or by an operator with no group letter at all
        (s.len() >= 3 && is_target(s[0]) && s[1] == ':' && !e.link && !(s[0] == 'd' && !e.dir) && !(s[0] == 'f' && !e.file) && !is_group(s[2])) ==>
            run(e, m, s, Phase::T(false), true, true) == Res::Err(ErrKind::InvalidChmodGroup),                                                                  //@ clause mode.missing_or_bad_group_is_error [C11]
        // `t:g<op>` followed by a character that is not a permission letter (including a comma: empty permission list)
        (s.len() >= 5 && is_target(s[0]) && s[1] == ':' && !e.link && !(s[0] == 'd' && !e.dir) && !(s[0] == 'f' && !e.file) && is_group(s[2]) && is_op(s[3]) && !is_perm(s[4])) ==>
            run(e, m, s, Phase::T(false), true, true) == Res::Err(ErrKind::InvalidChmodPermissions),                                                            //@ clause mode.missing_or_bad_perms_is_error [C11]
{
    if s.len() >= 3 && is_target(s[0]) && s[1] == ':' && !e.link && !(s[0] == 'd' && !e.dir) && !(s[0] == 'f' && !e.file) {
        assert(target_scan(e, s, 0) == target_scan(e, s, 1));
        assert(target_scan(e, s, 1) == TScan::Colon(2));
        let r2 = s.skip(2);
        assert(r2[0] == s[2]);
        assert(r2.len() > 0);
        assert(run(e, m, s, Phase::T(false), true, true) == run(e, m, r2, Phase::G, true, true));
        if !is_group(s[2]) {
            if is_op(s[2]) { assert(group_scan(r2, 0, 0) == GScan::Done(0, s[2], 1)); } else { assert(group_scan(r2, 0, 0) == GScan::Bad(ErrKind::InvalidChmodGroup)); }
            assert(run(e, m, r2, Phase::G, true, true) == Res::Err(ErrKind::InvalidChmodGroup));
        } else if s.len() >= 5 && is_op(s[3]) && !is_perm(s[4]) {
            assert(r2[1] == s[3]);
            lemma_bits_nonzero(0, s[2]);
            lemma_or_assoc(group_bits(s[2]), 0, 0);
            assert(group_scan(r2, 0, 0) == group_scan(r2, 1, 0 | group_bits(s[2])));
            assert(group_scan(r2, 1, 0 | group_bits(s[2])) == GScan::Done(0 | group_bits(s[2]), s[3], 2));
            assert((0u32 | group_bits(s[2])) != 0) by { lemma_bits_nonzero(0, s[2]); assert(group_bits(s[2]) | 0u32 == 0u32 | group_bits(s[2])) by (bit_vector); }
            let r3 = r2.skip(2);
            assert(r3[0] == s[4]);
            if s[4] == ',' { assert(perm_scan(r3, 0, 0) == PScan::Comma(0, 1)); } else { assert(perm_scan(r3, 0, 0) == PScan::Bad(ErrKind::InvalidChmodPermissions)); }
            assert(r3.len() > 0);
            assert(run(e, m, r2, Phase::G, true, true) == run(e, m, r3, Phase::P(0u32 | group_bits(s[2]), s[3]), true, true));
            assert(run(e, m, r3, Phase::P(0u32 | group_bits(s[2]), s[3]), true, true) == Res::Err(ErrKind::InvalidChmodPermissions));
        }
    }
}
//@ obligation theorem_malformed_first_clause props=C11
