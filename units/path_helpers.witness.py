import os, sys
sys.path.insert(0, os.path.join(os.path.dirname(os.path.abspath(__file__)), '..', 'vc'))
import oracles as O


def _val(o):
    f = o.split('\t')
    return O.unhex(f[1]) if o.startswith('OK') and len(f) > 1 else ('' if o.startswith('OK') else o)


def find(d, fn, seed):
    A = ['/', 'a', 'é', '.']
    if fn in ('trim_prefix', 'trim_suffix'):
        pairs = [(s, t) for s in O.strings(A, 4) for t in O.strings(A, 2)]
        outs = d.run(['%s\t%s\t%s' % (fn, O.hexs(s), O.hexs(t)) for s, t in pairs])
        ref = O.trim_prefix if fn == 'trim_prefix' else O.trim_suffix
        for (s, t), o in zip(pairs, outs):
            exp = ref(s, t)
            if _val(o) != exp:
                return {'driver_line': '%s\t%s\t%s' % (fn, O.hexs(s), O.hexs(t)), 'input': {'path': s, 'arg': t}, 'expected': exp, 'got': _val(o), 'oracle': 'string prefix/suffix removal'}
    if fn == 'mash':
        pairs = [(s, t) for s in O.strings(['/', 'a', '.'], 3) for t in O.strings(['/', 'b', '.'], 4)]
        outs = d.run(['mash\t%s\t%s' % (O.hexs(s), O.hexs(t)) for s, t in pairs])
        for (s, t), o in zip(pairs, outs):
            exp = O.mash(s, t)
            if O.comps(_val(o)) != O.comps(exp):
                return {'driver_line': 'mash\t%s\t%s' % (O.hexs(s), O.hexs(t)), 'input': {'dir': s, 'base': t}, 'expected': exp, 'got': _val(o), 'oracle': 'dir components followed by base components without the leading separator'}
    if fn in ('trim_first', 'trim_last'):
        ins = list(O.strings(['/', 'a', 'b', '.'], 5))
        outs = d.run(['%s\t%s' % (fn, O.hexs(s)) for s in ins])
        for s, o in zip(ins, outs):
            cs = O.comps(s)
            exp = cs[1:] if fn == 'trim_first' else cs[:-1]
            if O.comps(_val(o)) != exp:
                return {'driver_line': '%s\t%s' % (fn, O.hexs(s)), 'input': {'path': s}, 'expected': O.render(exp), 'got': _val(o), 'oracle': 'component sequence without its first / last component'}
    return None
