//@ unit core_string
//@ props C19 C12 C15
// StringExt for str and String (src/core/string.rs) on the string shim: size, to_bool, trim_suffix.
//@ prelude base errors strs

//@ obligation lemma_byte_len_add props=C19,C15
//@ obligation lemma_byte_len_mono props=C19,C15
//@ obligation lemma_boundary_unique props=C19,C15

// if t is a suffix of s then len(s) - len(t) is the byte length of the remaining prefix, hence a character boundary
pub proof fn lemma_suffix_boundary(s: Seq<char>, t: Seq<char>)
    requires is_suffix(t, s)
    ensures byte_len(s) >= byte_len(t), byte_len(s.take(s.len() - t.len())) == byte_len(s) - byte_len(t),
            is_boundary(s, byte_len(s) - byte_len(t))
{
    let k = s.len() - t.len();
    assert(s.take(k) + s.skip(k) =~= s);
    lemma_byte_len_add(s.take(k), s.skip(k));
}
pub proof fn lemma_prefix_boundary(s: Seq<char>, p: Seq<char>)
    requires is_prefix(p, s)
    ensures byte_len(s) >= byte_len(p), is_boundary(s, byte_len(p) as int), byte_len(s.take(p.len() as int)) == byte_len(p)
{
    let k = p.len() as int;
    assert(s.take(k) + s.skip(k) =~= s);
    lemma_byte_len_add(s.take(k), s.skip(k));
}
//@ obligation lemma_suffix_boundary props=C19,C15
//@ obligation lemma_prefix_boundary props=C19,C15

// trim_suffix: exactly one trailing occurrence is removed, or nothing
pub open spec fn spec_trim_suffix(s: Seq<char>, t: Seq<char>) -> Seq<char> { if is_suffix(t, s) { s.take(s.len() - t.len()) } else { s } }

//@ item str_size file=src/core/string.rs block="impl StringExt for str" fn=size
//@ rw R2 + re⟦\bself\b⟧ => ⟦this⟧
//@ rw R4 + re⟦this\.(chars|bytes|encode_utf16)\(\)\.count\(\)⟧ => ⟦this.\1_count()⟧
pub fn str_size(this: &Str) -> (n: usize) ensures n == this@.len()     //@ clause size.is_number_of_characters [C19]
//@ body
//@ item string_size file=src/core/string.rs block="impl StringExt for String" fn=size
//@ rw R2 + re⟦\bself\b⟧ => ⟦this⟧
//@ rw R4 + re⟦this\.(chars|bytes|encode_utf16)\(\)\.count\(\)⟧ => ⟦this.\1_count()⟧
pub fn string_size(this: &Str) -> (n: usize) ensures n == this@.len()     //@ clause size.is_number_of_characters [C19]
//@ body

//@ item string_to_bool file=src/core/string.rs block="impl StringExt for String" fn=to_bool
//@ rw R2 + re⟦\bself\b⟧ => ⟦this⟧
//@ rw R1 * ⟦x == "false"⟧ => ⟦x.eq_lit("false")⟧
//@ rw R1 * ⟦x == "0"⟧ => ⟦x.eq_lit("0")⟧
pub fn string_to_bool(this: &Str) -> (b: bool)
    ensures b == !(this@.len() == 0 || lower(this@) == "false"@ || lower(this@) == "0"@)     //@ clause to_bool.false_exactly_for_empty_0_false [C19]
//@ body
//@ item str_to_bool file=src/core/string.rs block="impl StringExt for str" fn=to_bool
//@ rw R2 + re⟦\bself\b⟧ => ⟦this⟧
//@ rw R2 * ⟦this.to_string().to_bool()⟧ => ⟦string_to_bool(&this.to_string())⟧
pub fn str_to_bool(this: &Str) -> (b: bool)
    ensures b == !(this@.len() == 0 || lower(this@) == "false"@ || lower(this@) == "0"@)     //@ clause to_bool.false_exactly_for_empty_0_false [C19]
//@ body

//@ item str_trim_suffix file=src/core/string.rs block="impl StringExt for str" fn=trim_suffix
//@ rw R2 + re⟦\bself\b⟧ => ⟦this⟧
//@ rw R7 * re⟦this\[\.\.([^\]]+)\]\.to_owned\(\)⟧ => ⟦this.slice_to(\1).to_owned()⟧
//@ ins after ⟦let target = suffix.into();⟧
        proof { if is_suffix(target@, this@) { lemma_suffix_boundary(this@, target@); } }
        proof { assert forall|k: int| 0 <= k <= this@.len() && is_suffix(target@, this@) && #[trigger] byte_len(this@.take(k)) == byte_len(this@) - byte_len(target@) implies k == this@.len() - target@.len() by { lemma_boundary_unique(this@, k, this@.len() - target@.len()); } }
//@ endins
pub fn str_trim_suffix(this: &Str, suffix: Str) -> (r: Str)
    ensures r@ == spec_trim_suffix(this@, suffix@)     //@ clause trim_suffix.removes_exactly_one_trailing_occurrence [C19]
//@ body
//@ item string_trim_suffix file=src/core/string.rs block="impl StringExt for String" fn=trim_suffix
//@ rw R2 + re⟦\bself\b⟧ => ⟦this⟧
//@ rw R7 * re⟦this\[\.\.([^\]]+)\]\.to_owned\(\)⟧ => ⟦this.slice_to(\1).to_owned()⟧
//@ ins after ⟦let target = suffix.into();⟧
        proof { if is_suffix(target@, this@) { lemma_suffix_boundary(this@, target@); } }
        proof { assert forall|k: int| 0 <= k <= this@.len() && is_suffix(target@, this@) && #[trigger] byte_len(this@.take(k)) == byte_len(this@) - byte_len(target@) implies k == this@.len() - target@.len() by { lemma_boundary_unique(this@, k, this@.len() - target@.len()); } }
//@ endins
pub fn string_trim_suffix(this: &Str, suffix: Str) -> (r: Str)
    ensures r@ == spec_trim_suffix(this@, suffix@)     //@ clause trim_suffix.removes_exactly_one_trailing_occurrence [C19]
//@ body
