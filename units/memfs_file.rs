//@ unit memfs_file
//@ props C07 C12 C06 C03
// MemfsFile: the in-memory handle returned by Memfs::read / write / append.
// Contracts are std::io::Cursor's documented behaviour (property C07), byte-exact data flow (C06),
// sync's frame on the shared state (C03) and panic freedom for every position / offset / buffer (C12).
//@ prelude base errors io iter path_abs memfs_state

//@ struct file=src/sys/fs/memfs/file.rs name=MemfsFile
//@ endstruct
//@ struct file=src/sys/fs/memfs/entry.rs name=MemfsEntry
//@ rw R4 * ⟦Option<HashSet<String>>⟧ => ⟦Option<NameSet>⟧
//@ endstruct

// R7: `dst[..n].copy_from_slice(&src[a..b])` -- the preconditions are exactly Rust's panic conditions
// ASSUMED[slice-copy]: slice indexing panics iff the range is out of bounds / decreasing; copy_from_slice panics iff lengths differ, else copies
#[verifier::external_body]
pub fn slice_copy_to(dst: &mut [u8], n: usize, src: &[u8], a: usize, b: usize)
    requires n <= old(dst)@.len(), a <= b, b <= src@.len(), b - a == n
    ensures final(dst)@ == src@.subrange(a as int, b as int) + old(dst)@.skip(n as int)
{ unimplemented!() }
// R7: `&buf[..n]` on a byte slice: panics unless n <= len
#[verifier::external_body]
pub fn slice_to_u8(b: &[u8], n: usize) -> (r: &[u8]) requires n <= b@.len() ensures r@ == b@.take(n as int) { unimplemented!() }
// R4: `self.data.write(buf)` is `impl Write for Vec<u8>`.  ASSUMED[io-vec-write]: appends all of buf, returns Ok(buf.len())
#[verifier::external_body]
pub fn vec_write(v: &mut Vec<u8>, buf: &[u8]) -> (r: io::Result<usize>)
    ensures final(v)@ == old(v)@ + buf@, r is Ok, r->Ok_0 == buf@.len()
{ unimplemented!() }
// R4: `Vec::clone_from` (Verus does not support it).  ASSUMED[vec-clone-from]: a.clone_from(b) makes a equal to b
#[verifier::external_body]
pub fn vec_clone_from(a: &mut Vec<u8>, b: &Vec<u8>) ensures final(a)@ == b@ { unimplemented!() }

pub open spec fn remaining(f: &MemfsFile) -> int { if f.pos as int <= f.data@.len() { f.data@.len() - f.pos as int } else { 0 } }
pub open spec fn min_int(a: int, b: int) -> int { if a <= b { a } else { b } }

impl MemfsFile {
    // a handle is either unbound (fs/path None) or bound to an absolute clean path (set by Memfs::write/append from abs())
    pub open spec fn bound_ok(&self) -> bool { self.path is Some ==> self.path->Some_0.abs_clean() }

//@ item len file=src/sys/fs/memfs/file.rs block="impl MemfsFile" fn=len props=C07,C12
//@ sig pub(crate) fn len(&self) -> u64
    pub fn len(&self) -> (r: u64)
        ensures r as int == remaining(self), //@ clause len.post [C07]
//@ body

//@ item sync file=src/sys/fs/memfs/file.rs block="impl MemfsFile" fn=sync props=C07,C06,C03,C12,C20
//@ sig pub(crate) fn sync(&mut self) -> io::Result<()>
//@ rw R11 1 ⟦let mut guard = fs.write_guard();⟧ => ⟦⟧
//@ rw R4 * ⟦f.data.clone_from(&self.data);⟧ => ⟦vec_clone_from(&mut f.data, &self.data);⟧
//@ rw R5 * re⟦format!\((?:[^()]|\([^()]*\))*\)⟧ => ⟦io::Msg{}⟧
    pub fn sync(&mut self, guard: &mut MemfsGuard) -> (r: io::Result<()>)
        requires old(self).bound_ok(),
        ensures
            *final(self) == *old(self),   //@ clause sync.handle_unchanged [C07]
            // unbound handle: nothing happens
            (old(self).fs is None || old(self).path is None) ==> r is Ok && final(guard).st() == old(guard).st(),
            (old(self).fs is Some && old(self).path is Some) ==> ({
                let p = old(self).path->Some_0@;
                let s0 = old(guard).st();
                let s1 = final(guard).st();
                // target entry vanished: NotFound, nothing changed
                &&& !s0.entries.contains_key(p) ==> r is Err && r->Err_0.kind == io::ErrorKind::NotFound && s1 == s0   //@ clause sync.notfound [C07,C01]
                // otherwise Ok; the file content becomes exactly the handle's data; every other file, every entry and the cwd are unchanged
                &&& s0.entries.contains_key(p) ==> r is Ok
                &&& (s0.entries.contains_key(p) && s0.files.contains_key(p)) ==>
                        s1 == (St { files: s0.files.insert(p, FileV { data: old(self).data@, pos: s0.files[p].pos }), ..s0 })   //@ clause sync.persist_and_frame [C07,C06,C03]
                &&& (s0.entries.contains_key(p) && !s0.files.contains_key(p)) ==> s1 == s0
            }),
//@ body

//@ item read file=src/sys/fs/memfs/file.rs block="impl io::Read for MemfsFile" fn=read props=C07,C12,C06
//@ sig fn read(&mut self, buf: &mut [u8]) -> io::Result<usize>
//@ rw R7 * re⟦buf\[\.\.(\w+)\]\.copy_from_slice\(&self\.data\.as_slice\(\)\[(\w+)\.\.([^\]]+)\]\);⟧ => ⟦slice_copy_to(buf, \1, self.data.as_slice(), \2, \3);⟧
    pub fn read(&mut self, buf: &mut [u8]) -> (r: io::Result<usize>)
        ensures
            r is Ok,                                                                           //@ clause read.ok [C07]
            r->Ok_0 as int == min_int(old(buf)@.len() as int, remaining(old(self))),           //@ clause read.count [C07]
            final(self).pos as int == old(self).pos as int + r->Ok_0 as int,                   //@ clause read.pos [C07]
            final(self).data@ == old(self).data@ && final(self).path == old(self).path && final(self).fs == old(self).fs,
            final(buf)@.len() == old(buf)@.len(),
            forall|i: int| 0 <= i < r->Ok_0 as int ==> final(buf)@[i] == old(self).data@[old(self).pos as int + i],   //@ clause read.bytes [C07,C06]
            forall|i: int| r->Ok_0 as int <= i < old(buf)@.len() ==> final(buf)@[i] == old(buf)@[i],              //@ clause read.rest_untouched [C07]
//@ body

//@ item seek file=src/sys/fs/memfs/file.rs block="impl io::Seek for MemfsFile" fn=seek props=C07,C12,C06
//@ sig fn seek(&mut self, pos: io::SeekFrom) -> std::io::Result<u64>
    pub fn seek(&mut self, pos: io::SeekFrom) -> (r: io::Result<u64>)
        ensures
            final(self).data@ == old(self).data@ && final(self).path == old(self).path && final(self).fs == old(self).fs,
            ({
                let target: int = match pos {
                    io::SeekFrom::Start(o) => o as int,
                    io::SeekFrom::Current(o) => old(self).pos as int + o as int,
                    io::SeekFrom::End(o) => old(self).data@.len() as int + o as int,
                };
                &&& (0 <= target <= u64::MAX as int) ==> r is Ok && r->Ok_0 as int == target && final(self).pos as int == target   //@ clause seek.in_range [C07]
                &&& !(0 <= target <= u64::MAX as int) ==> r is Err && final(self).pos == old(self).pos                             //@ clause seek.before_start_is_error_pos_unchanged [C07]
            }),
//@ body

//@ item write file=src/sys/fs/memfs/file.rs block="impl io::Write for MemfsFile" fn=write props=C07,C06,C12
//@ sig fn write(&mut self, buf: &[u8]) -> io::Result<usize>
//@ rw R4 * re⟦self\.data\.write\(([^()]*(?:\([^()]*\))?[^()]*)\)⟧ => ⟦vec_write(&mut self.data, \1)⟧
//@ rw R7 * re⟦&buf\[\.\.([^\]]+)\]⟧ => ⟦slice_to_u8(buf, \1)⟧
    pub fn write(&mut self, buf: &[u8]) -> (r: io::Result<usize>)
        ensures r is Ok, r->Ok_0 == buf@.len(),
                final(self).data@ == old(self).data@ + buf@,     //@ clause write.appends_all [C07,C06]
                final(self).pos == old(self).pos && final(self).path == old(self).path && final(self).fs == old(self).fs,
//@ body

//@ item flush file=src/sys/fs/memfs/file.rs block="impl io::Write for MemfsFile" fn=flush props=C07,C06,C12
//@ sig fn flush(&mut self) -> io::Result<()>
//@ rw R11 1 ⟦self.sync()⟧ => ⟦self.sync(guard)⟧
    pub fn flush(&mut self, guard: &mut MemfsGuard) -> (r: io::Result<()>)
        requires old(self).bound_ok(),
        ensures
            *final(self) == *old(self),
            (old(self).fs is Some && old(self).path is Some && old(guard).st().entries.contains_key(old(self).path->Some_0@)
               && old(guard).st().files.contains_key(old(self).path->Some_0@)) ==>
                r is Ok && final(guard).st().files[old(self).path->Some_0@].data == old(self).data@,    //@ clause flush.makes_data_visible [C07,C06]
            forall|q: PathV| q != old(self).path->Some_0@ ==> (final(guard).st().files.contains_key(q) == old(guard).st().files.contains_key(q)
               && (old(guard).st().files.contains_key(q) ==> final(guard).st().files[q] == old(guard).st().files[q])),   //@ clause flush.other_files_untouched [C06]
            final(guard).st().entries == old(guard).st().entries,
//@ body

//@ item drop file=src/sys/fs/memfs/file.rs block="impl Drop for MemfsFile" fn=drop props=C07,C06,C12
//@ sig fn drop(&mut self)
//@ rw R11 1 ⟦self.sync()⟧ => ⟦self.sync(guard)⟧
    pub fn drop(&mut self, guard: &mut MemfsGuard)
        requires old(self).bound_ok(),
        ensures
            (old(self).fs is Some && old(self).path is Some && old(guard).st().entries.contains_key(old(self).path->Some_0@)
               && old(guard).st().files.contains_key(old(self).path->Some_0@)) ==>
                final(guard).st() == (St { files: old(guard).st().files.insert(old(self).path->Some_0@, FileV { data: old(self).data@, pos: old(guard).st().files[old(self).path->Some_0@].pos }), ..old(guard).st() }),  //@ clause drop.persists_exactly_the_bytes_written [C07,C06]
            !(old(self).fs is Some && old(self).path is Some && old(guard).st().entries.contains_key(old(self).path->Some_0@)
               && old(guard).st().files.contains_key(old(self).path->Some_0@)) ==> final(guard).st() == old(guard).st(),
            final(self).fs is None && final(self).path is None,
//@ body
}
