import os, sys
sys.path.insert(0, os.path.join(os.path.dirname(os.path.abspath(__file__)), '..', 'vc'))
import oracles as O


def find(d, fn, seed):
    if fn == 'drop':
        cases = [(n, k) for n in range(0, 6) for k in range(-7, 8)]
        outs = d.run(['drop\t%d\t%d' % c for c in cases])
        for (n, k), o in zip(cases, outs):
            exp = ','.join(str(x) for x in O.drop_ref(n, k))
            got = o.split('\t')[1] if o.startswith('OK') and '\t' in o else ('' if o.startswith('OK') else o)
            if got != exp:
                return {'driver_line': 'drop\t%d\t%d' % (n, k), 'input': {'len': n, 'n': k}, 'expected': exp, 'got': got, 'oracle': 'drop n from the front (n >= 0) or |n| from the back'}
    return None
