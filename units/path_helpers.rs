//@ unit path_helpers
//@ props C15 C12
// String- and component-level path helpers of src/sys/fs/path.rs.
//@ prelude base errors iter strs path_comps

//@ obligation lemma_byte_len_add props=C15
// ---- ToStringExt for Path (src/core/string.rs): Ok(the path's string) iff it is valid UTF-8
// Option::ok_or + `?` on the shim types
pub fn ok_or_str<'a>(o: Option<&'a Str>, e: PathError) -> (r: Result<&'a Str, RvError>)
    ensures o is Some ==> r is Ok && r->Ok_0@ == o->Some_0@, o is None ==> r is Err && r->Err_0.kind == e.kind
{ match o { Some(s) => Ok(s), None => Err(e.into()) } }
impl PathBuf {
//@ item path_to_string file=src/core/string.rs block="impl ToStringExt for Path" fn=to_string props=C15,C12
//@ rw R1 1 ⟦self.to_str().ok_or(PathError::failed_to_string(self))?⟧ => ⟦ok_or_str(self.to_str(), PathError::failed_to_string(self))?⟧
//@ rw R1 1 ⟦Ok(String::from(_str))⟧ => ⟦Ok(_str.to_string())⟧
    pub fn to_string(&self) -> (r: RvResult<Str>)
        ensures r is Ok == self.utf8_ok(), r is Ok ==> r->Ok_0@ == self.pstr(), r is Err ==> r->Err_0.kind == ErrKind::FailedToString
//@ body
}

pub proof fn lemma_prefix_boundary(s: Seq<char>, p: Seq<char>)
    requires is_prefix(p, s)
    ensures byte_len(s) >= byte_len(p), is_boundary(s, byte_len(p) as int), byte_len(s.take(p.len() as int)) == byte_len(p)
{
    let k = p.len() as int;
    assert(s.take(k) + s.skip(k) =~= s);
    lemma_byte_len_add(s.take(k), s.skip(k));
}
pub proof fn lemma_suffix_boundary(s: Seq<char>, t: Seq<char>)
    requires is_suffix(t, s)
    ensures byte_len(s) >= byte_len(t), byte_len(s.take(s.len() - t.len())) == byte_len(s) - byte_len(t),
            is_boundary(s, byte_len(s) - byte_len(t))
{
    let k = s.len() - t.len();
    assert(s.take(k) + s.skip(k) =~= s);
    lemma_byte_len_add(s.take(k), s.skip(k));
}
//@ obligation lemma_prefix_boundary props=C15
//@ obligation lemma_suffix_boundary props=C15

//@ item trim_prefix file=src/sys/fs/path.rs fn=trim_prefix props=C15,C12
//@ sig pub fn trim_prefix<T: AsRef<Path>, U: AsRef<Path>>(path: T, prefix: U) -> PathBuf
//@ rw R7 * re⟦PathBuf::from\(&base\[([^\]]+)\.\.\]\)⟧ => ⟦PathBuf::from_s(&base.slice_from(\1))⟧
//@ ins start
    proof {
        if path.utf8_ok() && prefix.utf8_ok() && is_prefix(prefix.pstr(), path.pstr()) {
            lemma_prefix_boundary(path.pstr(), prefix.pstr());
            assert forall|k: int| 0 <= k <= path.pstr().len() && #[trigger] byte_len(path.pstr().take(k)) == byte_len(prefix.pstr()) implies k == prefix.pstr().len() by {
                lemma_boundary_unique(path.pstr(), k, prefix.pstr().len() as int); }
        }
    }
//@ endins
pub fn trim_prefix(path: &PathBuf, prefix: &PathBuf) -> (r: PathBuf)
    ensures
        (path.utf8_ok() && prefix.utf8_ok() && is_prefix(prefix.pstr(), path.pstr())) ==> r.pstr() == path.pstr().skip(prefix.pstr().len() as int),   //@ clause trim_prefix.removes_the_prefix [C15]
        !(path.utf8_ok() && prefix.utf8_ok() && is_prefix(prefix.pstr(), path.pstr())) ==> r.pstr() == path.pstr() && r.comps() == path.comps(),        //@ clause trim_prefix.otherwise_unchanged [C15]
//@ body

//@ item trim_suffix file=src/sys/fs/path.rs fn=trim_suffix props=C15,C12
//@ sig pub fn trim_suffix<T: AsRef<Path>, U: AsRef<Path>>(path: T, suffix: U) -> PathBuf
//@ rw R7 * re⟦PathBuf::from\(&base\[\.\.([^\]]+)\]\)⟧ => ⟦PathBuf::from_s(&base.slice_to(\1))⟧
//@ ins start
    proof {
        if path.utf8_ok() && suffix.utf8_ok() && is_suffix(suffix.pstr(), path.pstr()) {
            lemma_suffix_boundary(path.pstr(), suffix.pstr());
            assert forall|k: int| 0 <= k <= path.pstr().len() && #[trigger] byte_len(path.pstr().take(k)) == byte_len(path.pstr()) - byte_len(suffix.pstr()) implies k == path.pstr().len() - suffix.pstr().len() by {
                lemma_boundary_unique(path.pstr(), k, path.pstr().len() - suffix.pstr().len()); }
        }
    }
//@ endins
pub fn trim_suffix(path: &PathBuf, suffix: &PathBuf) -> (r: PathBuf)
    ensures
        (path.utf8_ok() && suffix.utf8_ok() && is_suffix(suffix.pstr(), path.pstr())) ==> r.pstr() == path.pstr().take(path.pstr().len() - suffix.pstr().len()),   //@ clause trim_suffix.removes_the_suffix [C15]
        !(path.utf8_ok() && suffix.utf8_ok() && is_suffix(suffix.pstr(), path.pstr())) ==> r.pstr() == path.pstr() && r.comps() == path.comps(),                     //@ clause trim_suffix.otherwise_unchanged [C15]
//@ body
