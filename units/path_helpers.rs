//@ unit path_helpers
//@ props C15 C12
// String- and component-level path helpers of src/sys/fs/path.rs.
//@ prelude base errors iter strs path_comps

//@ obligation lemma_byte_len_add props=C15
// ---- ToStringExt for Path (src/core/string.rs): Ok(the path's string) iff it is valid UTF-8
// Option::ok_or + `?` on the shim types
pub fn ok_or_str<'a>(o: Option<&'a Str>, e: PathError) -> (r: Result<&'a Str, RvError>)
    ensures o is Some ==> r is Ok && r->Ok_0@ == o->Some_0@, o is None ==> r is Err && r->Err_0.kind == e.kind
{ match o { Some(s) => Ok(s), None => Err(e.into()) } }
impl PathBuf {
//@ item path_to_string file=src/core/string.rs block="impl ToStringExt for Path" fn=to_string props=C15,C12,C05,C17,C14
//@ rw R1 * ⟦self.to_str().ok_or(PathError::failed_to_string(self))?⟧ => ⟦ok_or_str(self.to_str(), PathError::failed_to_string(self))?⟧
//@ rw R1 * ⟦Ok(String::from(_str))⟧ => ⟦Ok(_str.to_string())⟧
    pub fn to_string(&self) -> (r: RvResult<Str>)
        ensures r is Ok == self.utf8_ok(), r is Ok ==> r->Ok_0@ == self.pstr(), r is Err ==> r->Err_0.kind == ErrKind::FailedToString
//@ body
}

pub proof fn lemma_prefix_boundary(s: Seq<char>, p: Seq<char>)
    requires is_prefix(p, s)
    ensures byte_len(s) >= byte_len(p), is_boundary(s, byte_len(p) as int), byte_len(s.take(p.len() as int)) == byte_len(p)
{
    let k = p.len() as int;
    assert(s.take(k) + s.skip(k) =~= s);
    lemma_byte_len_add(s.take(k), s.skip(k));
}
pub proof fn lemma_suffix_boundary(s: Seq<char>, t: Seq<char>)
    requires is_suffix(t, s)
    ensures byte_len(s) >= byte_len(t), byte_len(s.take(s.len() - t.len())) == byte_len(s) - byte_len(t),
            is_boundary(s, byte_len(s) - byte_len(t))
{
    let k = s.len() - t.len();
    assert(s.take(k) + s.skip(k) =~= s);
    lemma_byte_len_add(s.take(k), s.skip(k));
}
//@ obligation lemma_prefix_boundary props=C15
//@ obligation lemma_suffix_boundary props=C15

//@ item trim_prefix file=src/sys/fs/path.rs fn=trim_prefix props=C15,C12,C09,C01,C03
//@ sig pub fn trim_prefix<T: AsRef<Path>, U: AsRef<Path>>(path: T, prefix: U) -> PathBuf
//@ rw R7 * re⟦PathBuf::from\(&base\[([^\]]+)\.\.\]\)⟧ => ⟦PathBuf::from_s(&base.slice_from(\1))⟧
//@ rw R4 * ⟦.chars().count()⟧ => ⟦.chars_count()⟧
//@ rw R1 * ⟦PathBuf::from(⟧ => ⟦PathBuf::from_s(⟧
//@ ins start
    proof {
        if path.utf8_ok() && prefix.lu() && is_prefix(prefix.lp(), path.pstr()) {
            lemma_prefix_boundary(path.pstr(), prefix.lp());
            assert forall|k: int| 0 <= k <= path.pstr().len() && #[trigger] byte_len(path.pstr().take(k)) == byte_len(prefix.lp()) implies k == prefix.lp().len() by {
                lemma_boundary_unique(path.pstr(), k, prefix.lp().len() as int); }
        }
    }
//@ endins
pub fn trim_prefix<U: PathLike>(path: &PathBuf, prefix: U) -> (r: PathBuf)
    ensures
        (path.utf8_ok() && prefix.lu() && is_prefix(prefix.lp(), path.pstr())) ==> r.pstr() == path.pstr().skip(prefix.lp().len() as int),   //@ clause trim_prefix.removes_the_prefix [C15]
        !(path.utf8_ok() && prefix.lu() && is_prefix(prefix.lp(), path.pstr())) ==> r.pstr() == path.pstr() && r.comps() == path.comps(),        //@ clause trim_prefix.otherwise_unchanged [C15]
//@ body

//@ item trim_suffix file=src/sys/fs/path.rs fn=trim_suffix props=C15,C12
//@ sig pub fn trim_suffix<T: AsRef<Path>, U: AsRef<Path>>(path: T, suffix: U) -> PathBuf
//@ rw R7 * re⟦PathBuf::from\(&base\[\.\.([^\]]+)\]\)⟧ => ⟦PathBuf::from_s(&base.slice_to(\1))⟧
//@ rwall R7 re⟦PathBuf::from\(&(\w+)\[\.\.([^\]]+)\]\)⟧ => ⟦PathBuf::from_s(&\1.slice_to(\2))⟧
//@ rw R4 * ⟦.chars().count()⟧ => ⟦.chars_count()⟧
//@ ins start
    proof {
        if path.utf8_ok() && suffix.lu() && is_suffix(suffix.lp(), path.pstr()) {
            lemma_suffix_boundary(path.pstr(), suffix.lp());
            assert forall|k: int| 0 <= k <= path.pstr().len() && #[trigger] byte_len(path.pstr().take(k)) == byte_len(path.pstr()) - byte_len(suffix.lp()) implies k == path.pstr().len() - suffix.lp().len() by {
                lemma_boundary_unique(path.pstr(), k, path.pstr().len() - suffix.lp().len()); }
        }
    }
//@ endins
pub fn trim_suffix<U: PathLike>(path: &PathBuf, suffix: U) -> (r: PathBuf)
    ensures
        (path.utf8_ok() && suffix.lu() && is_suffix(suffix.lp(), path.pstr())) ==> r.pstr() == path.pstr().take(path.pstr().len() - suffix.lp().len()) && r.comps() == parse(r.pstr()),   //@ clause trim_suffix.removes_the_suffix [C15]
        !(path.utf8_ok() && suffix.lu() && is_suffix(suffix.lp(), path.pstr())) ==> r.pstr() == path.pstr() && r.comps() == path.comps(),                     //@ clause trim_suffix.otherwise_unchanged [C15]
//@ body

// ---- mash(dir, base): dir followed by base with every leading separator removed
// R4: `path.components().collect::<PathBuf>()` re-pushes each component onto an empty path (canonical string form)
#[verifier::external_body]
pub fn collect_components(it: Components) -> (r: PathBuf) ensures r.comps() == collect_spec(Seq::empty(), it.rest()), r.canonical() { unimplemented!() }
pub open spec fn strip_root(p: Comps) -> Comps { if is_abs(p) { p.skip(1) } else { p } }
pub open spec fn strip_lead(p: Comps) -> Comps { if p.len() > 0 && (p[0] == Component::RootDir || p[0] == Component::CurDir) { p.skip(1) } else { p } }
pub open spec fn spec_mash(d: Comps, p: Comps) -> Comps { collect_spec(Seq::empty(), collect_spec(d, strip_root(p))) }

//@ obligation lemma_collect_snoc props=C15
//@ obligation lemma_collect_plain props=C15
//@ obligation lemma_collect_std props=C15
// the containment law: for a non-empty dir the result is dir followed by base without its leading separator / dot
pub proof fn lemma_mash_contains_dir(d: Comps, p: Comps)
    requires std_comps(d), std_comps(p), d.len() > 0
    ensures spec_mash(d, p) == d + strip_lead(p),                   //@ clause mash.components_are_dir_then_base [C15]
            spec_mash(d, p).take(d.len() as int) == d               //@ clause mash.result_stays_under_dir [C15]
{
    let q = strip_root(p);
    assert forall|i: int| 0 <= i < q.len() implies q[i] != Component::RootDir by { if is_abs(p) { assert(q[i] == p[i + 1]); } }
    if q.len() > 0 && q[0] == Component::CurDir {
        // leading `.` of a relative base is normalised away when pushed onto a non-empty path
        let a2 = push_spec(d, q[0]);
        assert(a2 == d);
        assert forall|i: int| 0 <= i < q.skip(1).len() implies q.skip(1)[i] != Component::RootDir && (q.skip(1)[i] != Component::CurDir || (i == 0 && a2.len() == 0)) by { assert(q.skip(1)[i] == q[i + 1]); assert(q[i + 1] == p[i + 1]); }
        lemma_collect_plain(d, q.skip(1));
        assert(strip_lead(p) =~= q.skip(1));
    } else {
        assert forall|i: int| 0 <= i < q.len() implies q[i] != Component::RootDir && (q[i] != Component::CurDir || (i == 0 && d.len() == 0)) by {
            if is_abs(p) { assert(q[i] == p[i + 1]); } else { assert(q[i] == p[i]); }
        }
        lemma_collect_plain(d, q);
        assert(strip_lead(p) =~= q);
    }
    let m = d + strip_lead(p);
    assert(std_comps(m)) by {
        assert forall|i: int| 0 < i < m.len() implies m[i] != Component::RootDir && m[i] != Component::CurDir by {
            if i >= d.len() { let j = i - d.len(); if p.len() > 0 && (p[0] == Component::RootDir || p[0] == Component::CurDir) { assert(strip_lead(p)[j] == p[j + 1]); } else { assert(strip_lead(p)[j] == p[j]); } }
        }
    }
    lemma_collect_std(m);
    assert(m.take(d.len() as int) =~= d);
}
//@ obligation lemma_mash_contains_dir props=C15

//@ item mash file=src/sys/fs/path.rs fn=mash props=C15,C05,C17,C18,C12,C09,C01,C10
//@ sig pub fn mash<T: AsRef<Path>, U: AsRef<Path>>(dir: T, base: U) -> PathBuf
//@ rw R3 * for
// a string literal where a path is expected (`trim_prefix(base, "/")`): R1
//@ rw R1 * re⟦\btrim_prefix\(([^,()]+), "([^"]*)"\)⟧ => ⟦trim_prefix(\1, &PathBuf::from_s(Str::lit("\2")))⟧
//@ rw R1 * re⟦\.join\(base\)⟧ => ⟦.join(base.to_path_buf())⟧
//@ rw R4 * ⟦path.components().collect::<PathBuf>()⟧ => ⟦collect_components(path.components())⟧
//@ ins start
    let ghost d = dir.comps();
    let ghost p = base.comps();
    let ghost mut k: int = 0;
//@ endins
//@ loop? 1
        invariant
            d == dir.comps(), p == base.comps(), std_comps(p), 0 <= k <= p.len(),
            __it1.rest() == p.skip(k),
            path.comps() == collect_spec(d, strip_root(p.take(k))),
        ensures k == p.len(),
        decreases p.len() - k
//@ endloop
//@ ins? after ⟦None => break };⟧
        proof {
            k = k + 1;
            assert(p.take(k) =~= p.take(k - 1).push(component));
            if component != Component::RootDir {
                assert(strip_root(p.take(k)) =~= strip_root(p.take(k - 1)).push(component));
                lemma_collect_snoc(d, strip_root(p.take(k - 1)), component);
            } else {
                assert(k == 1);
                assert(strip_root(p.take(1)) =~= Seq::<Component>::empty());
                assert(strip_root(p.take(0)) =~= Seq::<Component>::empty());
            }
        }
//@ endins
//@ ins? before ⟦collect_components(path.components())⟧
    proof { assert(p.take(p.len() as int) =~= p); }
//@ endins
pub fn mash(dir: &PathBuf, base: &PathBuf) -> (r: PathBuf)
    ensures r.comps() == spec_mash(dir.comps(), base.comps()),     //@ clause mash.post [C15,C05]
            r.canonical(),
//@ body

// ---- single-component splitters
//@ item base file=src/sys/fs/path.rs fn=base props=C15,C12,C01,C03,C09
//@ sig pub fn base<T: AsRef<Path>>(path: T) -> RvResult<String>
pub fn base(path: &PathBuf) -> (r: RvResult<Str>)
    ensures path.comps().len() == 0 ==> r is Err && r->Err_0.kind == ErrKind::ItemNotFound,
            (path.comps().len() > 0 && r is Ok) ==> r->Ok_0@ == comp_str(path.comps().last()),     //@ clause base.is_last_component [C15]
            (path.comps().len() > 0 && !(path.comps().last() is Normal)) ==> r is Ok,
//@ body
//@ item last file=src/sys/fs/path.rs fn=last props=C15,C12
pub fn last(path: &PathBuf) -> (r: RvResult<Str>)
    ensures path.comps().len() == 0 ==> r is Err, (path.comps().len() > 0 && r is Ok) ==> r->Ok_0@ == comp_str(path.comps().last()),     //@ clause last.is_last_component [C15]
//@ body
//@ item first file=src/sys/fs/path.rs fn=first props=C15,C12
pub fn first(path: &PathBuf) -> (r: RvResult<Str>)
    ensures path.comps().len() == 0 ==> r is Err && r->Err_0.kind == ErrKind::ItemNotFound,
            (path.comps().len() > 0 && r is Ok) ==> r->Ok_0@ == comp_str(path.comps()[0]),     //@ clause first.is_first_component [C15]
//@ body
//@ item trim_first file=src/sys/fs/path.rs fn=trim_first props=C15,C05,C12,C17
pub fn trim_first(path: &PathBuf) -> (r: PathBuf)
    ensures r.comps() =~= (if path.comps().len() > 0 { path.comps().skip(1) } else { path.comps() }),     //@ clause trim_first.splits_off_exactly_one [C15]
//@ body
//@ item trim_last file=src/sys/fs/path.rs fn=trim_last props=C15,C12
pub fn trim_last(path: &PathBuf) -> (r: PathBuf)
    ensures r.comps() =~= (if path.comps().len() > 0 { path.comps().drop_last() } else { path.comps() }),     //@ clause trim_last.splits_off_exactly_one [C15]
//@ body
// Option::ok_or_else(|| PathError::parent_not_found(path)) (closure outside Verus): R4
pub fn ok_or_parent<'a>(o: Option<&'a PathBuf>, p: &PathBuf) -> (r: Result<&'a PathBuf, RvError>)
    ensures o is Some ==> r is Ok && same_path(r->Ok_0, o->Some_0), o is None ==> r is Err && r->Err_0.kind == ErrKind::ParentNotFound
{ match o { Some(s) => Ok(s), None => Err(PathError::parent_not_found(p).into()) } }
// ASSUMED[is-empty-contract]: path::is_empty (proved in unit path_clean)
#[verifier::external_body]
pub fn is_empty(path: &PathBuf) -> (b: bool) ensures b == (path.comps().len() == 0) { unimplemented!() }
//@ item dir file=src/sys/fs/path.rs fn=dir props=C15,C05,C12,C01,C03,C09
//@ rw R4 * ⟦path.parent().ok_or_else(|| PathError::parent_not_found(path))?⟧ => ⟦ok_or_parent(path.parent(), path)?⟧
pub fn dir(path: &PathBuf) -> (r: RvResult<PathBuf>)
    ensures (path.comps().len() == 0 || path.comps() == seq![Component::RootDir]) ==> r is Err && r->Err_0.kind == ErrKind::ParentNotFound,
            !(path.comps().len() == 0 || path.comps() == seq![Component::RootDir]) ==> r is Ok && r->Ok_0.comps() == path.comps().drop_last(),     //@ clause dir.splits_off_exactly_one [C15]
//@ body

// ---- string containment helpers
//@ item has file=src/sys/fs/path.rs fn=has props=C15,C12
//@ rw R9 1 ⟦(Ok(base), Ok(path)) => base.contains(&path),⟧ => ⟦(Ok(base), Ok(path2)) => base.contains(&path2),⟧
pub fn has(path: &PathBuf, val: &PathBuf) -> (r: bool)
    ensures (path.utf8_ok() && val.utf8_ok()) ==> r == (exists|i: int| 0 <= i && i + val.pstr().len() <= path.pstr().len() && #[trigger] path.pstr().subrange(i, i + val.pstr().len()) == val.pstr()),     //@ clause has.agrees_with_string_containment [C15]
            !(path.utf8_ok() && val.utf8_ok()) ==> !r,
//@ body
//@ item has_prefix file=src/sys/fs/path.rs fn=has_prefix props=C15,C17,C12,C05
pub fn has_prefix(path: &PathBuf, prefix: &PathBuf) -> (r: bool)
    ensures r == (path.utf8_ok() && prefix.utf8_ok() && is_prefix(prefix.pstr(), path.pstr())),     //@ clause has_prefix.agrees_with_string_prefix [C15]
//@ body
//@ item has_suffix file=src/sys/fs/path.rs fn=has_suffix props=C15,C12
pub fn has_suffix(path: &PathBuf, suffix: &PathBuf) -> (r: bool)
    ensures r == (path.utf8_ok() && suffix.utf8_ok() && is_suffix(suffix.pstr(), path.pstr())),     //@ clause has_suffix.agrees_with_string_suffix [C15]
//@ body

// R4: format!("{}{}", a, b) is string concatenation
#[verifier::external_body]
pub fn fmt_concat(a: Str, b: &Str) -> (r: Str) ensures r@ == a@ + b@ { unimplemented!() }
//@ item concat file=src/sys/fs/path.rs fn=concat props=C15,C12
//@ rw R4 * re⟦format!\("\{\}\{\}", (path\.as_ref\(\)\.to_string\(\)\?[^,]*), val\.as_ref\(\)\)⟧ => ⟦&fmt_concat(\1, val.as_ref())⟧
//@ rw R1 * ⟦PathBuf::from(⟧ => ⟦PathBuf::from_s(⟧
pub fn concat(path: &PathBuf, val: &Str) -> (r: RvResult<PathBuf>)
    ensures r is Ok == path.utf8_ok(), r is Ok ==> r->Ok_0.pstr() == path.pstr() + val@,     //@ clause concat.appends_without_separator [C15]
//@ body

// ---- trim_protocol: removes one leading file:// ftp:// http:// https:// prefix (case-insensitive) and nothing else
pub open spec fn find_dslash(s: Seq<char>, i: int) -> int decreases s.len() - i {
    if i < 0 || i + 1 >= s.len() { -1 } else if s[i] == '/' && s[i + 1] == '/' { i } else { find_dslash(s, i + 1) }
}
pub open spec fn strip_all(x: Seq<char>, lit: Seq<char>) -> Seq<char> decreases x.len() {
    if lit.len() > 0 && is_prefix(lit, x) { strip_all(x.skip(lit.len() as int), lit) } else { x }
}
impl Str {
    // str::find("//"): byte offset of the first occurrence.  ASSUMED[str-find]
    #[verifier::external_body]
    pub fn find_dslash(&self) -> (r: Option<usize>)
        ensures find_dslash(self@, 0) < 0 ==> r is None,
                find_dslash(self@, 0) >= 0 ==> r is Some && r->Some_0 == byte_len(self@.take(find_dslash(self@, 0))),
                byte_len(self@) <= isize::MAX,      // ASSUMED[alloc-limit]: a String holds at most isize::MAX bytes
    { unimplemented!() }
    // str::split_at(n): panics unless n is a char boundary
    #[verifier::external_body]
    pub fn split_at(&self, n: usize) -> (r: (Str, Str))
        requires n <= byte_len(self@), is_boundary(self@, n as int)
        ensures exists|k: int| 0 <= k <= self@.len() && #[trigger] byte_len(self@.take(k)) == n && r.0@ == self@.take(k) && r.1@ == self@.skip(k)
    { unimplemented!() }
    // str::trim_start_matches(lit): removes every leading repetition of lit
    #[verifier::external_body]
    pub fn trim_start_matches<P: StrPat>(&self, lit: P) -> (r: Str) ensures r@ == strip_all(self@, lit.pat()) { unimplemented!() }
}
// ASSUMED[ascii-width]: '/' is one byte
#[verifier::external_body]
pub proof fn ax_slash() ensures char_len('/') == 1 { }
pub proof fn lemma_dslash(s: Seq<char>, i: int)
    requires 0 <= i
    ensures find_dslash(s, i) >= 0 ==> i <= find_dslash(s, i) && find_dslash(s, i) + 2 <= s.len() && s[find_dslash(s, i)] == '/' && s[find_dslash(s, i) + 1] == '/'
    decreases s.len() - i
{
    if i + 1 < s.len() && !(s[i] == '/' && s[i + 1] == '/') { lemma_dslash(s, i + 1); }
}
pub proof fn lemma_dslash_boundary(s: Seq<char>)
    requires find_dslash(s, 0) >= 0
    ensures ({ let k = find_dslash(s, 0); byte_len(s.take(k + 2)) == byte_len(s.take(k)) + 2 && is_boundary(s, byte_len(s.take(k)) as int + 2) && byte_len(s.take(k)) + 2 <= byte_len(s) })
{
    let k = find_dslash(s, 0);
    lemma_dslash(s, 0);
    ax_slash();
    assert(s.take(k + 2).drop_last() =~= s.take(k + 1));
    assert(s.take(k + 1).drop_last() =~= s.take(k));
    assert(s.take(k + 2).last() == '/' && s.take(k + 1).last() == '/');
    assert(byte_len(s.take(k + 2)) == byte_len(s.take(k + 2).drop_last()) + char_len('/'));
    assert(byte_len(s.take(k + 1)) == byte_len(s.take(k + 1).drop_last()) + char_len('/'));
    assert(byte_len(s.take(k + 2)) == byte_len(s.take(k)) + 2);
    lemma_byte_len_mono(s, k + 2, s.len() as int);
    assert(s.take(s.len() as int) =~= s);
}
//@ obligation lemma_dslash props=C15
//@ obligation lemma_dslash_boundary props=C15
pub open spec fn spec_trim_protocol(s: Seq<char>) -> Seq<char> {
    let k = find_dslash(s, 0);
    if k < 0 { s } else {
        let prefix = s.take(k + 2);
        let l = strip_all(strip_all(strip_all(strip_all(lower(prefix), "file://"@), "ftp://"@), "http://"@), "https://"@);
        if l.len() > 0 { s } else { s.skip(k + 2) }
    }
}
//@ item trim_protocol file=src/sys/fs/path.rs fn=trim_protocol props=C15,C05,C12,C01
//@ sig pub fn trim_protocol<T: AsRef<Path>>(path: T) -> PathBuf
//@ rw R4 + re⟦\.find\("//"\)⟧ => ⟦.find_dslash()⟧
//@ rw R4 * re⟦format!\("\{\}\{\}", (\w+), (\w+)\)⟧ => ⟦&fmt_concat(\1, &\2)⟧
//@ rw R1 * re⟦PathBuf::from\(⟧ => ⟦PathBuf::from_s(⟧
//@ rw R1 * ⟦PathBuf::from_s(suffix)⟧ => ⟦PathBuf::from_s(&suffix)⟧
//@ rw R1 * ⟦PathBuf::from_s(base)⟧ => ⟦PathBuf::from_s(&base)⟧
//@ ins start
    proof {
        if path.utf8_ok() && find_dslash(path.pstr(), 0) >= 0 {
            lemma_dslash_boundary(path.pstr());
            lemma_dslash(path.pstr(), 0);
            let s = path.pstr(); let k = find_dslash(s, 0);
            assert forall|j: int| 0 <= j <= s.len() && #[trigger] byte_len(s.take(j)) == byte_len(s.take(k)) + 2 implies j == k + 2 by { lemma_boundary_unique(s, j, k + 2); }
            assert(s.take(k + 2) + s.skip(k + 2) =~= s);
        }
    }
//@ endins
pub fn trim_protocol(path: &PathBuf) -> (r: PathBuf)
    ensures path.utf8_ok() ==> r.pstr() == spec_trim_protocol(path.pstr()),     //@ clause trim_protocol.removes_one_scheme_prefix_only [C15,C05]
            !path.utf8_ok() ==> r.pstr() == path.pstr() && r.comps() == path.comps(),
//@ body

// the four documented schemes are recognised in any casing (the lowercase form of the text up to the first `//` is the scheme)
pub proof fn lemma_schemes_recognised(s: Seq<char>)
    requires find_dslash(s, 0) >= 0,
             lower(s.take(find_dslash(s, 0) + 2)) == "file://"@ || lower(s.take(find_dslash(s, 0) + 2)) == "ftp://"@
             || lower(s.take(find_dslash(s, 0) + 2)) == "http://"@ || lower(s.take(find_dslash(s, 0) + 2)) == "https://"@
    ensures spec_trim_protocol(s) == s.skip(find_dslash(s, 0) + 2)          //@ clause trim_protocol.scheme_removed_case_insensitively [C15]
{
    reveal_strlit("file://"); reveal_strlit("ftp://"); reveal_strlit("http://"); reveal_strlit("https://");
    let e = Seq::<char>::empty();
    let f = "file://"@; let t = "ftp://"@; let h = "http://"@; let hs = "https://"@;
    assert(f.take(7) =~= f && f.skip(7) =~= e);
    assert(t.take(6) =~= t && t.skip(6) =~= e);
    assert(h.take(7) =~= h && h.skip(7) =~= e);
    assert(hs.take(8) =~= hs && hs.skip(8) =~= e);
    reveal_with_fuel(strip_all, 3);
    assert(strip_all(e, f) == e && strip_all(e, t) == e && strip_all(e, h) == e && strip_all(e, hs) == e);
    assert(strip_all(f, f) == e);
    assert(strip_all(t, t) == e);
    assert(strip_all(h, h) == e);
    assert(strip_all(hs, hs) == e);
    // a scheme is untouched by the strippers of the other schemes that run before it
    assert(!is_prefix(f, t) && !is_prefix(f, h) && !is_prefix(f, hs) && !is_prefix(t, h) && !is_prefix(t, hs)) by {
        assert(t[0] == 'f' && t[1] == 't'); assert(f[1] == 'i'); assert(h[0] == 'h'); assert(hs[0] == 'h');
    }
    assert(!is_prefix(h, hs)) by { assert(h[4] == ':' && hs[4] == 's'); }
}
//@ obligation lemma_schemes_recognised props=C15

// =====================================================================================================================
// ext / trim_ext / name: the extension of the final component
// ASSUMED[path-extension]: std Path::extension(): the text after the LAST '.' of the file name, None when there is no file name,
// no '.', or the only '.' is the first character (".bashrc"); ".." is not a file name (it is ParentDir)
pub open spec fn last_dot(c: Seq<char>, i: int) -> int decreases i {
    if i <= 0 { -1 } else if c[i - 1] == '.' { i - 1 } else { last_dot(c, i - 1) }
}
pub open spec fn ext_chars(c: Seq<char>) -> Option<Seq<char>> {
    let i = last_dot(c, c.len() as int);
    if i <= 0 { None } else { Some(c.skip(i + 1)) }
}
pub open spec fn spec_ext(p: Comps) -> Option<Seq<char>> {
    if p.len() > 0 && p.last() is Normal { ext_chars(name_chars(p.last()->Normal_0)) } else { None }
}
#[verifier::external_body] pub struct OsText { x: u8 }
impl OsText {
    pub uninterp spec fn view(&self) -> Seq<char>;
    pub uninterp spec fn utf8(&self) -> bool;
    #[verifier::external_body] pub fn to_string(&self) -> (r: RvResult<Str>) ensures r is Ok == self.utf8(), r is Ok ==> r->Ok_0@ == self@ { unimplemented!() }
    #[verifier::external_body] pub fn is_empty(&self) -> (b: bool) ensures b == (self@.len() == 0) { unimplemented!() }
    #[verifier::external_body] pub fn len(&self) -> (n: usize) ensures n == byte_len(self@) { unimplemented!() }
}
impl PathBuf {
    #[verifier::external_body]
    pub fn extension(&self) -> (r: Option<OsText>)
        ensures r is Some == spec_ext(self.comps()) is Some,
                r is Some ==> r->Some_0@ == spec_ext(self.comps())->Some_0 && r->Some_0.utf8() == name_utf8(self.comps().last()->Normal_0),
    { unimplemented!() }
}
// R4: format!(".{}", s)
#[verifier::external_body]
pub fn fmt_dot(s: Str) -> (r: Str) ensures r@ == seq!['.'] + s@ { unimplemented!() }
pub proof fn lemma_last_dot(c: Seq<char>, i: int)
    requires 0 <= i <= c.len()
    ensures -1 <= last_dot(c, i) < i, last_dot(c, i) >= 0 ==> c[last_dot(c, i)] == '.'
    decreases i
{
    if i > 0 && c[i - 1] != '.' { lemma_last_dot(c, i - 1); }
}
// the law of the property: a name that has an extension is stem + '.' + extension
pub proof fn lemma_name_is_stem_dot_ext(c: Seq<char>)
    requires ext_chars(c) is Some
    ensures is_suffix(seq!['.'] + ext_chars(c)->Some_0, c),
            c.take(c.len() - (ext_chars(c)->Some_0.len() + 1)) + seq!['.'] + ext_chars(c)->Some_0 =~= c          //@ clause ext.name_is_stem_dot_extension [C15]
{
    lemma_last_dot(c, c.len() as int);
    let i = last_dot(c, c.len() as int);
    let e = c.skip(i + 1);
    let t = seq!['.'] + e;
    assert(c.skip(i) =~= t);
    assert(c.len() - t.len() == i);
    assert(c.take(i) + t =~= c);
}
//@ obligation lemma_last_dot props=C15
//@ obligation lemma_name_is_stem_dot_ext props=C15

//@ item ext file=src/sys/fs/path.rs fn=ext props=C15,C12
pub fn ext(path: &PathBuf) -> (r: RvResult<Str>)
    ensures spec_ext(path.comps()) is None ==> r is Err && r->Err_0.kind == ErrKind::ExtensionNotFound,
            r is Ok ==> spec_ext(path.comps()) == Some(r->Ok_0@),                                                  //@ clause ext.is_text_after_last_dot_of_final_component [C15]
            (spec_ext(path.comps()) is Some && name_utf8(path.comps().last()->Normal_0)) ==> r is Ok,
//@ body
//@ item trim_ext file=src/sys/fs/path.rs fn=trim_ext props=C15,C12
//@ rw R4 * re⟦format!\("\.\{\}", (.*?)\)\)⟧ => ⟦&PathBuf::from_s(fmt_dot(\1)))⟧
pub fn trim_ext(path: &PathBuf) -> (r: RvResult<PathBuf>)
    ensures
        spec_ext(path.comps()) is None ==> r is Ok && r->Ok_0.pstr() == path.pstr() && r->Ok_0.comps() == path.comps(),
        // an extension (even an empty one, "foo.") is removed together with its dot when the path text ends with it
        (r is Ok && spec_ext(path.comps()) is Some && path.utf8_ok()) ==> r->Ok_0.pstr() == spec_trim_suffix(path.pstr(), seq!['.'] + spec_ext(path.comps())->Some_0),     //@ clause trim_ext.removes_dot_and_extension [C15]
        (r is Ok && spec_ext(path.comps()) is Some && path.utf8_ok() && is_suffix(seq!['.'] + spec_ext(path.comps())->Some_0, path.pstr())) ==> r->Ok_0.comps() == parse(r->Ok_0.pstr()),
//@ body
pub open spec fn spec_trim_suffix(s: Seq<char>, t: Seq<char>) -> Seq<char> { if is_suffix(t, s) { s.take(s.len() - t.len()) } else { s } }
pub open spec fn trim_ext_result(path: &PathBuf, t: &PathBuf) -> bool {
    &&& spec_ext(path.comps()) is None ==> t.pstr() == path.pstr() && t.comps() == path.comps()
    &&& (spec_ext(path.comps()) is Some && path.utf8_ok()) ==> t.pstr() == spec_trim_suffix(path.pstr(), seq!['.'] + spec_ext(path.comps())->Some_0)
}
//@ item name file=src/sys/fs/path.rs fn=name props=C15,C12
// R7 (optional): `s[..i].to_string()` is the slice-to shim; R1: `base(path)?` takes a reference
//@ rw R7 * re⟦(\w+)\[\.\.(\w+)\]\.to_string\(\)⟧ => ⟦\1.slice_to(\2)⟧
//@ rw R1 * re⟦= base\(path\)\?;⟧ => ⟦= base(path)?;⟧
//@ rw R1 * ⟦base(trim_ext(path)?)⟧ => ⟦base(&trim_ext(path)?)⟧
pub fn name(path: &PathBuf) -> (r: RvResult<Str>)
    ensures
        // the final component, without its extension
        (r is Ok && spec_ext(path.comps()) is None && path.comps().len() > 0) ==> r->Ok_0@ == comp_str(path.comps().last()),
        (r is Ok && spec_ext(path.comps()) is Some && path.utf8_ok() && is_suffix(seq!['.'] + spec_ext(path.comps())->Some_0, path.pstr())) ==> ({
            let t = parse(path.pstr().take(path.pstr().len() - (spec_ext(path.comps())->Some_0.len() + 1)));
            t.len() > 0 ==> r->Ok_0@ == comp_str(t.last()) }),                                                      //@ clause name.is_base_of_the_path_without_extension [C15]
//@ body
