import os, sys


def find(d, fn, seed):
    """seek/read/len of a Memfs read handle against std::io::Cursor (the driver compares the two itself)."""
    datas = ['', '00', '0001', '000102030405']
    lines = []
    if fn in ('seek',):
        for data in datas:
            n = len(data) // 2
            for pos in (0, 1, n, n + 1, n + 7):
                for kind, offs in (('start', (0, n, n + 3, 2 ** 63, 2 ** 64 - 1)), ('current', (-(2 ** 63), -n - 1, -1, 0, 1, 2 ** 63 - 1)), ('end', (-(2 ** 63), -n - 1, -1, 0, 1, 2 ** 63 - 1))):
                    for off in offs:
                        lines.append('seek\t%s\t%d\t%s\t%d' % (data, pos, kind, off))
    if fn in ('read', 'len'):
        for data in datas:
            n = len(data) // 2
            for pos in (0, 1, n, n + 1, n + 9, 2 ** 63):
                for k in (0, 1, n, n + 2):
                    lines.append('read\t%s\t%d\t%d' % (data, pos, k))
    if not lines:
        return None
    outs = d.run(lines)
    for l, o in zip(lines, outs):
        if o.startswith('DIFF') or o.startswith('PANIC') or o == '':
            return {'driver_line': l, 'input': l.split('\t'), 'expected': 'same as std::io::Cursor', 'got': o or 'no output (panic)', 'oracle': 'std::io::Cursor over the same bytes'}
    return None
