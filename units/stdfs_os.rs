//@ unit stdfs_os
//@ props C10 C16 C05 C01 C12
// The pure part of the Stdfs backend (what it asks of and derives from the operating system).  The operating system is an uninterpreted oracle (ASSUMED[os]): its answers are
// arbitrary, and a successful unix::fs::symlink(t, l) is recorded as the fact os_symlinked(t, l).  Because that predicate is
// uninterpreted, a postcondition `os_symlinked(T, L)` can only be proved if the real code asked the OS for exactly (T, L):
// the contracts below therefore pin down WHAT Stdfs requests from / derives from the OS, not what the OS does.
//@ prelude base errors io iter path_abs
// R8 (unit-wide): std::fs / std::os::unix::fs / std::env calls become the OS-oracle shims below, arguments unchanged
//@ rwall R8 re⟦\bfs::symlink_metadata\(⟧ => ⟦os_symlink_metadata(⟧
//@ rwall R8 re⟦\bfs::metadata\(⟧ => ⟦os_metadata(⟧
//@ rwall R8 re⟦\bfs::read_link\(⟧ => ⟦os_read_link(⟧
//@ rwall R8 re⟦\bfs::rename\(⟧ => ⟦os_rename(⟧
//@ rwall R8 re⟦\bfs::create_dir_all\(⟧ => ⟦os_create_dir_all(⟧
//@ rwall R8 re⟦\bFile::create\(⟧ => ⟦os_file_create(⟧
//@ rwall R8 re⟦\bfs::remove_dir_all\(⟧ => ⟦os_remove_dir_all(⟧
//@ rwall R8 re⟦\bstd::env::set_current_dir\(⟧ => ⟦os_set_current_dir(⟧
//@ rwall R8 re⟦\bunix::fs::symlink\(⟧ => ⟦os_symlink(⟧
//@ rwall R8 re⟦\bfs::set_permissions\(([^,]+), fs::Permissions::from_mode\(([^()]+)\)\)⟧ => ⟦os_set_permissions(\1, \2)⟧
//@ rwall R8 re⟦\.file_type\(\)\.is_symlink\(\)⟧ => ⟦.is_symlink()⟧
//@ rwall R8 re⟦\.permissions\(\)\.mode\(\)⟧ => ⟦.mode()⟧
//@ rwall R8 re⟦\.permissions\(\)\.readonly\(\)⟧ => ⟦.readonly()⟧
//@ struct file=src/sys/fs/stdfs/entry.rs name=StdfsEntry
//@ endstruct

pub uninterp spec fn os_is_link(p: Comps) -> bool;
pub uninterp spec fn os_link_target(p: Comps) -> Comps;
pub uninterp spec fn os_symlinked(target: Comps, link: Comps) -> bool;
// further recorded requests (each fact can only be established by the matching successful OS call with exactly these arguments)
pub uninterp spec fn os_renamed(from: Comps, to: Comps) -> bool;
pub uninterp spec fn os_created_dir_all(p: Comps) -> bool;
pub uninterp spec fn os_created_file(p: Comps) -> bool;
pub uninterp spec fn os_mode_set(p: Comps, mode: u32) -> bool;
pub uninterp spec fn os_removed_all(p: Comps) -> bool;
pub uninterp spec fn os_cwd_set(p: Comps) -> bool;
// ASSUMED[abs-contract]: Stdfs::abs returns an absolute clean path, a function of the spelling (and the process cwd/env); proved in unit abs_both
pub uninterp spec fn std_abs(arg: Comps) -> Option<PathV>;
pub uninterp spec fn spec_relative(p: Comps, base: Comps) -> Comps;
pub uninterp spec fn spec_mash(d: Comps, p: Comps) -> Comps;
pub uninterp spec fn comps_absolute(c: Comps) -> bool;
#[verifier::external_body] pub struct Metadata { x: u8 }
// answers of the OS for a path spelling; `l` = lstat (symlink_metadata, does not follow) or stat (metadata, follows links)
pub uninterp spec fn os_stat_ok(p: Comps, l: bool) -> bool;
pub uninterp spec fn os_is_dir(p: Comps, l: bool) -> bool;
pub uninterp spec fn os_is_file(p: Comps, l: bool) -> bool;
pub uninterp spec fn os_mode(p: Comps, l: bool) -> u32;
pub uninterp spec fn os_readonly(p: Comps, l: bool) -> bool;
pub uninterp spec fn os_owner(p: Comps, l: bool) -> (u32, u32);
impl Metadata {
    pub uninterp spec fn of(&self) -> Comps;          // the path the metadata was read for
    pub uninterp spec fn lstat(&self) -> bool;
    #[verifier::external_body] pub fn is_symlink(&self) -> (b: bool) ensures self.lstat() ==> b == os_is_link(self.of()) { unimplemented!() }
    #[verifier::external_body] pub fn is_dir(&self) -> (b: bool) ensures b == os_is_dir(self.of(), self.lstat()) { unimplemented!() }
    #[verifier::external_body] pub fn is_file(&self) -> (b: bool) ensures b == os_is_file(self.of(), self.lstat()) { unimplemented!() }
    #[verifier::external_body] pub fn mode(&self) -> (m: u32) ensures m == os_mode(self.of(), self.lstat()) { unimplemented!() }
    #[verifier::external_body] pub fn readonly(&self) -> (b: bool) ensures b == os_readonly(self.of(), self.lstat()) { unimplemented!() }
    #[verifier::external_body] pub fn uid(&self) -> (m: u32) ensures m == os_owner(self.of(), self.lstat()).0 { unimplemented!() }
    #[verifier::external_body] pub fn gid(&self) -> (m: u32) ensures m == os_owner(self.of(), self.lstat()).1 { unimplemented!() }
}
// R8: std::fs / std::os::unix::fs calls (io::Error converted by `?` into RvError: R5)
#[verifier::external_body] pub fn os_symlink_metadata<T: PathArg>(p: T) -> (r: RvResult<Metadata>) ensures r is Ok == os_stat_ok(p.pc(), true), r is Ok ==> r->Ok_0.of() == p.pc() && r->Ok_0.lstat() { unimplemented!() }
#[verifier::external_body] pub fn os_metadata<T: PathArg>(p: T) -> (r: RvResult<Metadata>) ensures r is Ok == os_stat_ok(p.pc(), false), r is Ok ==> r->Ok_0.of() == p.pc() && !r->Ok_0.lstat() { unimplemented!() }
#[verifier::external_body] pub fn os_read_link<T: PathArg>(p: T) -> (r: RvResult<PathBuf>) ensures r is Ok ==> r->Ok_0.comps() == os_link_target(p.pc()) { unimplemented!() }
#[verifier::external_body] pub fn os_rename<T: PathArg, U: PathArg>(a: T, b: U) -> (r: RvResult<()>) ensures r is Ok ==> os_renamed(a.pc(), b.pc()) { unimplemented!() }
#[verifier::external_body] pub fn os_create_dir_all<T: PathArg>(p: T) -> (r: RvResult<()>) ensures r is Ok ==> os_created_dir_all(p.pc()) { unimplemented!() }
#[verifier::external_body] pub fn os_file_create<T: PathArg>(p: T) -> (r: RvResult<()>) ensures r is Ok ==> os_created_file(p.pc()) { unimplemented!() }
#[verifier::external_body] pub fn os_set_permissions<T: PathArg>(p: T, mode: u32) -> (r: RvResult<()>) ensures r is Ok ==> os_mode_set(p.pc(), mode) { unimplemented!() }
#[verifier::external_body] pub fn os_remove_dir_all<T: PathArg>(p: T) -> (r: RvResult<()>) ensures r is Ok ==> os_removed_all(p.pc()) { unimplemented!() }
#[verifier::external_body] pub fn os_set_current_dir<T: PathArg>(p: T) -> (r: RvResult<()>) ensures r is Ok ==> os_cwd_set(p.pc()) { unimplemented!() }
#[verifier::external_body] pub fn os_symlink<T: PathArg, U: PathArg>(t: T, l: U) -> (r: RvResult<()>) ensures r is Ok ==> os_symlinked(t.pc(), l.pc()) { unimplemented!() }
pub struct Stdfs {}
impl Stdfs {
    #[verifier::external_body]
    pub fn abs<T: PathArg>(path: T) -> (r: RvResult<PathBuf>)
        ensures r is Ok <==> std_abs(path.pc()) is Some,
                r is Ok ==> r->Ok_0.abs_clean() && r->Ok_0@ == std_abs(path.pc())->Some_0 && r->Ok_0.comps() == abs_comps(r->Ok_0@),
                // ASSUMED[abs-idempotent]: abs(abs(p)) == abs(p) (C05; not mechanised; holds unless the value of an expanded variable itself contains `$` or `~`)
                r is Ok ==> std_abs(r->Ok_0.comps()) == Some(r->Ok_0@),
    { unimplemented!() }
}
impl PathBuf {
    // ASSUMED[relative-contract] / ASSUMED[mash-contract]: proved in units path_relative / path_helpers at component level
    #[verifier::external_body]
    pub fn relative(&self, base: PathBuf) -> (r: RvResult<PathBuf>) ensures r is Ok, r->Ok_0.comps() == spec_relative(self.comps(), base.comps()) { unimplemented!() }
    #[verifier::external_body]
    pub fn mash(&self, p: PathBuf) -> (r: PathBuf) ensures r.comps() == spec_mash(self.comps(), p.comps()) { unimplemented!() }
    #[verifier::external_body]
    pub fn is_absolute(&self) -> (b: bool) ensures b == comps_absolute(self.comps()) { unimplemented!() }
    // PathExt::mash with a single name (proved in unit path_helpers)
    #[verifier::external_body]
    pub fn mash_n(&self, n: NameStr) -> (r: PathBuf) ensures self.abs_clean() ==> r.abs_clean() && r@ == self@.push(n@) && r.comps() == abs_comps(r@) { unimplemented!() }
    #[verifier::external_body]
    pub fn to_owned(&self) -> (r: PathBuf) ensures r@ == self@, r.abs_clean() == self.abs_clean(), r.comps() == self.comps() { unimplemented!() }
}

pub open spec fn abs_of(path: Comps) -> Comps { abs_comps(std_abs(path)->Some_0) }
impl Stdfs {
// ---- queries: each consults the OS about abs(path) (C05: "every VFS method interprets its path arguments through abs")
//@ item exists file=src/sys/fs/stdfs/mod.rs block="impl Stdfs" fn=exists props=C05,C01,C12
    pub fn exists<T: PathArg>(path: T) -> (r: bool)
        ensures r == (std_abs(path.pc()) is Some && os_stat_ok(abs_of(path.pc()), false)),     //@ clause stdfs.exists.asks_about_abs_path [C05]
//@ body
//@ item is_dir file=src/sys/fs/stdfs/mod.rs block="impl Stdfs" fn=is_dir props=C05,C10,C01,C12
    pub fn is_dir<T: PathArg>(path: T) -> (r: bool)
        ensures r == (std_abs(path.pc()) is Some && os_stat_ok(abs_of(path.pc()), true) && !os_is_link(abs_of(path.pc())) && os_is_dir(abs_of(path.pc()), true)),     //@ clause stdfs.is_dir.asks_about_abs_path_excluding_links [C05,C10]
//@ body
//@ item is_file file=src/sys/fs/stdfs/mod.rs block="impl Stdfs" fn=is_file props=C05,C10,C01,C12
    pub fn is_file<T: PathArg>(path: T) -> (r: bool)
        ensures r == (std_abs(path.pc()) is Some && os_stat_ok(abs_of(path.pc()), true) && !os_is_link(abs_of(path.pc())) && os_is_file(abs_of(path.pc()), true)),     //@ clause stdfs.is_file.asks_about_abs_path_excluding_links [C05,C10]
//@ body
//@ item is_exec file=src/sys/fs/stdfs/mod.rs block="impl Stdfs" fn=is_exec props=C05,C11,C12
    pub fn is_exec<T: PathArg>(path: T) -> (r: bool)
        ensures r == (std_abs(path.pc()) is Some && os_stat_ok(abs_of(path.pc()), false) && os_mode(abs_of(path.pc()), false) & 0o111 != 0),     //@ clause stdfs.is_exec.agrees_with_mode_of_abs_path [C05,C11]
//@ body
//@ item is_readonly file=src/sys/fs/stdfs/mod.rs block="impl Stdfs" fn=is_readonly props=C05,C11,C12
    pub fn is_readonly<T: PathArg>(path: T) -> (r: bool)
        ensures r == (std_abs(path.pc()) is Some && os_stat_ok(abs_of(path.pc()), false) && os_readonly(abs_of(path.pc()), false)),     //@ clause stdfs.is_readonly.asks_about_abs_path [C05,C11]
//@ body
//@ item mode file=src/sys/fs/stdfs/mod.rs block="impl Stdfs" fn=mode props=C05,C11,C12
    pub fn mode<T: PathArg>(path: T) -> (r: RvResult<u32>)
        ensures r is Ok == (std_abs(path.pc()) is Some && os_stat_ok(abs_of(path.pc()), true)),
                r is Ok ==> r->Ok_0 == os_mode(abs_of(path.pc()), true),     //@ clause stdfs.mode.reads_mode_of_abs_path [C05,C11]
//@ body
//@ item owner file=src/sys/fs/stdfs/mod.rs block="impl Stdfs" fn=owner props=C05,C11,C12
    pub fn owner<T: PathArg>(path: T) -> (r: RvResult<(u32, u32)>)
        ensures r is Ok == (std_abs(path.pc()) is Some && os_stat_ok(abs_of(path.pc()), false)),
                r is Ok ==> r->Ok_0 == os_owner(abs_of(path.pc()), false),     //@ clause stdfs.owner.reads_owner_of_abs_path [C05,C11]
//@ body
}


impl Stdfs {
// ---- mutators: which request is sent to the OS, for which absolute path
//@ item move_p file=src/sys/fs/stdfs/mod.rs block="impl Stdfs" fn=move_p props=C09,C05,C12
//@ rw R1 * ⟦dst_root.mash(src_path.base()?)⟧ => ⟦dst_root.mash_n(src_path.base()?)⟧
    pub fn move_p(src: &PathBuf, dst: &PathBuf) -> (r: RvResult<()>)
        ensures r is Ok ==> ({
            let a = std_abs(src.comps()); let b = std_abs(dst.comps());
            &&& a is Some && b is Some
            &&& ({
                let into = os_stat_ok(abs_comps(b->Some_0), true) && !os_is_link(abs_comps(b->Some_0)) && os_is_dir(abs_comps(b->Some_0), true);
                // dst itself, or dst/<name of src> when dst is an existing directory (same rule as Memfs::move_p)
                os_renamed(abs_comps(a->Some_0), abs_comps(if into && a->Some_0.len() > 0 { b->Some_0.push(a->Some_0.last()) } else { b->Some_0 }))     //@ clause stdfs.move_p.renames_abs_src_to_dst_or_dst_slash_name [C09,C05]
                || (into && a->Some_0.len() == 0)
            })
        }),
//@ body
//@ item mkdir_p file=src/sys/fs/stdfs/mod.rs block="impl Stdfs" fn=mkdir_p props=C01,C05,C12
//@ rw R5 * ⟦PathError::IsNotDir(path).into()⟧ => ⟦PathError::is_not_dir(path).into()⟧
    pub fn mkdir_p(path: &PathBuf) -> (r: RvResult<PathBuf>)
        ensures r is Ok ==> ({
            let a = std_abs(path.comps());
            &&& a is Some && r->Ok_0@ == a->Some_0 && r->Ok_0.abs_clean()
            // either the directory is requested, or abs(path) already exists and is a real directory
            &&& (os_created_dir_all(abs_comps(a->Some_0))
                 || (os_stat_ok(abs_comps(a->Some_0), false) && os_stat_ok(abs_comps(a->Some_0), true) && !os_is_link(abs_comps(a->Some_0)) && os_is_dir(abs_comps(a->Some_0), true)))     //@ clause stdfs.mkdir_p.creates_abs_path_or_it_is_a_directory [C01,C05]
        }),
//@ body
//@ item mkfile file=src/sys/fs/stdfs/mod.rs block="impl Stdfs" fn=mkfile props=C01,C05,C12
    pub fn mkfile(path: &PathBuf) -> (r: RvResult<PathBuf>)
        ensures
            r is Ok ==> ({
                let a = std_abs(path.comps());
                &&& a is Some && a->Some_0.len() > 0 && r->Ok_0@ == a->Some_0 && r->Ok_0.abs_clean() && r->Ok_0.comps() == abs_comps(a->Some_0)
                // the parent must be an existing directory; the file is requested unless something that is a file is already there
                &&& os_stat_ok(abs_comps(a->Some_0.drop_last()), true) && os_is_dir(abs_comps(a->Some_0.drop_last()), true)            //@ clause stdfs.mkfile.parent_must_be_directory [C01]
                &&& (os_created_file(abs_comps(a->Some_0)) || (os_stat_ok(abs_comps(a->Some_0), true) && os_is_file(abs_comps(a->Some_0), true)))     //@ clause stdfs.mkfile.creates_abs_path_or_it_is_a_file [C01,C05]
            }),
            (r is Err && std_abs(path.comps()) is Some && std_abs(path.comps())->Some_0.len() > 0) ==> ({
                let a = std_abs(path.comps())->Some_0;
                let d = abs_comps(a.drop_last());
                &&& !os_stat_ok(d, true) ==> r->Err_0.kind == ErrKind::DoesNotExist
                &&& (os_stat_ok(d, true) && !os_is_dir(d, true)) ==> r->Err_0.kind == ErrKind::IsNotDir
                &&& (os_stat_ok(d, true) && os_is_dir(d, true) && os_stat_ok(abs_comps(a), true)) ==> r->Err_0.kind == ErrKind::IsNotFile     //@ clause stdfs.mkfile.error_kinds [C01]
            }),
//@ body
//@ item mkfile_m file=src/sys/fs/stdfs/mod.rs block="impl Stdfs" fn=mkfile_m props=C01,C11,C05,C12
    pub fn mkfile_m(path: &PathBuf, mode: u32) -> (r: RvResult<PathBuf>)
        ensures r is Ok ==> std_abs(path.comps()) is Some && r->Ok_0@ == std_abs(path.comps())->Some_0
                            && os_mode_set(abs_of(path.comps()), mode),     //@ clause stdfs.mkfile_m.sets_requested_mode_on_abs_path [C11,C05]
//@ body
//@ item remove_all file=src/sys/fs/stdfs/mod.rs block="impl Stdfs" fn=remove_all props=C01,C05,C12
    pub fn remove_all(path: &PathBuf) -> (r: RvResult<()>)
        ensures r is Ok ==> std_abs(path.comps()) is Some && (os_removed_all(abs_of(path.comps())) || !os_stat_ok(abs_of(path.comps()), false)),     //@ clause stdfs.remove_all.removes_abs_path_if_present [C01,C05]
//@ body
//@ item set_cwd file=src/sys/fs/stdfs/mod.rs block="impl Stdfs" fn=set_cwd props=C01,C05,C12
    pub fn set_cwd(path: &PathBuf) -> (r: RvResult<PathBuf>)
        ensures r is Ok ==> std_abs(path.comps()) is Some && r->Ok_0@ == std_abs(path.comps())->Some_0 && os_cwd_set(abs_of(path.comps())),     //@ clause stdfs.set_cwd.changes_to_abs_path [C01,C05]
//@ body
}

// the spelling a link target is resolved through: absolute targets as given, relative ones joined onto the link's directory
pub open spec fn target_arg(a: PathV, target: Comps) -> Comps { if comps_absolute(target) { target } else { spec_mash(abs_comps(a.drop_last()), target) } }

impl Stdfs {
//@ item symlink file=src/sys/fs/stdfs/mod.rs block="impl Stdfs" fn=symlink props=C10,C16,C12
//@ sig pub fn symlink<T: AsRef<Path>, U: AsRef<Path>>(link: T, target: U) -> RvResult<PathBuf>
    pub fn symlink(link: &PathBuf, target: &PathBuf) -> (r: RvResult<PathBuf>)
        ensures r is Ok ==> ({
            let a = std_abs(link.comps());
            &&& a is Some && a->Some_0.len() > 0
            &&& ({
                let b = std_abs(target_arg(a->Some_0, target.comps()));
                &&& b is Some
                // the OS is asked to create, at abs(link), a link whose stored text is abs(target) made relative to the link's directory
                &&& os_symlinked(spec_relative(abs_comps(b->Some_0), abs_comps(a->Some_0.drop_last())), abs_comps(a->Some_0))     //@ clause stdfs.symlink.requests_relative_target_at_abs_link [C10,C16]
                &&& r->Ok_0@ == a->Some_0 && r->Ok_0.abs_clean()
            })
        }),
//@ body

//@ item readlink file=src/sys/fs/stdfs/mod.rs block="impl Stdfs" fn=readlink props=C10,C12
    pub fn readlink(path: &PathBuf) -> (r: RvResult<PathBuf>)
        ensures r is Ok ==> std_abs(path.comps()) is Some && r->Ok_0.comps() == os_link_target(abs_comps(std_abs(path.comps())->Some_0)),     //@ clause stdfs.readlink.reads_stored_text_of_abs_path [C10]
//@ body
}
impl StdfsEntry {
//@ item entry_from file=src/sys/fs/stdfs/entry.rs block="impl StdfsEntry" fn=from props=C10,C16,C12
//@ sig pub(crate) fn from<T: AsRef<Path>>(path: T) -> RvResult<Self>
    pub fn from(path: &PathBuf) -> (r: RvResult<StdfsEntry>)
        ensures r is Ok ==> ({
            let a = std_abs(path.comps());
            let e = r->Ok_0;
            &&& a is Some && e.path@ == a->Some_0 && e.path.abs_clean() && os_stat_ok(abs_comps(a->Some_0), false)
            &&& e.link == os_is_link(abs_comps(a->Some_0)) && !e.follow && e.cached
            &&& !e.link ==> e.alt.comps() == Seq::<Comp>::empty() && e.rel.comps() == Seq::<Comp>::empty()
            &&& e.link ==> a->Some_0.len() > 0 && ({
                    // alt is the absolute form of the stored text (relative text is joined onto the link's directory); rel is alt relative to that directory
                    let b = std_abs(target_arg(a->Some_0, os_link_target(abs_comps(a->Some_0))));
                    &&& b is Some
                    &&& e.alt.comps() == abs_comps(b->Some_0) && e.alt.abs_clean()                                           //@ clause stdfs.entry.alt_is_abs_of_stored_target [C10,C16]
                    &&& e.rel.comps() == spec_relative(abs_comps(b->Some_0), abs_comps(a->Some_0.drop_last()))              //@ clause stdfs.entry.rel_is_alt_relative_to_link_dir [C10,C16]
                })
        }),
//@ body
}
