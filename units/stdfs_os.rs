//@ unit stdfs_os
//@ props C10 C16 C05 C01 C12
// The pure part of the Stdfs backend (what it asks of and derives from the operating system).  The operating system is an uninterpreted oracle (ASSUMED[os]): its answers are
// arbitrary, and a successful unix::fs::symlink(t, l) is recorded as the fact os_symlinked(t, l).  Because that predicate is
// uninterpreted, a postcondition `os_symlinked(T, L)` can only be proved if the real code asked the OS for exactly (T, L):
// the contracts below therefore pin down WHAT Stdfs requests from / derives from the OS, not what the OS does.
//@ prelude base errors io iter strs path_abs
// R8 (unit-wide): std::fs / std::os::unix::fs / std::env calls become the OS-oracle shims below, arguments unchanged
//@ rwall R8 re⟦\bfs::symlink_metadata\(⟧ => ⟦os_symlink_metadata(⟧
//@ rwall R8 re⟦\bfs::metadata\(⟧ => ⟦os_metadata(⟧
//@ rwall R8 re⟦\bfs::read_link\(⟧ => ⟦os_read_link(⟧
//@ rwall R8 re⟦\bfs::rename\(⟧ => ⟦os_rename(⟧
//@ rwall R8 re⟦\bfs::create_dir_all\(⟧ => ⟦os_create_dir_all(⟧
//@ rwall R8 re⟦\bFile::create\(⟧ => ⟦os_file_create(⟧
//@ rwall R8 re⟦\bFile::options\(\)⟧ => ⟦OsOpenOptions::new()⟧
//@ rwall R8 re⟦\bFile::open\(⟧ => ⟦os_file_open(⟧
// R6: `Ok(Box::new(handle))` as `Box<dyn Write>` / `Box<dyn ReadSeek>`: the handle itself
//@ rwall R6 re⟦Ok\(Box::new\((.*)\)\)⟧ => ⟦Ok(\1)⟧
//@ rwall R8 re⟦\bstd::fs::read_to_string\(⟧ => ⟦os_read_to_string(⟧
//@ rwall R8 re⟦\bfs::remove_dir_all\(⟧ => ⟦os_remove_dir_all(⟧
//@ rwall R8 re⟦\bstd::env::set_current_dir\(⟧ => ⟦os_set_current_dir(⟧
//@ rwall R8 re⟦\bunix::fs::symlink\(⟧ => ⟦os_symlink(⟧
//@ rwall R8 re⟦\bfs::set_permissions\(([^,]+), fs::Permissions::from_mode\(([^()]+)\)\)⟧ => ⟦os_set_permissions(\1, \2)⟧
//@ rwall R8 re⟦\.file_type\(\)\.is_symlink\(\)⟧ => ⟦.is_symlink()⟧
//@ rwall R8 re⟦\.permissions\(\)\.mode\(\)⟧ => ⟦.mode()⟧
//@ rwall R8 re⟦\.permissions\(\)\.readonly\(\)⟧ => ⟦.readonly()⟧
//@ struct file=src/sys/fs/stdfs/entry.rs name=StdfsEntry
//@ endstruct

pub uninterp spec fn os_is_link(p: Comps) -> bool;
pub uninterp spec fn os_link_target(p: Comps) -> Comps;
pub uninterp spec fn os_symlinked(target: Comps, link: Comps) -> bool;
// further recorded requests (each fact can only be established by the matching successful OS call with exactly these arguments)
pub uninterp spec fn os_renamed(from: Comps, to: Comps) -> bool;
pub uninterp spec fn os_created_dir_all(p: Comps) -> bool;
pub uninterp spec fn os_created_file(p: Comps) -> bool;
pub uninterp spec fn os_mode_set(p: Comps, mode: u32) -> bool;
pub uninterp spec fn os_removed_all(p: Comps) -> bool;
pub uninterp spec fn os_cwd_set(p: Comps) -> bool;
// ASSUMED[abs-contract]: Stdfs::abs returns an absolute clean path, a function of the spelling (and the process cwd/env); proved in unit abs_both
pub uninterp spec fn std_abs(arg: Comps) -> Option<PathV>;
pub uninterp spec fn spec_relative(p: Comps, base: Comps) -> Comps;
pub uninterp spec fn spec_mash(d: Comps, p: Comps) -> Comps;
pub uninterp spec fn comps_absolute(c: Comps) -> bool;
#[verifier::external_body] pub struct Metadata { x: u8 }
// answers of the OS for a path spelling; `l` = lstat (symlink_metadata, does not follow) or stat (metadata, follows links)
pub uninterp spec fn os_stat_ok(p: Comps, l: bool) -> bool;
pub uninterp spec fn os_is_dir(p: Comps, l: bool) -> bool;
pub uninterp spec fn os_is_file(p: Comps, l: bool) -> bool;
pub uninterp spec fn os_mode(p: Comps, l: bool) -> u32;
pub uninterp spec fn os_readonly(p: Comps, l: bool) -> bool;
pub uninterp spec fn os_owner(p: Comps, l: bool) -> (u32, u32);
impl Metadata {
    pub uninterp spec fn of(&self) -> Comps;          // the path the metadata was read for
    pub uninterp spec fn lstat(&self) -> bool;
    #[verifier::external_body] pub fn is_symlink(&self) -> (b: bool) ensures self.lstat() ==> b == os_is_link(self.of()) { unimplemented!() }
    #[verifier::external_body] pub fn is_dir(&self) -> (b: bool) ensures b == os_is_dir(self.of(), self.lstat()) { unimplemented!() }
    #[verifier::external_body] pub fn is_file(&self) -> (b: bool) ensures b == os_is_file(self.of(), self.lstat()) { unimplemented!() }
    #[verifier::external_body] pub fn mode(&self) -> (m: u32) ensures m == os_mode(self.of(), self.lstat()) { unimplemented!() }
    #[verifier::external_body] pub fn readonly(&self) -> (b: bool) ensures b == os_readonly(self.of(), self.lstat()) { unimplemented!() }
    #[verifier::external_body] pub fn uid(&self) -> (m: u32) ensures m == os_owner(self.of(), self.lstat()).0 { unimplemented!() }
    #[verifier::external_body] pub fn gid(&self) -> (m: u32) ensures m == os_owner(self.of(), self.lstat()).1 { unimplemented!() }
}
// R8: std::fs / std::os::unix::fs calls (io::Error converted by `?` into RvError: R5)
#[verifier::external_body] pub fn os_symlink_metadata<T: PathArg>(p: T) -> (r: RvResult<Metadata>) ensures r is Ok == os_stat_ok(p.pc(), true), r is Ok ==> r->Ok_0.of() == p.pc() && r->Ok_0.lstat() { unimplemented!() }
#[verifier::external_body] pub fn os_metadata<T: PathArg>(p: T) -> (r: RvResult<Metadata>) ensures r is Ok == os_stat_ok(p.pc(), false), r is Ok ==> r->Ok_0.of() == p.pc() && !r->Ok_0.lstat() { unimplemented!() }
#[verifier::external_body] pub fn os_read_link<T: PathArg>(p: T) -> (r: RvResult<PathBuf>) ensures r is Ok ==> r->Ok_0.comps() == os_link_target(p.pc()) { unimplemented!() }
#[verifier::external_body] pub fn os_rename<T: PathArg, U: PathArg>(a: T, b: U) -> (r: RvResult<()>) ensures r is Ok ==> os_renamed(a.pc(), b.pc()) { unimplemented!() }
#[verifier::external_body] pub fn os_create_dir_all<T: PathArg>(p: T) -> (r: RvResult<()>) ensures r is Ok ==> os_created_dir_all(p.pc()) { unimplemented!() }
#[verifier::external_body] pub struct OsFile { x: u8 }
pub uninterp spec fn os_written(p: Comps, data: Seq<u8>) -> bool;
pub uninterp spec fn os_file_text(p: Comps) -> Seq<char>;
pub use io::SeekFrom;
impl OsFile {
    pub uninterp spec fn of(&self) -> Comps;
    #[verifier::external_body] pub fn seek(&mut self, p: SeekFrom) -> (r: RvResult<u64>) ensures final(self).of() == old(self).of() { unimplemented!() }
    // ASSUMED[os]: File::create truncates; write_all writes all of the buffer; sync_all flushes to disk
    #[verifier::external_body] pub fn write_all(&mut self, data: &[u8]) -> (r: RvResult<()>) ensures final(self).of() == old(self).of(), r is Ok ==> os_written(old(self).of(), data@) { unimplemented!() }
    #[verifier::external_body] pub fn sync_all(&mut self) -> (r: RvResult<()>) ensures final(self).of() == old(self).of() { unimplemented!() }
}
// std::fs::OpenOptions as used through File::options(): create + truncate + write is File::create
pub struct OsOpenOptions { pub w: bool, pub c: bool, pub t: bool, pub a: bool, pub r: bool }
impl OsOpenOptions {
    pub fn new() -> (o: OsOpenOptions) ensures !o.w && !o.c && !o.t && !o.a && !o.r { OsOpenOptions { w: false, c: false, t: false, a: false, r: false } }
    pub fn write(self, y: bool) -> (o: OsOpenOptions) ensures o == (OsOpenOptions { w: y, ..self }) { OsOpenOptions { w: y, ..self } }
    pub fn create(self, y: bool) -> (o: OsOpenOptions) ensures o == (OsOpenOptions { c: y, ..self }) { OsOpenOptions { c: y, ..self } }
    pub fn truncate(self, y: bool) -> (o: OsOpenOptions) ensures o == (OsOpenOptions { t: y, ..self }) { OsOpenOptions { t: y, ..self } }
    pub fn append(self, y: bool) -> (o: OsOpenOptions) ensures o == (OsOpenOptions { a: y, ..self }) { OsOpenOptions { a: y, ..self } }
    pub fn read(self, y: bool) -> (o: OsOpenOptions) ensures o == (OsOpenOptions { r: y, ..self }) { OsOpenOptions { r: y, ..self } }
    #[verifier::external_body]
    pub fn open<T: PathArg>(self, p: T) -> (r: RvResult<OsFile>) ensures r is Ok ==> r->Ok_0.of() == p.pc() && ((self.w && self.c && self.t) ==> os_created_file(p.pc())) && ((self.a && !self.t) ==> os_opened_append(p.pc())) { unimplemented!() }
}
#[verifier::external_body] pub fn os_file_create<T: PathArg>(p: T) -> (r: RvResult<OsFile>) ensures r is Ok ==> os_created_file(p.pc()) && r->Ok_0.of() == p.pc() { unimplemented!() }
pub uninterp spec fn os_opened_read(p: Comps) -> bool;
pub uninterp spec fn os_opened_append(p: Comps) -> bool;
#[verifier::external_body] pub fn os_file_open<T: PathArg>(p: T) -> (r: RvResult<OsFile>) ensures r is Ok ==> r->Ok_0.of() == p.pc() && os_opened_read(p.pc()) { unimplemented!() }
#[verifier::external_body] pub fn os_read_to_string<T: PathArg>(p: T) -> (r: RvResult<Str>) ensures r is Ok ==> r->Ok_0@ == os_file_text(p.pc()) { unimplemented!() }
#[verifier::external_body] pub fn os_set_permissions<T: PathArg>(p: T, mode: u32) -> (r: RvResult<()>) ensures r is Ok ==> os_mode_set(p.pc(), mode) { unimplemented!() }
#[verifier::external_body] pub fn os_remove_dir_all<T: PathArg>(p: T) -> (r: RvResult<()>) ensures r is Ok ==> os_removed_all(p.pc()) { unimplemented!() }
#[verifier::external_body] pub fn os_set_current_dir<T: PathArg>(p: T) -> (r: RvResult<()>) ensures r is Ok ==> os_cwd_set(p.pc()) { unimplemented!() }
#[verifier::external_body] pub fn os_symlink<T: PathArg, U: PathArg>(t: T, l: U) -> (r: RvResult<()>) ensures r is Ok ==> os_symlinked(t.pc(), l.pc()) { unimplemented!() }
pub struct Stdfs {}
impl Stdfs {
    #[verifier::external_body]
    pub fn abs<T: PathArg>(path: T) -> (r: RvResult<PathBuf>)
        ensures r is Ok <==> std_abs(path.pc()) is Some,
                r is Ok ==> r->Ok_0.abs_clean() && r->Ok_0@ == std_abs(path.pc())->Some_0 && r->Ok_0.comps() == abs_comps(r->Ok_0@),
                // ASSUMED[abs-idempotent]: abs(abs(p)) == abs(p) (C05; not mechanised; holds unless the value of an expanded variable itself contains `$` or `~`)
                r is Ok ==> std_abs(r->Ok_0.comps()) == Some(r->Ok_0@),
    { unimplemented!() }
}
impl PathBuf {
    // ASSUMED[relative-contract] / ASSUMED[mash-contract]: proved in units path_relative / path_helpers at component level
    #[verifier::external_body]
    pub fn relative(&self, base: PathBuf) -> (r: RvResult<PathBuf>) ensures r is Ok, r->Ok_0.comps() == spec_relative(self.comps(), base.comps()) { unimplemented!() }
    #[verifier::external_body]
    pub fn mash(&self, p: PathBuf) -> (r: PathBuf) ensures r.comps() == spec_mash(self.comps(), p.comps()) { unimplemented!() }
    #[verifier::external_body]
    pub fn is_absolute(&self) -> (b: bool) ensures b == comps_absolute(self.comps()) { unimplemented!() }
    // PathExt::name (file name without extension; unspecified here)
    // PathExt::mash with a single name (proved in unit path_helpers)
    #[verifier::external_body]
    pub fn mash_n(&self, n: NameStr) -> (r: PathBuf) ensures self.abs_clean() ==> r.abs_clean() && r@ == self@.push(n@) && r.comps() == abs_comps(r@) { unimplemented!() }
    #[verifier::external_body]
    pub fn to_owned(&self) -> (r: PathBuf) ensures r@ == self@, r.abs_clean() == self.abs_clean(), r.comps() == self.comps() { unimplemented!() }
}

pub open spec fn abs_of(path: Comps) -> Comps { abs_comps(std_abs(path)->Some_0) }
impl Stdfs {
// ---- queries: each consults the OS about abs(path) (C05: "every VFS method interprets its path arguments through abs")
//@ item exists file=src/sys/fs/stdfs/mod.rs block="impl Stdfs" fn=exists props=C05,C01,C12
    pub fn exists<T: PathArg>(path: T) -> (r: bool)
        ensures r == (std_abs(path.pc()) is Some && os_stat_ok(abs_of(path.pc()), false)),     //@ clause stdfs.exists.asks_about_abs_path [C05]
//@ body
//@ item is_dir file=src/sys/fs/stdfs/mod.rs block="impl Stdfs" fn=is_dir props=C05,C10,C01,C12,C20
    pub fn is_dir<T: PathArg>(path: T) -> (r: bool)
        ensures r == (std_abs(path.pc()) is Some && os_stat_ok(abs_of(path.pc()), true) && !os_is_link(abs_of(path.pc())) && os_is_dir(abs_of(path.pc()), true)),     //@ clause stdfs.is_dir.asks_about_abs_path_excluding_links [C05,C10]
//@ body
//@ item is_file file=src/sys/fs/stdfs/mod.rs block="impl Stdfs" fn=is_file props=C05,C10,C01,C12,C20
    pub fn is_file<T: PathArg>(path: T) -> (r: bool)
        ensures r == (std_abs(path.pc()) is Some && os_stat_ok(abs_of(path.pc()), true) && !os_is_link(abs_of(path.pc())) && os_is_file(abs_of(path.pc()), true)),     //@ clause stdfs.is_file.asks_about_abs_path_excluding_links [C05,C10]
//@ body
//@ item is_exec file=src/sys/fs/stdfs/mod.rs block="impl Stdfs" fn=is_exec props=C05,C11,C12
    pub fn is_exec<T: PathArg>(path: T) -> (r: bool)
        ensures r == (std_abs(path.pc()) is Some && os_stat_ok(abs_of(path.pc()), false) && os_mode(abs_of(path.pc()), false) & 0o111 != 0),     //@ clause stdfs.is_exec.agrees_with_mode_of_abs_path [C05,C11]
//@ body
//@ item is_readonly file=src/sys/fs/stdfs/mod.rs block="impl Stdfs" fn=is_readonly props=C05,C11,C12
    pub fn is_readonly<T: PathArg>(path: T) -> (r: bool)
        ensures r == (std_abs(path.pc()) is Some && os_stat_ok(abs_of(path.pc()), false) && os_readonly(abs_of(path.pc()), false)),     //@ clause stdfs.is_readonly.asks_about_abs_path [C05,C11]
//@ body
//@ item mode file=src/sys/fs/stdfs/mod.rs block="impl Stdfs" fn=mode props=C05,C11,C12
    pub fn mode<T: PathArg>(path: T) -> (r: RvResult<u32>)
        ensures r is Ok == (std_abs(path.pc()) is Some && os_stat_ok(abs_of(path.pc()), true)),
                r is Ok ==> r->Ok_0 == os_mode(abs_of(path.pc()), true),     //@ clause stdfs.mode.reads_mode_of_abs_path [C05,C11]
//@ body
//@ item owner file=src/sys/fs/stdfs/mod.rs block="impl Stdfs" fn=owner props=C05,C11,C12
    pub fn owner<T: PathArg>(path: T) -> (r: RvResult<(u32, u32)>)
        ensures r is Ok == (std_abs(path.pc()) is Some && os_stat_ok(abs_of(path.pc()), false)),
                r is Ok ==> r->Ok_0 == os_owner(abs_of(path.pc()), false),     //@ clause stdfs.owner.reads_owner_of_abs_path [C05,C11]
//@ body
}


impl Stdfs {
// ---- mutators: which request is sent to the OS, for which absolute path
//@ item move_p file=src/sys/fs/stdfs/mod.rs block="impl Stdfs" fn=move_p props=C09,C05,C12
//@ rw R1 * re⟦dst_root\.mash\((\w+(?:\.as_ref\(\))?)\.(\w+)\(\)\?\)⟧ => ⟦dst_root.mash_n(\1.\2()?)⟧
    pub fn move_p(src: &PathBuf, dst: &PathBuf) -> (r: RvResult<()>)
        ensures r is Ok ==> ({
            let a = std_abs(src.comps()); let b = std_abs(dst.comps());
            &&& a is Some && b is Some
            &&& ({
                let into = os_stat_ok(abs_comps(b->Some_0), true) && !os_is_link(abs_comps(b->Some_0)) && os_is_dir(abs_comps(b->Some_0), true);
                // dst itself, or dst/<name of src> when dst is an existing directory (same rule as Memfs::move_p)
                os_renamed(abs_comps(a->Some_0), abs_comps(if into && a->Some_0.len() > 0 { b->Some_0.push(a->Some_0.last()) } else { b->Some_0 }))     //@ clause stdfs.move_p.renames_abs_src_to_dst_or_dst_slash_name [C09,C05]
                || (into && a->Some_0.len() == 0)
            })
        }),
//@ body
//@ item mkdir_p file=src/sys/fs/stdfs/mod.rs block="impl Stdfs" fn=mkdir_p props=C01,C05,C12
//@ rw R5 * ⟦PathError::IsNotDir(path).into()⟧ => ⟦PathError::is_not_dir(path).into()⟧
    pub fn mkdir_p(path: &PathBuf) -> (r: RvResult<PathBuf>)
        ensures r is Ok ==> ({
            let a = std_abs(path.comps());
            &&& a is Some && r->Ok_0@ == a->Some_0 && r->Ok_0.abs_clean()
            // either the directory is requested, or abs(path) already exists and is a real directory
            &&& (os_created_dir_all(abs_comps(a->Some_0))
                 || (os_stat_ok(abs_comps(a->Some_0), false) && os_stat_ok(abs_comps(a->Some_0), true) && !os_is_link(abs_comps(a->Some_0)) && os_is_dir(abs_comps(a->Some_0), true)))     //@ clause stdfs.mkdir_p.creates_abs_path_or_it_is_a_directory [C01,C05]
        }),
//@ body
//@ item mkfile file=src/sys/fs/stdfs/mod.rs block="impl Stdfs" fn=mkfile props=C01,C05,C12
    pub fn mkfile(path: &PathBuf) -> (r: RvResult<PathBuf>)
        ensures
            r is Ok ==> ({
                let a = std_abs(path.comps());
                &&& a is Some && a->Some_0.len() > 0 && r->Ok_0@ == a->Some_0 && r->Ok_0.abs_clean() && r->Ok_0.comps() == abs_comps(a->Some_0)
                // the parent must be an existing directory; the file is requested unless something that is a file is already there
                &&& os_stat_ok(abs_comps(a->Some_0.drop_last()), true) && os_is_dir(abs_comps(a->Some_0.drop_last()), true)            //@ clause stdfs.mkfile.parent_must_be_directory [C01]
                &&& (os_created_file(abs_comps(a->Some_0)) || (os_stat_ok(abs_comps(a->Some_0), true) && os_is_file(abs_comps(a->Some_0), true)))     //@ clause stdfs.mkfile.creates_abs_path_or_it_is_a_file [C01,C05]
            }),
            (r is Err && std_abs(path.comps()) is Some && std_abs(path.comps())->Some_0.len() > 0) ==> ({
                let a = std_abs(path.comps())->Some_0;
                let d = abs_comps(a.drop_last());
                &&& !os_stat_ok(d, true) ==> r->Err_0.kind == ErrKind::DoesNotExist
                &&& (os_stat_ok(d, true) && !os_is_dir(d, true)) ==> r->Err_0.kind == ErrKind::IsNotDir
                &&& (os_stat_ok(d, true) && os_is_dir(d, true) && os_stat_ok(abs_comps(a), true)) ==> r->Err_0.kind == ErrKind::IsNotFile     //@ clause stdfs.mkfile.error_kinds [C01]
            }),
//@ body
//@ item mkfile_m file=src/sys/fs/stdfs/mod.rs block="impl Stdfs" fn=mkfile_m props=C01,C11,C05,C12
    pub fn mkfile_m(path: &PathBuf, mode: u32) -> (r: RvResult<PathBuf>)
        ensures r is Ok ==> std_abs(path.comps()) is Some && r->Ok_0@ == std_abs(path.comps())->Some_0
                            && os_mode_set(abs_of(path.comps()), mode),     //@ clause stdfs.mkfile_m.sets_requested_mode_on_abs_path [C11,C05]
//@ body
//@ item remove_all file=src/sys/fs/stdfs/mod.rs block="impl Stdfs" fn=remove_all props=C01,C05,C12
    pub fn remove_all(path: &PathBuf) -> (r: RvResult<()>)
        ensures r is Ok ==> std_abs(path.comps()) is Some && (os_removed_all(abs_of(path.comps())) || !os_stat_ok(abs_of(path.comps()), false)),     //@ clause stdfs.remove_all.removes_abs_path_if_present [C01,C05]
//@ body
//@ item set_cwd file=src/sys/fs/stdfs/mod.rs block="impl Stdfs" fn=set_cwd props=C01,C05,C12
    pub fn set_cwd(path: &PathBuf) -> (r: RvResult<PathBuf>)
        ensures r is Ok ==> std_abs(path.comps()) is Some && r->Ok_0@ == std_abs(path.comps())->Some_0 && os_cwd_set(abs_of(path.comps())),     //@ clause stdfs.set_cwd.changes_to_abs_path [C01,C05]
//@ body
}

// the spelling a link target is resolved through: absolute targets as given, relative ones joined onto the link's directory
pub open spec fn target_arg(a: PathV, target: Comps) -> Comps { if comps_absolute(target) { target } else { spec_mash(abs_comps(a.drop_last()), target) } }

impl Stdfs {
//@ item symlink file=src/sys/fs/stdfs/mod.rs block="impl Stdfs" fn=symlink props=C10,C16,C12
//@ sig pub fn symlink<T: AsRef<Path>, U: AsRef<Path>>(link: T, target: U) -> RvResult<PathBuf>
    pub fn symlink(link: &PathBuf, target: &PathBuf) -> (r: RvResult<PathBuf>)
        ensures r is Ok ==> ({
            let a = std_abs(link.comps());
            &&& a is Some && a->Some_0.len() > 0
            &&& ({
                let b = std_abs(target_arg(a->Some_0, target.comps()));
                &&& b is Some
                // the OS is asked to create, at abs(link), a link whose stored text is abs(target) made relative to the link's directory
                &&& os_symlinked(spec_relative(abs_comps(b->Some_0), abs_comps(a->Some_0.drop_last())), abs_comps(a->Some_0))     //@ clause stdfs.symlink.requests_relative_target_at_abs_link [C10,C16]
                &&& r->Ok_0@ == a->Some_0 && r->Ok_0.abs_clean()
            })
        }),
//@ body

//@ item readlink file=src/sys/fs/stdfs/mod.rs block="impl Stdfs" fn=readlink props=C10,C12
    pub fn readlink(path: &PathBuf) -> (r: RvResult<PathBuf>)
        ensures r is Ok ==> std_abs(path.comps()) is Some && r->Ok_0.comps() == os_link_target(abs_comps(std_abs(path.comps())->Some_0)),     //@ clause stdfs.readlink.reads_stored_text_of_abs_path [C10]
//@ body
}
impl StdfsEntry {
//@ item entry_from file=src/sys/fs/stdfs/entry.rs block="impl StdfsEntry" fn=from props=C10,C16,C12
//@ sig pub(crate) fn from<T: AsRef<Path>>(path: T) -> RvResult<Self>
    pub fn from(path: &PathBuf) -> (r: RvResult<StdfsEntry>)
        ensures r is Ok ==> ({
            let a = std_abs(path.comps());
            let e = r->Ok_0;
            &&& a is Some && e.path@ == a->Some_0 && e.path.abs_clean() && os_stat_ok(abs_comps(a->Some_0), false)
            &&& e.link == os_is_link(abs_comps(a->Some_0)) && !e.follow && e.cached
            // kind and mode: of the entry itself for a non-link (lstat), of what the link resolves to for a link (stat of the link's own path)
            &&& e.dir == os_is_dir(abs_comps(a->Some_0), !e.link) && e.file == os_is_file(abs_comps(a->Some_0), !e.link)
                && e.mode == os_mode(abs_comps(a->Some_0), !e.link)                                                          //@ clause stdfs.entry.kind_is_that_of_the_resolved_target [C10]
            &&& !e.link ==> e.alt.comps() == Seq::<Comp>::empty() && e.rel.comps() == Seq::<Comp>::empty()
            &&& e.link ==> a->Some_0.len() > 0 && ({
                    // alt is the absolute form of the stored text (relative text is joined onto the link's directory); rel is alt relative to that directory
                    let b = std_abs(target_arg(a->Some_0, os_link_target(abs_comps(a->Some_0))));
                    &&& b is Some
                    &&& e.alt.comps() == abs_comps(b->Some_0) && e.alt.abs_clean()                                           //@ clause stdfs.entry.alt_is_abs_of_stored_target [C10,C16]
                    &&& e.rel.comps() == spec_relative(abs_comps(b->Some_0), abs_comps(a->Some_0.drop_last()))              //@ clause stdfs.entry.rel_is_alt_relative_to_link_dir [C10,C16]
                })
        }),
//@ body
}

// =====================================================================================================================
// Stdfs::mkdir_m and Stdfs::_copy / _chown: per-entry requests over an (assumed) traversal
pub uninterp spec fn os_dir_created(p: Comps) -> bool;
pub uninterp spec fn os_copied(from: Comps, to: Comps) -> bool;
pub uninterp spec fn os_chowned(p: Comps, uid: Option<u32>, gid: Option<u32>) -> bool;
#[verifier::external_body] pub fn os_create_dir<T: PathArg>(p: T) -> (r: RvResult<()>) ensures r is Ok ==> os_dir_created(p.pc()) { unimplemented!() }
#[verifier::external_body] pub fn os_copy<T: PathArg, U: PathArg>(a: T, b: U) -> (r: RvResult<u64>) ensures r is Ok ==> os_copied(a.pc(), b.pc()) { unimplemented!() }
// R8: `nix::unistd::chown(p, uid.map(Uid::from_raw), gid.map(Gid::from_raw))` (the two maps only wrap the raw ids)
#[verifier::external_body] pub fn os_chown<T: PathArg>(p: T, uid: Option<u32>, gid: Option<u32>) -> (r: RvResult<()>) ensures r is Ok ==> os_chowned(p.pc(), uid, gid) { unimplemented!() }
impl PathBuf {
    // std Path::exists: a raw metadata query on the spelling
    #[verifier::external_body] pub fn exists(&self) -> (b: bool) ensures b == os_stat_ok(self.comps(), false) { unimplemented!() }
}
// every component of the absolute path, top down, exists already or is created with the requested mode
pub open spec fn mkdir_m_done(a: PathV, mode: u32, j: int) -> bool {
    forall|i: int| 0 <= i <= j ==> os_stat_ok(abs_comps(#[trigger] a.take(i)), false) || (os_dir_created(abs_comps(a.take(i))) && os_mode_set(abs_comps(a.take(i)), mode))
}
#[verifier::external_body]
pub fn os_set_mode_of_created<T: PathArg>(p: T, mode: u32) -> (r: RvResult<()>)
    requires os_dir_created(p.pc())
    ensures r is Ok ==> os_mode_set(p.pc(), mode)
{ unimplemented!() }
impl Stdfs {
//@ item mkdir_m file=src/sys/fs/stdfs/mod.rs block="impl Stdfs" fn=mkdir_m props=C01,C11,C05,C12,C09
//@ rw R3 1 for
//@ rw R8 * ⟦fs::create_dir(&path)?;⟧ => ⟦os_create_dir(&path)?;⟧
// "entries that already existed are kept": mkdir_m may set the mode only of a directory it has just created
//@ rw R8 + re⟦\bfs::set_permissions\(([^,]+), fs::Permissions::from_mode\(([^()]+)\)\)⟧ => ⟦os_set_mode_of_created(\1, \2)⟧
//@ ins after ⟦let mut path = PathBuf::new();⟧
        let ghost a = abs@;
        let ghost mut k: int = 0;
        proof { abs.ax_abs(); }
//@ endins
//@ loop 1
            invariant
                a == abs@, abs.abs_clean(), abs.comps() == abs_comps(a),
                0 <= k <= a.len() + 1,
                __it1.rest().len() == a.len() + 1 - k,
                forall|i: int| 0 <= i < __it1.rest().len() ==> (#[trigger] __it1.rest()[i])@ == abs_comps(a)[k + i],
                k == 0 ==> path.comps().len() == 0,
                k > 0 ==> path.abs_clean() && path@ == a.take(k - 1) && path.comps() == abs_comps(a.take(k - 1)) && mkdir_m_done(a, mode, k - 1),
            ensures k == a.len() + 1,
            decreases a.len() + 1 - k
//@ endloop
//@ ins after ⟦path.push(component);⟧
            proof {
                k = k + 1;
                if k > 1 { assert(a.take(k - 2).push(a[k - 2]) =~= a.take(k - 1)); } else { assert(a.take(0) =~= root()); }
            }
//@ endins
    pub fn mkdir_m<T: PathArg>(path: T, mode: u32) -> (r: RvResult<PathBuf>)
        ensures r is Ok ==> std_abs(path.pc()) is Some && r->Ok_0@ == std_abs(path.pc())->Some_0 && r->Ok_0.abs_clean()
                            && mkdir_m_done(std_abs(path.pc())->Some_0, mode, std_abs(path.pc())->Some_0.len() as int),     //@ clause stdfs.mkdir_m.creates_each_missing_component_with_mode [C01,C11]
//@ body
}

// ---- traversal shim (ASSUMED[traversal]: Entries over the real filesystem is not verified: C02/C08)
#[verifier::external_body] pub struct VfsEntry { x: u8 }
impl VfsEntry {
    pub uninterp spec fn xpath(&self) -> PathV;
    pub uninterp spec fn xlink(&self) -> bool;
    pub uninterp spec fn xdir(&self) -> bool;
    pub uninterp spec fn xmode(&self) -> u32;
    pub uninterp spec fn xalt(&self) -> Comps;
    // ASSUMED[traversal]: entries yielded by a Stdfs traversal were built by StdfsEntry::from, so their path is absolute and clean
    #[verifier::external_body]
    pub fn path(&self) -> (r: &PathBuf) ensures r@ == self.xpath(), r.abs_clean(), r.comps() == abs_comps(r@) { unimplemented!() }
    #[verifier::external_body] pub fn is_symlink(&self) -> (r: bool) ensures r == self.xlink() { unimplemented!() }
    #[verifier::external_body] pub fn is_dir(&self) -> (r: bool) ensures r == self.xdir() { unimplemented!() }
    #[verifier::external_body] pub fn mode(&self) -> (r: u32) ensures r == self.xmode() { unimplemented!() }
    #[verifier::external_body] pub fn alt(&self) -> (r: &PathBuf) ensures r.comps() == self.xalt() { unimplemented!() }
    // Entry default methods: link && dir / link && file
    #[verifier::external_body] pub fn is_exec(&self) -> (r: bool) ensures r == (self.xmode() & 0o111 != 0) { unimplemented!() }
    #[verifier::external_body] pub fn is_readonly(&self) -> (r: bool) ensures r == (self.xmode() & 0o222 == 0) { unimplemented!() }
    #[verifier::external_body] pub fn path_buf(&self) -> (r: PathBuf) ensures r@ == self.xpath(), r.abs_clean(), r.comps() == abs_comps(r@) { unimplemented!() }
    #[verifier::external_body] pub fn is_symlink_dir(&self) -> (r: bool) ensures r == (self.xlink() && self.xdir()) { unimplemented!() }
    #[verifier::external_body] pub fn is_symlink_file(&self) -> (r: bool) ensures r == (self.xlink() && self.xfile()) { unimplemented!() }
}
#[verifier::external_body] pub struct EntriesIt { x: u8 }
impl EntriesIt {
    pub uninterp spec fn left(&self) -> nat;      // ASSUMED[traversal]: a traversal is finite
    pub uninterp spec fn troot(&self) -> PathV;
    pub uninterp spec fn tfollow(&self) -> bool;
    pub uninterp spec fn tdepth(&self) -> usize;
    #[verifier::external_body] pub fn follow(self, yes: bool) -> (r: EntriesIt) ensures r.left() == self.left(), r.troot() == self.troot(), r.tfollow() == yes, r.tdepth() == self.tdepth() { unimplemented!() }
    #[verifier::external_body] pub fn max_depth(self, n: usize) -> (r: EntriesIt) ensures r.left() == self.left(), r.troot() == self.troot(), r.tdepth() == n, r.tfollow() == self.tfollow() { unimplemented!() }
    // ASSUMED[traversal]: yielded paths lie at or below the traversal root
    #[verifier::external_body]
    pub fn next(&mut self) -> (r: Option<RvResult<VfsEntry>>)
        ensures r is Some ==> final(self).left() < old(self).left(), final(self).troot() == old(self).troot(), final(self).tfollow() == old(self).tfollow(), final(self).tdepth() == old(self).tdepth(),
                (r is Some && r->Some_0 is Ok) ==> in_sub(old(self).troot(), r->Some_0->Ok_0.xpath())
    { unimplemented!() }
}
impl StdfsEntry {
    // ASSUMED[entry-follow-contract]: unit entry_follow; the path stays absolute and clean (path or alt of an entry built by from())
    #[verifier::external_body]
    pub fn follow(self, follow: bool) -> (r: VfsEntry)
        ensures !(follow && self.link && !self.follow) ==> r.xpath() == self.path@,
                (follow && self.link && !self.follow && self.alt.abs_clean()) ==> r.xpath() == self.alt@
    { unimplemented!() }
    #[verifier::external_body] pub fn mode(&self) -> (r: u32) ensures r == self.mode { unimplemented!() }
}
impl PathBuf {
    pub uninterp spec fn rel_names(&self) -> Seq<Name>;
    pub uninterp spec fn is_rel(&self) -> bool;
    // ASSUMED[trim-prefix-abs] / ASSUMED[mash-contract]: unit path_helpers
    #[verifier::external_body]
    pub fn trim_prefix<T: PathArg>(&self, prefix: T) -> (r: PathBuf)
        ensures (self.abs_clean() && prefix.pok() && in_sub(prefix.pv(), self@)) ==> r.is_rel() && r.rel_names() == self@.skip(prefix.pv().len() as int)
    { unimplemented!() }
    #[verifier::external_body]
    pub fn mash_rel(&self, p: PathBuf) -> (r: PathBuf)
        ensures (self.abs_clean() && p.is_rel()) ==> r.abs_clean() && r@ == self@ + p.rel_names() && r.comps() == abs_comps(r@)
    { unimplemented!() }
    #[verifier::external_body]
    pub fn eq_abs(&self, o: &PathBuf) -> (b: bool) ensures (self.abs_clean() && o.abs_clean()) ==> b == (self@ == o@) { unimplemented!() }
}
//@ struct file=src/sys/fs/copy.rs name=CopyOpts
//@ endstruct
//@ struct file=src/sys/fs/chown.rs name=ChownOpts
//@ endstruct
// recorded requests of the Stdfs functions _copy calls (each proved above / in this unit against the OS oracle)
pub uninterp spec fn req_symlink(link: Comps, target: Comps) -> bool;
pub uninterp spec fn req_mkdir_m(p: Comps, mode: u32) -> bool;
pub uninterp spec fn ent_mode(p: Comps) -> u32;
impl Stdfs {
    #[verifier::external_body] pub fn entries<T: PathArg>(path: T) -> (r: RvResult<EntriesIt>) ensures (r is Ok && path.pok()) ==> r->Ok_0.troot() == path.pv(), r is Ok ==> !r->Ok_0.tfollow() && r->Ok_0.tdepth() == usize::MAX { unimplemented!() }
    #[verifier::external_body] pub fn symlink_req(link: PathBuf, target: &PathBuf) -> (r: RvResult<PathBuf>) ensures r is Ok ==> req_symlink(link.comps(), target.comps()) { unimplemented!() }
    #[verifier::external_body] pub fn mkdir_m_req<T: PathArg>(p: T, mode: u32) -> (r: RvResult<PathBuf>) ensures r is Ok ==> req_mkdir_m(p.pc(), mode) { unimplemented!() }
    #[verifier::external_body] pub fn entry_mode<T: PathArg>(p: T) -> (r: RvResult<u32>) ensures r is Ok ==> r->Ok_0 == ent_mode(p.pc()) { unimplemented!() }
}
pub open spec fn dir_mode_of(o: CopyOpts) -> Option<u32> { match o.mode { Some(x) => if o.cdirs || !o.cfiles { Some(x) } else { None }, None => None } }
pub open spec fn file_mode_of(o: CopyOpts) -> Option<u32> { match o.mode { Some(x) => if o.cfiles || !o.cdirs { Some(x) } else { None }, None => None } }
pub open spec fn copy_dst(a: PathV, b: PathV, into: bool, p: PathV) -> PathV { if into { b + p.skip(a.len() - 1) } else { b + p.skip(a.len() as int) } }
// what one yielded entry must cause: a link is re-created (not following), a directory is created with the selected or its own mode,
// anything else is copied (after creating a missing parent with the selected mode or the source parent's mode) and gets the selected mode
pub open spec fn copy_entry_done(e: &VfsEntry, a: PathV, b: PathV, into: bool, o: CopyOpts) -> bool {
    let p = e.xpath();
    let d = abs_comps(copy_dst(a, b, into, p));
    if !o.follow && e.xlink() { req_symlink(d, e.xalt()) }
    else if e.xdir() { req_mkdir_m(d, match dir_mode_of(o) { Some(x) => x, None => e.xmode() }) }
    else {
        let dd = abs_comps(copy_dst(a, b, into, p).drop_last());
        &&& os_copied(abs_comps(p), d)
        &&& (file_mode_of(o) is Some ==> os_mode_set(d, file_mode_of(o)->Some_0))
        &&& ((std_abs(dd) is Some && os_stat_ok(abs_of(dd), false)) || req_mkdir_m(dd, match dir_mode_of(o) { Some(x) => x, None => ent_mode(abs_comps(p.drop_last())) }))
    }
}
impl Stdfs {
//@ item _copy file=src/sys/fs/stdfs/mod.rs block="impl Stdfs" fn=_copy props=C09,C11,C12,C06,C05
//@ sig fn _copy(cp: sys::CopyOpts) -> RvResult<()>
//@ rw R1 * re⟦\b(cp\.src|cp\.dst|src_root|dst_root) == (cp\.src|cp\.dst|src_root|dst_root)\b⟧ => ⟦\1.eq_abs(&\2)⟧
//@ rw R1 + re⟦dst_root\.mash\(⟧ => ⟦dst_root.mash_rel(⟧
//@ rw R8 * re⟦Stdfs::symlink\(dst_path, (\w+)\.alt\(\)\)\?;⟧ => ⟦Stdfs::symlink_req(dst_path, \1.alt())?;⟧
//@ rw R8 + re⟦Stdfs::mkdir_m\(⟧ => ⟦Stdfs::mkdir_m_req(⟧
//@ rw R8 * ⟦StdfsEntry::from(src.path().dir()?)?.mode()⟧ => ⟦Stdfs::entry_mode(src.path().dir()?)?⟧
//@ rw R8 * ⟦fs::copy(src.path(), &dst_path)?;⟧ => ⟦os_copy(src.path(), &dst_path)?;⟧
//@ rw R3 1 for
//@ ins before re⟦let dir_mode = ⟧
        // past the guard: source and destination are different absolute paths (copying a file onto itself would truncate it)
        proof { assert(src_root.abs_clean() && dst_root.abs_clean() && src_root@ != dst_root@); }      //@ clause stdfs.copy.does_nothing_exactly_when_source_and_destination_are_the_same_absolute_path [C09,C06,C05]
//@ endins
//@ ins after ⟦let copy_into = Stdfs::is_dir(&dst_root);⟧
        let ghost b = dst_root@;
//@ endins
//@ ins after ⟦let src_root = StdfsEntry::from(&src_root)?.follow(cp.follow);⟧
        // the root of the traversal: the source itself, or its target when following a link
        let ghost a = src_root.xpath();
//@ endins
//@ ins after re⟦\{ let mut __it1 = [^;]*;⟧
        proof { assert(__it1.tfollow() == cp.follow && __it1.tdepth() == usize::MAX); }      //@ clause stdfs.copy.traverses_the_whole_source_and_follows_as_requested [C09]
//@ endins
//@ loop 1
            invariant
                src_root.xpath() == a, dst_root.abs_clean(), dst_root@ == b, __it1.troot() == a,
                dir_mode == dir_mode_of(cp), file_mode == file_mode_of(cp),
            decreases __it1.left()
//@ endloop
//@ ins after ⟦let src = entry?;⟧
            let ghost p = src.xpath();
            proof {
                assert(a.take(a.len() as int) =~= a);
                if a.len() > 0 { assert(p.take(a.len() - 1) =~= p.take(a.len() as int).take(a.len() - 1)); assert(a.take(a.len() - 1) =~= a.drop_last()); }
            }
//@ endins
//@ ins loopend 1
            proof {
                assert(dst_path@ == copy_dst(a, b, copy_into, p));
                assert(copy_entry_done(&src, a, b, copy_into, cp));      //@ clause stdfs.copy.each_entry_is_recreated_at_its_relative_destination_with_the_selected_mode [C09,C11]
            }
//@ endins
    pub fn _copy(cp: CopyOpts) -> (r: RvResult<()>)
//@ body

//@ item _chown file=src/sys/fs/stdfs/mod.rs block="impl Stdfs" fn=_chown props=C11,C10,C01,C12
//@ ins before re⟦\{ let mut __it1 =⟧
        let ghost want_depth: usize = if opts.recursive { usize::MAX } else { 0 };
//@ endins
//@ ins after re⟦\{ let mut __it1 = [^;]*;⟧
        proof { assert(__it1.tfollow() == opts.follow && __it1.tdepth() == want_depth); }      //@ clause stdfs.chown.traverses_recursively_or_not_and_follows_as_requested [C11]
//@ endins
//@ sig fn _chown(opts: ChownOpts) -> RvResult<()>
//@ rw R8 * ⟦let uid = opts.uid.map(nix::unistd::Uid::from_raw);⟧ => ⟦let uid = opts.uid;⟧
//@ rw R8 * ⟦let gid = opts.gid.map(nix::unistd::Gid::from_raw);⟧ => ⟦let gid = opts.gid;⟧
//@ rw R8 * ⟦nix::unistd::chown(src.path(), uid, gid)?;⟧ => ⟦os_chown(src.path(), uid, gid)?;⟧
//@ rw R3 1 for
//@ loop 1
            invariant true,
            decreases __it1.left()
//@ endloop
//@ ins loopend 1
            proof { assert(os_chowned(abs_comps(src.xpath()), opts.uid, opts.gid)); }      //@ clause stdfs.chown.requests_the_given_ids_for_each_yielded_entry [C11]
//@ endins
    pub fn _chown(opts: ChownOpts) -> (r: RvResult<()>)
//@ body
}

// ---- Stdfs::_chmod: the same two-phase application as Memfs::_chmod, as requests to the OS
//@ struct file=src/sys/fs/chmod.rs name=ChmodOpts
//@ rw R1 * ⟦String⟧ => ⟦Str⟧
//@ endstruct
impl ChmodOpts {
    #[verifier::external_body] pub fn clone(&self) -> (r: ChmodOpts) ensures r == *self { unimplemented!() }
}
impl VfsEntry {
    pub uninterp spec fn xfile(&self) -> bool;
    #[verifier::external_body] pub fn is_file(&self) -> (r: bool) ensures r == self.xfile() { unimplemented!() }
}
// ASSUMED[mode-contract]: sys::mode / revoking_mode as proved in unit chmod_mode
pub uninterp spec fn spec_mode(link: bool, dir: bool, file: bool, mode: u32, octal: u32, sym: Seq<char>) -> Option<u32>;
#[verifier::external_body]
pub fn sys_mode(e: &VfsEntry, octal: u32, sym: &Str) -> (r: RvResult<u32>)
    ensures r is Ok == spec_mode(e.xlink(), e.xdir(), e.xfile(), e.xmode(), octal, sym@) is Some,
            r is Ok ==> r->Ok_0 == spec_mode(e.xlink(), e.xdir(), e.xfile(), e.xmode(), octal, sym@)->Some_0
{ unimplemented!() }
pub open spec fn revoking(old: u32, new: u32) -> bool { old & 0o0500 > new & 0o0500 || old & 0o0050 > new & 0o0050 || old & 0o0005 > new & 0o0005 }
#[verifier::external_body]
pub fn revoking_mode(old: u32, new: u32) -> (r: bool) ensures r == revoking(old, new) { unimplemented!() }
impl EntriesIt {
    #[verifier::external_body] pub fn contents_first(self) -> (r: EntriesIt) ensures r.left() == self.left(), r.troot() == self.troot(), r.tfollow() == self.tfollow(), r.tdepth() == self.tdepth() { unimplemented!() }
    #[verifier::external_body] pub fn dirs_first(self) -> (r: EntriesIt) ensures r.left() == self.left(), r.troot() == self.troot(), r.tfollow() == self.tfollow(), r.tdepth() == self.tdepth() { unimplemented!() }
    // R13: `.pre_op(move |x| { .. })`: the boxed closure is verified as its own item (chmod_pre_op)
    #[verifier::external_body] pub fn pre_op_set(self) -> (r: EntriesIt) ensures r.left() == self.left(), r.troot() == self.troot(), r.tfollow() == self.tfollow(), r.tdepth() == self.tdepth() { unimplemented!() }
}
// the request _chmod sends: an octal value of 0 means "no mode given" everywhere in the chmod API, so mode 0 must never be requested
#[verifier::external_body]
pub fn os_chmod_request<T: PathArg>(p: T, mode: u32) -> (r: RvResult<()>)
    requires mode != 0
    ensures r is Ok ==> os_mode_set(p.pc(), mode)
{ unimplemented!() }
impl Stdfs {
//@ item chmod_pre_op file=src/sys/fs/stdfs/mod.rs block="impl Stdfs" fn=_chmod closure=1 props=C11,C10,C01,C12
//@ sig closure |x| in fn _chmod(opts: ChmodOpts) -> RvResult<()>
//@ rw R8 + re⟦\bfs::set_permissions\(([^,]+), fs::Permissions::from_mode\(([^()]+)\)\)⟧ => ⟦os_chmod_request(\1, \2)⟧
//@ rw R8 + re⟦\bsys::mode\(⟧ => ⟦sys_mode(⟧
//@ rw R8 + re⟦\bsys::revoking_mode\(⟧ => ⟦revoking_mode(⟧
//@ ins? before re⟦os_chmod_request\(x\.path\(\)⟧
                proof { assert(!x.xlink() || m.follow); }      //@ clause stdfs.chmod.pre_op_never_touches_a_link_unless_following [C11,C10]
//@ endins
    pub fn chmod_pre_op(x: &VfsEntry, m: &ChmodOpts) -> (r: RvResult<()>)
        ensures r is Ok ==> ({
            let m1 = spec_mode(x.xlink(), x.xdir(), x.xfile(), x.xmode(), m.dirs, m.sym@);
            &&& m1 is Some
            // granting phase: a directory gets its new mode on the way in only when that takes no read/execute bit away
            &&& ((!x.xlink() || m.follow) && x.xdir() && m1->Some_0 != 0 && !revoking(x.xmode(), m1->Some_0) && x.xmode() != m1->Some_0) ==> os_mode_set(abs_comps(x.xpath()), m1->Some_0)     //@ clause stdfs.chmod.pre_op_grants_directory_mode_when_not_revoking [C11]
        }),
//@ body

//@ item _chmod file=src/sys/fs/stdfs/mod.rs block="impl Stdfs" fn=_chmod props=C11,C10,C01,C12
//@ sig fn _chmod(opts: ChmodOpts) -> RvResult<()>
//@ rw R8 + re⟦\bfs::set_permissions\(([^,]+), fs::Permissions::from_mode\(([^()]+)\)\)⟧ => ⟦os_chmod_request(\1, \2)⟧
//@ rw R13 1 re⟦\.pre_op\(move \|x\| \{.*?\}\);⟧ => ⟦.pre_op_set();⟧
//@ rw R8 + re⟦\bsys::mode\(⟧ => ⟦sys_mode(⟧
//@ rw R3 1 for
//@ ins after re⟦\{ let mut __it1 = [^;]*;⟧
        proof { assert(__it1.tfollow() == opts.follow && __it1.tdepth() == (if opts.recursive { usize::MAX } else { 0usize })); }      //@ clause stdfs.chmod.traverses_recursively_or_not_and_follows_as_requested [C11]
//@ endins
//@ loop 1
            invariant true,
            decreases __it1.left()
//@ endloop
//@ ins loopend 1
            proof {
                let v = if src.xdir() { spec_mode(src.xlink(), src.xdir(), src.xfile(), src.xmode(), opts.dirs, opts.sym@) }
                        else if src.xfile() { spec_mode(src.xlink(), src.xdir(), src.xfile(), src.xmode(), opts.files, opts.sym@) } else { Some(0u32) };
                // directories use the `dirs` octal / expression, files the `files` one; a symlink only when following; 0 = nothing to do
                assert(v is Some && (((!src.xlink() || opts.follow) && v->Some_0 != src.xmode() && v->Some_0 != 0) ==> os_mode_set(abs_comps(src.xpath()), v->Some_0)));      //@ clause stdfs.chmod.requests_the_kind_specific_mode_for_each_yielded_entry [C11]
            }
//@ endins
//@ ins? before re⟦os_chmod_request\(src\.path\(\)⟧
                proof { assert(!src.xlink() || opts.follow); }      //@ clause stdfs.chmod.never_requests_a_change_for_a_link_unless_following [C11,C10]
//@ endins
    pub fn _chmod(opts: ChmodOpts) -> (r: RvResult<()>)
//@ body
}

// what Stdfs::exists / Stdfs::is_dir answer for a spelling (their contracts above)
pub open spec fn q_exists(c: Comps) -> bool { std_abs(c) is Some && os_stat_ok(abs_of(c), false) }
pub open spec fn q_is_dir(c: Comps) -> bool { std_abs(c) is Some && os_stat_ok(abs_of(c), true) && !os_is_link(abs_of(c)) && os_is_dir(abs_of(c), true) }
impl Stdfs {
//@ item write_all file=src/sys/fs/stdfs/mod.rs block="impl Stdfs" fn=write_all props=C06,C01,C05,C12
//@ rw R1 * ⟦f.write_all(data.as_ref())?;⟧ => ⟦f.write_all(data)?;⟧
    pub fn write_all(path: &PathBuf, data: &[u8]) -> (r: RvResult<()>)
        ensures
            r is Ok ==> ({
                let a = std_abs(path.comps());
                &&& a is Some && a->Some_0.len() > 0
                // the file at abs(path) is created/truncated and exactly `data` is written to it; its parent must be a real directory
                &&& os_created_file(abs_comps(a->Some_0)) && os_written(abs_comps(a->Some_0), data@)        //@ clause stdfs.write_all.truncates_and_writes_data_at_abs_path [C06,C05]
                &&& q_exists(abs_comps(a->Some_0.drop_last())) && q_is_dir(abs_comps(a->Some_0.drop_last()))                   //@ clause stdfs.write_all.parent_must_be_directory [C01]
            }),
//@ body
//@ item read_all file=src/sys/fs/stdfs/mod.rs block="impl Stdfs" fn=read_all props=C06,C01,C05,C12
//@ rw R5 * re⟦Err\(err\) => Err\(err\.into\(\)\)⟧ => ⟦Err(err) => Err(err)⟧
    pub fn read_all(path: &PathBuf) -> (r: RvResult<Str>)
        ensures
            r is Ok ==> std_abs(path.comps()) is Some && r->Ok_0@ == os_file_text(abs_of(path.comps()))            //@ clause stdfs.read_all.reads_the_text_of_abs_path [C06,C05]
                        && os_stat_ok(abs_of(path.comps()), true) && os_is_file(abs_of(path.comps()), true),
            (r is Err && std_abs(path.comps()) is Some) ==> ({
                let a = abs_of(path.comps());
                &&& !os_stat_ok(a, true) ==> r->Err_0.kind == ErrKind::DoesNotExist
                &&& (os_stat_ok(a, true) && !os_is_file(a, true)) ==> r->Err_0.kind == ErrKind::IsNotFile               //@ clause stdfs.read_all.error_kinds [C01]
            }),
//@ body
}

impl Stdfs {
// ---- handles: which file is opened, and how
//@ item write file=src/sys/fs/stdfs/mod.rs block="impl Stdfs" fn=write props=C07,C06,C05,C12
    pub fn write(path: &PathBuf) -> (r: RvResult<OsFile>)
        ensures r is Ok ==> std_abs(path.comps()) is Some && r->Ok_0.of() == abs_of(path.comps())
                            && os_created_file(abs_of(path.comps())),     //@ clause stdfs.write.handle_is_a_truncating_create_of_abs_path [C07,C06]
//@ body
//@ item append file=src/sys/fs/stdfs/mod.rs block="impl Stdfs" fn=append props=C07,C06,C05,C12
//@ rw R1 * ⟦Stdfs::mkfile(&path)?;⟧ => ⟦Stdfs::mkfile(path)?;⟧
    pub fn append(path: &PathBuf) -> (r: RvResult<OsFile>)
        ensures r is Ok ==> std_abs(path.comps()) is Some && r->Ok_0.of() == abs_of(path.comps())
                            && os_opened_append(abs_of(path.comps())),     //@ clause stdfs.append.handle_appends_to_abs_path_without_truncating [C07,C06]
//@ body
//@ item read file=src/sys/fs/stdfs/mod.rs block="impl Stdfs" fn=read props=C07,C06,C05,C12
    pub fn read(path: &PathBuf) -> (r: RvResult<OsFile>)
        ensures r is Ok ==> std_abs(path.comps()) is Some && r->Ok_0.of() == abs_of(path.comps()) && os_opened_read(abs_of(path.comps())),     //@ clause stdfs.read.opens_abs_path_for_reading [C07,C06]
//@ body
}
