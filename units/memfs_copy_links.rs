//@ unit memfs_copy_links
//@ props C09 C16 C10 C12
// A second, request-level contract of Memfs::_copy for trees that DO contain links (the state contract in unit memfs_ops requires a
// link-free tree: open finding add-under-symlink-parent).  Nothing is assumed about the tree and nothing is proved about the resulting
// state; what is proved is which request each yielded entry leads to: a link met while not following is re-created by
// `_symlink(dst_path, src.alt())` - at the destination path computed for it, with the SOURCE ENTRY's stored target - and every other
// entry goes through the clone branch.  Callees are opaque requests (as in unit stdfs_os).
//@ prelude base errors iter path_abs
// ASSUMED[requests]: the callees of Memfs::_copy (_abs, _entries, _clone_entry, _mkdir_m, _add, _clone_file, _symlink) are opaque requests here; _symlink records its two arguments and no other callee creates a link (their contracts are proved in unit memfs_ops)

#[verifier::external_body]
pub struct MemfsGuard { x: u8 }
impl MemfsGuard {
    // the last link request: (link path, target)
    pub uninterp spec fn last_link(&self) -> (Comps, Comps);
    #[verifier::external_body] pub fn contains_entry(&self, p: &PathBuf) -> (b: bool) { unimplemented!() }
    #[verifier::external_body] pub fn insert_file(&mut self, p: PathBuf, f: MemfsFile) { unimplemented!() }
}
#[verifier::external_body] pub struct MemfsFile { x: u8 }
// the stored entry type, reduced to what the clone branch touches (R9)
pub struct MemfsEntry { pub path: PathBuf, pub x: u8 }
impl MemfsEntry {
    pub uninterp spec fn elink(&self) -> bool;
    #[verifier::external_body] pub fn follow(self, yes: bool) -> (r: VfsEntry) { unimplemented!() }
    #[verifier::external_body] pub fn is_dir(&self) -> (b: bool) { unimplemented!() }
    #[verifier::external_body] pub fn is_symlink(&self) -> (b: bool) ensures b == self.elink() { unimplemented!() }
    #[verifier::external_body] pub fn mode(&self) -> (m: u32) { unimplemented!() }
    #[verifier::external_body] pub fn path(&self) -> (r: &PathBuf) { unimplemented!() }
    #[verifier::external_body] pub fn clone(&self) -> (r: MemfsEntry) ensures r.elink() == self.elink() { unimplemented!() }
    #[verifier::external_body] pub fn set_mode(&mut self, m: Option<u32>) ensures final(self).elink() == old(self).elink() { unimplemented!() }
}
#[verifier::external_body] pub struct VfsEntry { x: u8 }
impl VfsEntry {
    pub uninterp spec fn xlink(&self) -> bool;
    pub uninterp spec fn xalt(&self) -> Comps;
    pub uninterp spec fn xpathc(&self) -> Comps;
    #[verifier::external_body] pub fn path(&self) -> (r: &PathBuf) ensures r.comps() == self.xpathc() { unimplemented!() }
    #[verifier::external_body] pub fn alt(&self) -> (r: &PathBuf) ensures r.comps() == self.xalt() { unimplemented!() }
    #[verifier::external_body] pub fn is_symlink(&self) -> (b: bool) ensures b == self.xlink() { unimplemented!() }
}
#[verifier::external_body] pub struct EntriesIt { x: u8 }
impl EntriesIt {
    pub uninterp spec fn left(&self) -> nat;
    #[verifier::external_body] pub fn follow(self, yes: bool) -> (r: EntriesIt) { unimplemented!() }
    #[verifier::external_body] pub fn next(&mut self) -> (r: Option<RvResult<VfsEntry>>) ensures r is Some ==> final(self).left() < old(self).left() { unimplemented!() }
}
impl PathBuf {
    // the destination path of an entry: the destination root joined with the entry's path relative to the source root (or to its
    // parent when copying into an existing directory); the arithmetic is proved in units memfs_ops / path_helpers
    pub uninterp spec fn spec_rel(p: Comps, base: Comps) -> Comps;
    pub uninterp spec fn spec_join(d: Comps, rel: Comps) -> Comps;
    #[verifier::external_body] pub fn trim_prefix_c<T: PathArg>(&self, prefix: T) -> (r: PathBuf) ensures r.comps() == PathBuf::spec_rel(self.comps(), prefix.pc()) { unimplemented!() }
    #[verifier::external_body] pub fn mash_c(&self, p: PathBuf) -> (r: PathBuf) ensures r.comps() == PathBuf::spec_join(self.comps(), p.comps()) { unimplemented!() }
    #[verifier::external_body] pub fn clone_from(&mut self, o: &PathBuf) ensures final(self).comps() == o.comps() { unimplemented!() }
    #[verifier::external_body] pub fn eq_c(&self, o: &PathBuf) -> (b: bool) ensures b == (self.comps() == o.comps()) { unimplemented!() }
}
pub struct CopyOpts { pub src: PathBuf, pub dst: PathBuf, pub mode: Option<u32>, pub cdirs: bool, pub cfiles: bool, pub follow: bool }

// requests (R11: `self.f(guard, ..)` -> `f(guard, ..)`)
#[verifier::external_body] pub fn _abs(guard: &MemfsGuard, p: &PathBuf) -> (r: RvResult<PathBuf>) { unimplemented!() }
#[verifier::external_body] pub fn _is_dir(guard: &MemfsGuard, p: &PathBuf) -> (b: bool) { unimplemented!() }
#[verifier::external_body] pub fn _clone_entry<T: PathArg>(guard: &MemfsGuard, p: T) -> (r: RvResult<MemfsEntry>) { unimplemented!() }
#[verifier::external_body] pub fn _entries(guard: &MemfsGuard, p: &PathBuf) -> (r: RvResult<EntriesIt>) { unimplemented!() }
#[verifier::external_body] pub fn _mkdir_m<T: PathArg>(guard: &mut MemfsGuard, p: T, m: Option<u32>) -> (r: RvResult<PathBuf>) ensures final(guard).last_link() == old(guard).last_link() { unimplemented!() }
#[verifier::external_body] pub fn _add(guard: &mut MemfsGuard, e: MemfsEntry) -> (r: RvResult<PathBuf>) ensures final(guard).last_link() == old(guard).last_link() { unimplemented!() }
#[verifier::external_body] pub fn _clone_file<T: PathArg>(guard: &MemfsGuard, p: T) -> (r: RvResult<MemfsFile>) { unimplemented!() }
#[verifier::external_body]
pub fn _symlink(guard: &mut MemfsGuard, link: PathBuf, target: &PathBuf) -> (r: RvResult<PathBuf>)
    ensures r is Ok ==> final(guard).last_link() == (link.comps(), target.comps())
{ unimplemented!() }

//@ item _copy file=src/sys/fs/memfs/vfs.rs block="impl Memfs" fn=_copy props=C09,C16,C10,C12
//@ sig fn _copy(&self, guard: &mut MemfsGuard, cp: sys::CopyOpts) -> RvResult<()>
//@ rw R11 + re⟦self\.(_abs|_is_dir|_clone_entry|_entries|_symlink|_mkdir_m|_add|_clone_file)\(\s*guard⟧ => ⟦\1(guard⟧
//@ rw R1 * re⟦\bsrc_root == dst_root\b⟧ => ⟦src_root.eq_c(&dst_root)⟧
//@ rw R1 + re⟦dst_root\.mash\(⟧ => ⟦dst_root.mash_c(⟧
//@ rw R1 + re⟦\.trim_prefix\(⟧ => ⟦.trim_prefix_c(⟧
//@ rw R3 1 for
//@ loop 1
            invariant true
            decreases __it1.left()
//@ endloop
//@ ins before#1 re⟦if [^{;]*\.is_symlink\(\) \{⟧
            let ghost dpc = dst_path.comps();
            let ghost is_link = src.xlink();
            let ghost tgt = src.xalt();
//@ endins
//@ ins before re⟦_symlink\(guard, dst_path, ⟧
                proof { assert(!cp.follow && is_link); }      //@ clause memfs.copy.only_links_met_while_not_following_are_recreated_as_links [C09,C16]
//@ endins
//@ ins after re⟦_symlink\(guard, dst_path, [^;]*;⟧
                proof { assert(guard.last_link() == (dpc, tgt)); }      //@ clause memfs.copy.link_is_recreated_at_its_destination_with_the_source_entrys_target [C09,C16,C10]
//@ endins
//@ ins before re⟦let src = _clone_entry\(guard, src\.path\(\)\)\?;⟧
                proof { assert(cp.follow || !is_link); }      //@ clause memfs.copy.links_are_cloned_only_when_following [C09,C16]
//@ endins
pub fn _copy(guard: &mut MemfsGuard, cp: CopyOpts) -> (r: RvResult<()>)
//@ body
