import os, sys
sys.path.insert(0, os.path.join(os.path.dirname(os.path.abspath(__file__)), '..', 'vc'))
import oracles as O


def find(d, fn, seed):
    A = ['a', 'ƒ', '€', '😀']
    if 'size' in fn:
        ins = list(O.strings(A, 3))
        outs = d.run(['str_size\t%s' % O.hexs(s) for s in ins])
        for s, o in zip(ins, outs):
            got = o.split('\t')[1] if o.startswith('OK') else o
            if got != str(len(s)):
                return {'driver_line': 'str_size\t%s' % O.hexs(s), 'input': {'s': s}, 'expected': len(s), 'got': got, 'oracle': 'number of characters'}
    if 'trim_suffix' in fn:
        pairs = [(s, t) for s in O.strings(A, 3) for t in O.strings(A, 2)]
        outs = d.run(['str_trim_suffix\t%s\t%s' % (O.hexs(s), O.hexs(t)) for s, t in pairs])
        for (s, t), o in zip(pairs, outs):
            exp = O.trim_suffix(s, t)
            got = O.unhex(o.split('\t')[1]) if o.startswith('OK') and len(o.split('\t')) > 1 else ('' if o.startswith('OK') else o)
            if got != exp:
                return {'driver_line': 'str_trim_suffix\t%s\t%s' % (O.hexs(s), O.hexs(t)), 'input': {'s': s, 'suffix': t}, 'expected': exp, 'got': got, 'oracle': 'one trailing occurrence removed'}
    return None
