//@ unit entries_engine
//@ props C08 C12 C11 C09 C01
// The traversal engine shared by both backends (src/sys/fs/entries.rs): EntriesIter::process / next / into_iter against the
// denotation `walk` written from the statement of C08: the root, then (or, with contents_first, before) the arranged contents of
// every directory that is descended into, restricted to the depth window and the filter, with a LinkLooping error in place of a
// followed link whose target is already being traversed.  Callbacks (pre_op, sort, filter, the backend's directory lister) are
// boxed closures in the real structs; here they are opaque values whose calls are functions of their arguments
// (ASSUMED[callbacks-are-functions]), and the per-directory iterator EntryIter is an opaque queue (ASSUMED[entry-iter]).
//@ prelude base errors iter path_abs
// ASSUMED[callbacks-are-functions]: the boxed callbacks of a traversal (pre_op, filter, sort comparator, the backend's directory lister) answer as functions of their arguments and keep no state that changes their answers
// ASSUMED[entry-accessors]: VfsEntry::{path, is_dir, is_file, is_symlink} return the stored fields; clone() is an equal copy; follow() is the path/alt switch of unit entry_follow
// ASSUMED[entry-iter]: EntryIter behaves as the queue proved in unit entry_iter (rest = out, arrange = the sorted sequences); the link between the two units is by name
// ASSUMED[slice-iter-any]: v.iter().any(f) is true iff f answers true for some element of v
// ASSUMED[vec-last-mut]: Vec::last_mut / push / pop / len as specified by vstd

pub type Out = RvResult<VfsEntry>;

// ---- an entry as the engine sees it (ASSUMED[entry-accessors]: is_dir / is_symlink / is_file / path are the stored fields;
// follow is the path/alt switch verified in unit entry_follow)
#[verifier::external_body]
pub struct VfsEntry { x: u8 }
impl VfsEntry {
    pub uninterp spec fn spath(&self) -> Comps;
    pub uninterp spec fn sdir(&self) -> bool;
    pub uninterp spec fn slink(&self) -> bool;
    pub uninterp spec fn sfile(&self) -> bool;
    pub uninterp spec fn sfollowed(&self, yes: bool) -> VfsEntry;
    #[verifier::external_body]
    pub fn path(&self) -> (r: &PathBuf) ensures r.comps() == self.spath() { unimplemented!() }
    #[verifier::external_body]
    pub fn is_dir(&self) -> (b: bool) ensures b == self.sdir() { unimplemented!() }
    #[verifier::external_body]
    pub fn is_file(&self) -> (b: bool) ensures b == self.sfile() { unimplemented!() }
    #[verifier::external_body]
    pub fn is_symlink(&self) -> (b: bool) ensures b == self.slink() { unimplemented!() }
    #[verifier::external_body]
    pub fn follow(self, yes: bool) -> (r: VfsEntry) ensures r == self.sfollowed(yes) { unimplemented!() }
    #[verifier::external_body]
    pub fn clone(&self) -> (r: VfsEntry) ensures r == *self { unimplemented!() }
}
impl RvError {
    // `From::from(err)` of trying! on a value that already is an RvError
    pub fn rv(self) -> (r: RvError) ensures r == self { self }
}
pub open spec fn err_loop() -> RvError { RvError { kind: ErrKind::LinkLooping } }

// ---- callbacks
#[verifier::external_body]
pub struct PreOp { x: u8 }
impl PreOp {
    pub uninterp spec fn res(&self, e: VfsEntry) -> RvResult<()>;
    #[verifier::external_body]
    pub fn call(&mut self, e: &VfsEntry) -> (r: RvResult<()>) ensures r == old(self).res(*e), *final(self) == *old(self) { unimplemented!() }
}
#[verifier::external_body]
pub struct SortFn { x: u8 }
#[verifier::external_body]
pub struct FilterFn { x: u8 }
impl FilterFn {
    pub uninterp spec fn accepts(&self, e: VfsEntry) -> bool;
    #[verifier::external_body]
    pub fn call(&mut self, e: &VfsEntry) -> (r: bool) ensures r == old(self).accepts(*e), *final(self) == *old(self) { unimplemented!() }
    // R13: `Box::new(closure)` stored as a filter: what the filter answers for e satisfies the closure's (verified) postcondition
    #[verifier::external_body]
    pub fn boxed<F: Fn(&VfsEntry) -> bool>(f: F) -> (r: FilterFn)
        requires forall|e: VfsEntry| call_requires(f, (&e,))
        ensures forall|e: VfsEntry| call_ensures(f, (&e,), #[trigger] r.accepts(e))
    { unimplemented!() }
}
#[verifier::external_body]
pub struct IterFrom { x: u8 }
impl IterFrom {
    // what the backend lists for a directory path (entries already switched to their targets when following, as EntryIter::next does)
    pub uninterp spec fn list(&self, p: Comps, follow: bool) -> RvResult<Seq<Out>>;
    #[verifier::external_body]
    pub fn call(&self, p: &PathBuf, follow: bool) -> (r: RvResult<EntryIter>)
        ensures match r {
            Ok(it) => self.list(p.comps(), follow) is Ok && it.rest() == self.list(p.comps(), follow)->Ok_0 && it.path_c() == p.comps(),
            Err(e) => self.list(p.comps(), follow) == Err::<Seq<Out>, RvError>(e),
        }
    { unimplemented!() }
}

// ---- the per-directory iterator (src/sys/fs/entry_iter.rs): a queue of results; cache / sort / dirs_first / files_first re-arrange
// what is left and mark the iterator cached.  ASSUMED[entry-iter]: proved on the real bodies in unit entry_iter, where rest() is
// `out()` and arrange(Sorted / DirsFirst / FilesFirst, cmp, s) is sorted_by(ord_of(cmp), s) / sorted(dirs and errors) + sorted(rest) / the reverse
pub enum Arr { Sorted, DirsFirst, FilesFirst }
pub uninterp spec fn arrange(m: Arr, f: SortFn, s: Seq<Out>) -> Seq<Out>;
#[verifier::external_body]
pub struct EntryIter { x: u8 }
impl EntryIter {
    pub uninterp spec fn path_c(&self) -> Comps;
    pub uninterp spec fn rest(&self) -> Seq<Out>;
    pub uninterp spec fn is_cached(&self) -> bool;
    #[verifier::external_body]
    pub fn path(&self) -> (r: &PathBuf) ensures r.comps() == self.path_c() { unimplemented!() }
    #[verifier::external_body]
    pub fn cached(&self) -> (b: bool) ensures b == self.is_cached() { unimplemented!() }
    #[verifier::external_body]
    pub fn cache(&mut self) ensures final(self).rest() == old(self).rest(), final(self).path_c() == old(self).path_c(), final(self).is_cached() { unimplemented!() }
    #[verifier::external_body]
    pub fn sort(&mut self, cmp: &SortFn) ensures final(self).rest() == arrange(Arr::Sorted, *cmp, old(self).rest()), final(self).path_c() == old(self).path_c(), final(self).is_cached() { unimplemented!() }
    #[verifier::external_body]
    pub fn dirs_first(&mut self, cmp: &SortFn) ensures final(self).rest() == arrange(Arr::DirsFirst, *cmp, old(self).rest()), final(self).path_c() == old(self).path_c(), final(self).is_cached() { unimplemented!() }
    #[verifier::external_body]
    pub fn files_first(&mut self, cmp: &SortFn) ensures final(self).rest() == arrange(Arr::FilesFirst, *cmp, old(self).rest()), final(self).path_c() == old(self).path_c(), final(self).is_cached() { unimplemented!() }
    #[verifier::external_body]
    pub fn next(&mut self) -> (r: Option<Out>)
        ensures final(self).path_c() == old(self).path_c(), final(self).is_cached() == old(self).is_cached(),
                match r {
                    Some(x) => old(self).rest().len() > 0 && x == old(self).rest()[0] && final(self).rest() == old(self).rest().skip(1),
                    None => old(self).rest().len() == 0 && final(self).rest() == old(self).rest(),
                }
    { unimplemented!() }
}
// `v.iter().any(f)` (ASSUMED[slice-iter-any]: true iff f answers true for some element); ``key` is the path the closure's verified
// postcondition says it compares each element's path with
#[verifier::external_body]
pub fn iter_any<F: Fn(&EntryIter) -> bool>(v: &Vec<EntryIter>, f: F, Ghost(key): Ghost<Comps>) -> (b: bool)
    requires forall|x: &EntryIter| call_requires(f, (x,)), forall|x: &EntryIter, r: bool| #[trigger] call_ensures(f, (x,), r) ==> r == (x.path_c() == key)
    ensures b == paths(v@).contains(key)
{ unimplemented!() }

// R9: the three boxed callbacks become the opaque callback types above
//@ struct file=src/sys/fs/entries.rs name=Entries
//@ rw R9 1 re⟦Option<Box<dyn FnMut\(&VfsEntry\) -> RvResult<\(\)> \+ Send \+ Sync \+ 'static>>⟧ => ⟦Option<PreOp>⟧
//@ rw R9 1 re⟦Option<Box<dyn Fn\(&VfsEntry, &VfsEntry\) -> Ordering \+ Send \+ Sync \+ 'static>>⟧ => ⟦Option<SortFn>⟧
//@ rw R9 1 re⟦Box<dyn Fn\(&Path, bool\) -> RvResult<EntryIter> \+ Send \+ Sync \+ 'static>⟧ => ⟦IterFrom⟧
//@ endstruct
//@ struct file=src/sys/fs/entries.rs name=EntriesIter
//@ rw R9 1 re⟦Option<Box<dyn FnMut\(&VfsEntry\) -> bool>>⟧ => ⟦Option<FilterFn>⟧
//@ endstruct

// ---- the denotation (from the statement of C08)
pub open spec fn descends(o: Entries, e: VfsEntry) -> bool { e.sdir() && (!e.slink() || o.follow) }
pub open spec fn keeps(o: Entries, f: Option<FilterFn>, e: VfsEntry, depth: int) -> bool {
    depth >= o.min_depth && (f is None || f->Some_0.accepts(e))
}
// the contents of a directory in the order the options ask for
pub open spec fn arr(o: Entries, items: Seq<Out>) -> Seq<Out> {
    match o.sort {
        Some(cmp) => if o.dirs_first { arrange(Arr::DirsFirst, cmp, items) } else if o.files_first { arrange(Arr::FilesFirst, cmp, items) } else { arrange(Arr::Sorted, cmp, items) },
        None => items,
    }
}
pub open spec fn me(o: Entries, f: Option<FilterFn>, e: VfsEntry, depth: int) -> Seq<Out> {
    if keeps(o, f, e, depth) { seq![Ok::<VfsEntry, RvError>(e)] } else { Seq::<Out>::empty() }
}
pub open spec fn pre_err(o: Entries, e: VfsEntry) -> Option<RvError> {
    match o.pre_op { Some(p) => match p.res(e) { Err(x) => Some(x), Ok(_) => None }, None => None }
}
// what the traversal yields for entry e met at `depth` while the directories `st` are being traversed
pub open spec fn walk(o: Entries, f: Option<FilterFn>, e: VfsEntry, st: Seq<Comps>, depth: int) -> Seq<Out>
    decreases o.max_depth - depth, 0int
{
    if descends(o, e) && e.slink() && st.contains(e.spath()) {
        seq![Err::<VfsEntry, RvError>(err_loop())]                                  // a followed link back into the current branch
    } else if descends(o, e) && 0 <= depth < o.max_depth {
        if pre_err(o, e) is Some { seq![Err::<VfsEntry, RvError>(pre_err(o, e)->Some_0)] }
        else {
            match o.iter_from.list(e.spath(), o.follow) {
                Err(x) => seq![Err::<VfsEntry, RvError>(x)],
                Ok(items) => {
                    let inner = walk_list(o, f, arr(o, items), st.push(e.spath()), depth + 1);
                    if o.contents_first { inner + me(o, f, e, depth) } else { me(o, f, e, depth) + inner }
                },
            }
        }
    } else { me(o, f, e, depth) }
}
pub open spec fn walk_list(o: Entries, f: Option<FilterFn>, items: Seq<Out>, st: Seq<Comps>, depth: int) -> Seq<Out>
    decreases o.max_depth - depth, 1 + items.len()
{
    if items.len() == 0 || depth > o.max_depth || depth < 0 { Seq::<Out>::empty() } else {
        (match items[0] { Ok(e) => walk(o, f, e, st, depth), Err(x) => seq![Err::<VfsEntry, RvError>(x)] }) + walk_list(o, f, items.skip(1), st, depth)
    }
}
// number of engine steps the same traversal takes (termination measure of `next`)
pub open spec fn cnt(o: Entries, e: VfsEntry, st: Seq<Comps>, depth: int) -> nat
    decreases o.max_depth - depth, 0int
{
    if descends(o, e) && e.slink() && st.contains(e.spath()) { 1 }
    else if descends(o, e) && 0 <= depth < o.max_depth {
        if pre_err(o, e) is Some { 1 } else {
            match o.iter_from.list(e.spath(), o.follow) {
                Err(x) => 1,
                Ok(items) => 2 + cnt_list(o, arr(o, items), st.push(e.spath()), depth + 1),
            }
        }
    } else { 1 }
}
pub open spec fn cnt_list(o: Entries, items: Seq<Out>, st: Seq<Comps>, depth: int) -> nat
    decreases o.max_depth - depth, 1 + items.len()
{
    if items.len() == 0 || depth > o.max_depth || depth < 0 { 0 } else {
        (match items[0] { Ok(e) => cnt(o, e, st, depth), Err(x) => 1 }) + cnt_list(o, items.skip(1), st, depth)
    }
}

// ---- the engine's state
pub open spec fn paths(fr: Seq<EntryIter>) -> Seq<Comps> { fr.map_values(|x: EntryIter| x.path_c()) }
pub open spec fn tail(o: Entries, df: Seq<Option<VfsEntry>>, k: int) -> Seq<Out> {
    if o.contents_first && 0 <= k < df.len() && df[k] is Some { seq![Ok::<VfsEntry, RvError>(df[k]->Some_0)] } else { Seq::<Out>::empty() }
}
// everything the iterator still has to yield: top frame first, each frame followed by its deferred directory
#[verifier::opaque]
pub open spec fn rem(o: Entries, f: Option<FilterFn>, fr: Seq<EntryIter>, df: Seq<Option<VfsEntry>>) -> Seq<Out>
    decreases fr.len()
{
    if fr.len() == 0 { Seq::<Out>::empty() } else {
        let k = fr.len() - 1;
        walk_list(o, f, fr[k].rest(), paths(fr), k as int + 1) + tail(o, df, k) + rem(o, f, fr.drop_last(), df)
    }
}
#[verifier::opaque]
pub open spec fn remcnt(o: Entries, fr: Seq<EntryIter>) -> nat
    decreases fr.len()
{
    if fr.len() == 0 { 0 } else { 1 + cnt_list(o, fr[fr.len() - 1].rest(), paths(fr), fr.len() as int) + remcnt(o, fr.drop_last()) }
}
#[verifier::opaque]
pub open spec fn uncached(fr: Seq<EntryIter>) -> nat
    decreases fr.len()
{
    if fr.len() == 0 { 0 } else { (if fr.last().is_cached() { 0nat } else { 1nat }) + uncached(fr.drop_last()) }
}
pub open spec fn inv(s: EntriesIter) -> bool {
    &&& s.opts.contents_first ==> s.deferred@.len() == s.iters@.len()
    &&& !s.opts.contents_first ==> s.deferred@.len() == 0
    &&& s.iters@.len() <= s.opts.max_depth
    &&& uncached(s.iters@) <= s.open_descriptors <= s.opts.max_descriptors < 0xFFFF
}
// after an exhausted directory iterator has been popped its deferred directory is still on the deferral stack
pub open spec fn inv_pending(s: EntriesIter) -> bool {
    &&& s.opts.contents_first ==> s.deferred@.len() == s.iters@.len() || s.deferred@.len() == s.iters@.len() + 1
    &&& !s.opts.contents_first ==> s.deferred@.len() == 0
    &&& s.iters@.len() <= s.opts.max_depth
    &&& uncached(s.iters@) <= s.open_descriptors <= s.opts.max_descriptors < 0xFFFF
}
pub open spec fn rem_pending(s: EntriesIter) -> Seq<Out> {
    tail(s.opts, s.deferred@, s.iters@.len() as int) + rem(s.opts, s.filter, s.iters@, s.deferred@)
}
pub open spec fn full_rem(s: EntriesIter) -> Seq<Out> {
    if !s.started { walk(s.opts, s.filter, s.opts.root.sfollowed(s.opts.follow), Seq::<Comps>::empty(), 0) } else { rem(s.opts, s.filter, s.iters@, s.deferred@) }
}
pub open spec fn fresh(s: EntriesIter) -> bool { !s.started && s.iters@.len() == 0 && s.deferred@.len() == 0 && s.open_descriptors == 0 && s.opts.max_descriptors < 0xFFFF }

// ---- lemmas
pub proof fn lemma_walk(o: Entries, f: Option<FilterFn>, e: VfsEntry, st: Seq<Comps>, depth: int)
    ensures
        descends(o, e) && e.slink() && st.contains(e.spath()) ==> walk(o, f, e, st, depth) == seq![Err::<VfsEntry, RvError>(err_loop())] && cnt(o, e, st, depth) == 1,
        !(descends(o, e) && e.slink() && st.contains(e.spath())) && !(descends(o, e) && 0 <= depth < o.max_depth) ==> walk(o, f, e, st, depth) == me(o, f, e, depth) && cnt(o, e, st, depth) == 1,
        !(descends(o, e) && e.slink() && st.contains(e.spath())) && descends(o, e) && 0 <= depth < o.max_depth ==> {
            &&& pre_err(o, e) is Some ==> walk(o, f, e, st, depth) == seq![Err::<VfsEntry, RvError>(pre_err(o, e)->Some_0)] && cnt(o, e, st, depth) == 1
            &&& pre_err(o, e) is None && o.iter_from.list(e.spath(), o.follow) is Err ==> walk(o, f, e, st, depth) == seq![Err::<VfsEntry, RvError>(o.iter_from.list(e.spath(), o.follow)->Err_0)] && cnt(o, e, st, depth) == 1
            &&& pre_err(o, e) is None && o.iter_from.list(e.spath(), o.follow) is Ok ==> {
                let inner = walk_list(o, f, arr(o, o.iter_from.list(e.spath(), o.follow)->Ok_0), st.push(e.spath()), depth + 1);
                &&& walk(o, f, e, st, depth) == (if o.contents_first { inner + me(o, f, e, depth) } else { me(o, f, e, depth) + inner })
                &&& cnt(o, e, st, depth) == 2 + cnt_list(o, arr(o, o.iter_from.list(e.spath(), o.follow)->Ok_0), st.push(e.spath()), depth + 1)
            }
        },
{
}
pub proof fn lemma_walk_list(o: Entries, f: Option<FilterFn>, items: Seq<Out>, st: Seq<Comps>, depth: int)
    ensures
        items.len() == 0 ==> walk_list(o, f, items, st, depth) == Seq::<Out>::empty() && cnt_list(o, items, st, depth) == 0,
        items.len() > 0 && 0 <= depth <= o.max_depth ==> {
            &&& walk_list(o, f, items, st, depth) == (match items[0] { Ok(e) => walk(o, f, e, st, depth), Err(x) => seq![Err::<VfsEntry, RvError>(x)] }) + walk_list(o, f, items.skip(1), st, depth)
            &&& cnt_list(o, items, st, depth) == (match items[0] { Ok(e) => cnt(o, e, st, depth), Err(x) => 1 }) + cnt_list(o, items.skip(1), st, depth)
        },
{
}
pub proof fn lemma_rem_push(o: Entries, f: Option<FilterFn>, fr: Seq<EntryIter>, df: Seq<Option<VfsEntry>>, fr2: Seq<EntryIter>, d: Option<VfsEntry>)
    requires o.contents_first ==> df.len() == fr.len(), fr2.len() == fr.len() + 1, forall|i: int| 0 <= i < fr.len() ==> fr2[i] == fr[i]
    ensures
        o.contents_first ==> rem(o, f, fr2, df.push(d)) == walk_list(o, f, fr2.last().rest(), paths(fr).push(fr2.last().path_c()), fr.len() as int + 1) + tail(o, df.push(d), fr.len() as int) + rem(o, f, fr, df),
        !o.contents_first ==> rem(o, f, fr2, df) == walk_list(o, f, fr2.last().rest(), paths(fr).push(fr2.last().path_c()), fr.len() as int + 1) + rem(o, f, fr, df),
        remcnt(o, fr2) == 1 + cnt_list(o, fr2.last().rest(), paths(fr).push(fr2.last().path_c()), fr.len() as int + 1) + remcnt(o, fr),
        uncached(fr2) == (if fr2.last().is_cached() { 0nat } else { 1nat }) + uncached(fr),
{
    reveal(rem); reveal(remcnt); reveal(uncached);
    let it = fr2.last();
    assert(fr2 =~= fr.push(it));
    assert(fr2.drop_last() =~= fr);
    assert(paths(fr2) =~= paths(fr).push(it.path_c()));
    if o.contents_first {
        lemma_rem_df_frame(o, f, fr, df, df.push(d));
    }
    assert(!o.contents_first ==> tail(o, df, fr.len() as int) =~= Seq::<Out>::empty());
    assert(!o.contents_first ==> rem(o, f, fr2, df) =~= walk_list(o, f, it.rest(), paths(fr).push(it.path_c()), fr.len() as int + 1) + rem(o, f, fr, df));
}
// rem reads the deferral stack only below the number of frames
pub proof fn lemma_rem_df_frame(o: Entries, f: Option<FilterFn>, fr: Seq<EntryIter>, df: Seq<Option<VfsEntry>>, df2: Seq<Option<VfsEntry>>)
    requires df.len() >= fr.len(), df2.len() >= fr.len(), forall|i: int| 0 <= i < fr.len() ==> df[i] == df2[i]
    ensures rem(o, f, fr, df) == rem(o, f, fr, df2)
    decreases fr.len()
{
    reveal(rem);
    if fr.len() > 0 {
        lemma_rem_df_frame(o, f, fr.drop_last(), df, df2);
    }
}
// replacing the top frame by one with the same path
pub proof fn lemma_rem_top(o: Entries, f: Option<FilterFn>, fr: Seq<EntryIter>, df: Seq<Option<VfsEntry>>, it: EntryIter)
    requires fr.len() > 0, it.path_c() == fr.last().path_c()
    ensures
        rem(o, f, fr.update(fr.len() - 1, it), df) == walk_list(o, f, it.rest(), paths(fr), fr.len() as int) + tail(o, df, fr.len() - 1) + rem(o, f, fr.drop_last(), df),
        remcnt(o, fr.update(fr.len() - 1, it)) == 1 + cnt_list(o, it.rest(), paths(fr), fr.len() as int) + remcnt(o, fr.drop_last()),
        uncached(fr.update(fr.len() - 1, it)) == (if it.is_cached() { 0nat } else { 1nat }) + uncached(fr.drop_last()),
        paths(fr.update(fr.len() - 1, it)) == paths(fr),
{
    reveal(rem); reveal(remcnt); reveal(uncached);
    let fr2 = fr.update(fr.len() - 1, it);
    assert(fr2.drop_last() =~= fr.drop_last());
    assert(paths(fr2) =~= paths(fr));
    assert(fr2.last() == it);
}

pub proof fn lemma_finish(keep: bool, pushed: bool, e: VfsEntry, mee: Seq<Out>, inner: Seq<Out>, w: Seq<Out>, r0: Seq<Out>, r1: Seq<Out>)
    requires
        mee == (if keep { seq![Ok::<VfsEntry, RvError>(e)] } else { Seq::<Out>::empty() }),
        pushed ==> w == mee + inner && r1 == inner + r0,
        !pushed ==> w == mee && r1 == r0,
    ensures
        keep ==> w.len() > 0 && w[0] == Ok::<VfsEntry, RvError>(e) && r1 == w.skip(1) + r0,
        !keep ==> r1 == w + r0,
{
    if keep {
        if pushed { assert(w.skip(1) =~= inner); } else { assert(w.skip(1) =~= Seq::<Out>::empty()); assert(w.skip(1) + r0 =~= r0); }
    } else {
        if pushed { assert(w =~= inner); } else { assert(w + r0 =~= r0); }
    }
}
//@ obligation lemma_rem_push props=C08
//@ obligation lemma_rem_df_frame props=C08
//@ obligation lemma_rem_top props=C08
//@ obligation lemma_walk props=C08
//@ obligation lemma_walk_list props=C08
//@ obligation lemma_finish props=C08

// unfolding of the state functions
pub proof fn lemma_rem_unfold(o: Entries, f: Option<FilterFn>, fr: Seq<EntryIter>, df: Seq<Option<VfsEntry>>)
    ensures
        fr.len() == 0 ==> rem(o, f, fr, df) == Seq::<Out>::empty() && remcnt(o, fr) == 0 && uncached(fr) == 0,
        fr.len() > 0 ==> rem(o, f, fr, df) == walk_list(o, f, fr.last().rest(), paths(fr), fr.len() as int) + tail(o, df, fr.len() - 1) + rem(o, f, fr.drop_last(), df)
                         && remcnt(o, fr) == 1 + cnt_list(o, fr.last().rest(), paths(fr), fr.len() as int) + remcnt(o, fr.drop_last())
                         && uncached(fr) == (if fr.last().is_cached() { 0nat } else { 1nat }) + uncached(fr.drop_last()),
{
    reveal(rem); reveal(remcnt); reveal(uncached);
}
// R = ((W + WL) + T) + D and the next state holds (WL + T) + D
pub proof fn lemma_assoc(r: Seq<Out>, w: Seq<Out>, wl: Seq<Out>, t: Seq<Out>, d: Seq<Out>, r1: Seq<Out>)
    requires r == ((w + wl) + t) + d, r1 == (wl + t) + d
    ensures r == w + r1, w.len() > 0 ==> r.len() > 0 && r[0] == w[0] && r.skip(1) == w.skip(1) + r1
{
    assert(r =~= w + r1);
    if w.len() > 0 { assert(r.skip(1) =~= w.skip(1) + r1); }
}
pub proof fn lemma_head(r: Seq<Out>, t: Seq<Out>, d: Seq<Out>)
    requires r == t + d
    ensures t.len() == 0 ==> r == d, t.len() == 1 ==> r.len() > 0 && r[0] == t[0] && r.skip(1) == d
{
    if t.len() == 0 { assert(r =~= d); }
    if t.len() == 1 { assert(r.skip(1) =~= d); }
}
//@ obligation lemma_rem_unfold props=C08
//@ obligation lemma_assoc props=C08
//@ obligation lemma_head props=C08

// ---- "each exactly once when links are not followed": a consequence of the denotation for a lister that lists children
pub open spec fn under(q: Comps, x: Comps) -> bool { q.len() <= x.len() && x.take(q.len() as int) == q }
pub open spec fn opath(x: Out) -> Comps { x->Ok_0.spath() }
// the items are entries at pairwise different paths directly below p
pub open spec fn sib(items: Seq<Out>, p: Comps) -> bool {
    &&& forall|k: int| 0 <= k < items.len() ==> (#[trigger] items[k]) is Ok && opath(items[k]).len() == p.len() + 1 && opath(items[k]).take(p.len() as int) == p
    &&& forall|k: int, l: int| 0 <= k < l < items.len() ==> opath(#[trigger] items[k]) != opath(#[trigger] items[l])
}
pub open spec fn tree_lister(o: Entries) -> bool {
    forall|p: Comps| (#[trigger] o.iter_from.list(p, false)) is Ok ==> sib(arr(o, o.iter_from.list(p, false)->Ok_0), p)
}
pub open spec fn distinct_ok(w: Seq<Out>) -> bool {
    forall|i: int, j: int| 0 <= i < j < w.len() && (#[trigger] w[i]) is Ok && (#[trigger] w[j]) is Ok ==> opath(w[i]) != opath(w[j])
}
pub proof fn lemma_under_trans(a: Comps, b: Comps, c: Comps)
    requires under(a, b), under(b, c)
    ensures under(a, c)
{
    assert(c.take(a.len() as int) =~= c.take(b.len() as int).take(a.len() as int));
}
pub proof fn theorem_walk_once(o: Entries, f: Option<FilterFn>, e: VfsEntry, st: Seq<Comps>, depth: int)
    requires !o.follow, tree_lister(o)
    ensures
        forall|i: int| 0 <= i < walk(o, f, e, st, depth).len() && (#[trigger] walk(o, f, e, st, depth)[i]) is Ok ==> under(e.spath(), opath(walk(o, f, e, st, depth)[i])),
        distinct_ok(walk(o, f, e, st, depth)),
    decreases o.max_depth - depth, 0int
{
    let w = walk(o, f, e, st, depth);
    let p = e.spath();
    assert(p.take(p.len() as int) =~= p);
    if descends(o, e) && e.slink() && st.contains(p) {
    } else if descends(o, e) && 0 <= depth < o.max_depth {
        if pre_err(o, e) is Some {
        } else {
            match o.iter_from.list(p, o.follow) {
                Err(x) => {},
                Ok(items) => {
                    let its = arr(o, items);
                    let inner = walk_list(o, f, its, st.push(p), depth + 1);
                    theorem_walk_list_once(o, f, its, p, st.push(p), depth + 1);
                    let m = me(o, f, e, depth);
                    // everything in `inner` lies strictly below p
                    assert forall|i: int| 0 <= i < inner.len() && (#[trigger] inner[i]) is Ok implies under(p, opath(inner[i])) && opath(inner[i]) != p by {
                        let k = choose|k: int| 0 <= k < its.len() && under(opath(its[k]), opath(inner[i]));
                        assert(under(p, opath(its[k])));
                        lemma_under_trans(p, opath(its[k]), opath(inner[i]));
                    }
                    if o.contents_first {
                        assert(w == inner + m);
                        assert forall|i: int| 0 <= i < w.len() && (#[trigger] w[i]) is Ok implies under(p, opath(w[i])) by {
                            if i < inner.len() { assert(w[i] == inner[i]); } else { assert(w[i] == m[i - inner.len()]); }
                        }
                        assert forall|i: int, j: int| 0 <= i < j < w.len() && (#[trigger] w[i]) is Ok && (#[trigger] w[j]) is Ok implies opath(w[i]) != opath(w[j]) by {
                            assert(w[i] == inner[i]);
                            if j < inner.len() { assert(w[j] == inner[j]); } else { assert(w[j] == m[j - inner.len()]); }
                        }
                    } else {
                        assert(w == m + inner);
                        assert forall|i: int| 0 <= i < w.len() && (#[trigger] w[i]) is Ok implies under(p, opath(w[i])) by {
                            if i < m.len() { assert(w[i] == m[i]); } else { assert(w[i] == inner[i - m.len()]); }
                        }
                        assert forall|i: int, j: int| 0 <= i < j < w.len() && (#[trigger] w[i]) is Ok && (#[trigger] w[j]) is Ok implies opath(w[i]) != opath(w[j]) by {
                            assert(w[j] == inner[j - m.len()]);
                            if i < m.len() { assert(w[i] == m[i]); } else { assert(w[i] == inner[i - m.len()]); }
                        }
                    }
                },
            }
        }
    } else {
    }
}
pub proof fn theorem_walk_list_once(o: Entries, f: Option<FilterFn>, items: Seq<Out>, p: Comps, st: Seq<Comps>, depth: int)
    requires !o.follow, tree_lister(o), sib(items, p)
    ensures
        forall|i: int| 0 <= i < walk_list(o, f, items, st, depth).len() && (#[trigger] walk_list(o, f, items, st, depth)[i]) is Ok
            ==> exists|k: int| 0 <= k < items.len() && under(opath(items[k]), opath(walk_list(o, f, items, st, depth)[i])),
        distinct_ok(walk_list(o, f, items, st, depth)),
    decreases o.max_depth - depth, 1 + items.len()
{
    let wl = walk_list(o, f, items, st, depth);
    if items.len() == 0 || depth > o.max_depth || depth < 0 {
    } else {
        let e0 = items[0]->Ok_0;
        let head = walk(o, f, e0, st, depth);
        let rest_items = items.skip(1);
        let rest = walk_list(o, f, rest_items, st, depth);
        assert(wl == head + rest);
        theorem_walk_once(o, f, e0, st, depth);
        assert(sib(rest_items, p)) by {
            assert forall|k: int| 0 <= k < rest_items.len() implies (#[trigger] rest_items[k]) is Ok && opath(rest_items[k]).len() == p.len() + 1 && opath(rest_items[k]).take(p.len() as int) == p by { assert(rest_items[k] == items[k + 1]); }
            assert forall|k: int, l: int| 0 <= k < l < rest_items.len() implies opath(#[trigger] rest_items[k]) != opath(#[trigger] rest_items[l]) by { assert(rest_items[k] == items[k + 1]); assert(rest_items[l] == items[l + 1]); }
        }
        theorem_walk_list_once(o, f, rest_items, p, st, depth);
        assert forall|i: int| 0 <= i < wl.len() && (#[trigger] wl[i]) is Ok implies exists|k: int| 0 <= k < items.len() && under(opath(items[k]), opath(wl[i])) by {
            if i < head.len() { assert(wl[i] == head[i]); assert(under(opath(items[0]), opath(wl[i]))); }
            else {
                assert(wl[i] == rest[i - head.len()]);
                let k = choose|k: int| 0 <= k < rest_items.len() && under(opath(rest_items[k]), opath(rest[i - head.len()]));
                assert(rest_items[k] == items[k + 1]);
                assert(under(opath(items[k + 1]), opath(wl[i])));
            }
        }
        assert forall|i: int, j: int| 0 <= i < j < wl.len() && (#[trigger] wl[i]) is Ok && (#[trigger] wl[j]) is Ok implies opath(wl[i]) != opath(wl[j]) by {
            if j < head.len() { assert(wl[i] == head[i] && wl[j] == head[j]); }
            else if i >= head.len() { assert(wl[i] == rest[i - head.len()] && wl[j] == rest[j - head.len()]); }
            else {
                // one below the first sibling, the other below a later sibling: they differ in the component right after p
                assert(wl[i] == head[i] && wl[j] == rest[j - head.len()]);
                let k = choose|k: int| 0 <= k < rest_items.len() && under(opath(rest_items[k]), opath(rest[j - head.len()]));
                assert(rest_items[k] == items[k + 1]);
                let a = opath(items[0]); let b = opath(items[k + 1]);
                let x = opath(wl[i]); let y = opath(wl[j]);
                if x == y {
                    assert(x.take(a.len() as int) == a && x.take(b.len() as int) == b);
                    assert(a.len() == b.len());
                    assert(a == b);
                }
            }
        }
    }
}

// ---- "none that a filter rejects"
pub open spec fn accepted(f: Option<FilterFn>, w: Seq<Out>) -> bool { forall|i: int| 0 <= i < w.len() && (#[trigger] w[i]) is Ok ==> (f is None || f->Some_0.accepts(w[i]->Ok_0)) }
pub proof fn theorem_walk_filter(o: Entries, f: Option<FilterFn>, e: VfsEntry, st: Seq<Comps>, depth: int)
    ensures accepted(f, walk(o, f, e, st, depth))
    decreases o.max_depth - depth, 0int
{
    let w = walk(o, f, e, st, depth);
    let p = e.spath();
    if descends(o, e) && e.slink() && st.contains(p) {
    } else if descends(o, e) && 0 <= depth < o.max_depth {
        if pre_err(o, e) is Some {
        } else {
            match o.iter_from.list(p, o.follow) {
                Err(x) => {},
                Ok(items) => {
                    let inner = walk_list(o, f, arr(o, items), st.push(p), depth + 1);
                    theorem_walk_list_filter(o, f, arr(o, items), st.push(p), depth + 1);
                    let m = me(o, f, e, depth);
                    assert forall|i: int| 0 <= i < w.len() && (#[trigger] w[i]) is Ok implies (f is None || f->Some_0.accepts(w[i]->Ok_0)) by {
                        if o.contents_first { if i < inner.len() { assert(w[i] == inner[i]); } else { assert(w[i] == m[i - inner.len()]); } }
                        else { if i < m.len() { assert(w[i] == m[i]); } else { assert(w[i] == inner[i - m.len()]); } }
                    }
                },
            }
        }
    } else {
    }
}
pub proof fn theorem_walk_list_filter(o: Entries, f: Option<FilterFn>, items: Seq<Out>, st: Seq<Comps>, depth: int)
    ensures accepted(f, walk_list(o, f, items, st, depth))
    decreases o.max_depth - depth, 1 + items.len()
{
    let wl = walk_list(o, f, items, st, depth);
    if items.len() == 0 || depth > o.max_depth || depth < 0 {
    } else {
        let head = match items[0] { Ok(e) => walk(o, f, e, st, depth), Err(x) => seq![Err::<VfsEntry, RvError>(x)] };
        let rest = walk_list(o, f, items.skip(1), st, depth);
        if items[0] is Ok { theorem_walk_filter(o, f, items[0]->Ok_0, st, depth); }
        theorem_walk_list_filter(o, f, items.skip(1), st, depth);
        assert forall|i: int| 0 <= i < wl.len() && (#[trigger] wl[i]) is Ok implies (f is None || f->Some_0.accepts(wl[i]->Ok_0)) by {
            if i < head.len() { assert(wl[i] == head[i]); } else { assert(wl[i] == rest[i - head.len()]); }
        }
    }
}
//@ obligation lemma_under_trans props=C08
//@ obligation theorem_walk_once props=C08
//@ obligation theorem_walk_list_once props=C08
//@ obligation theorem_walk_filter props=C08
//@ obligation theorem_walk_list_filter props=C08

impl EntriesIter {
//@ item process file=src/sys/fs/entries.rs block="impl EntriesIter" fn=process props=C08,C12,C11,C09,C01
//@ sig fn process(&mut self, entry: VfsEntry) -> Option<RvResult<VfsEntry>>
// R8: `==` on paths is PathBuf::eq; R13: the closure of `any` gets its contract, boxed callbacks are called through their opaque types
//@ rw R13 1 re⟦self\.iters\.iter\(\)\.any\(\|x\| ([^{}]+?)\) \{⟧ => ⟦iter_any(&self.iters, |x: &EntryIter| -> (b: bool) ensures b == (x.path_c() == entry.spath()) { \1 }, Ghost(entry.spath())) {⟧
//@ rw R8 * ⟦x.path() == entry.path()⟧ => ⟦x.path().eq(entry.path())⟧
//@ rw R13 1 ⟦(pre_op)(&entry)⟧ => ⟦pre_op.call(&entry)⟧
//@ rw R13 1 ⟦(self.opts.iter_from)(entry.path(), self.opts.follow)⟧ => ⟦self.opts.iter_from.call(entry.path(), self.opts.follow)⟧
//@ rw R13 1 ⟦(filter)(&entry)⟧ => ⟦filter.call(&entry)⟧
//@ rw R10 + re⟦trying!\(((?:[^()]|\((?:[^()]|\([^()]*\))*\))*)\)⟧ => ⟦(match \1 { Ok(v) => v, Err(err) => return Some(Err(err.rv())) })⟧
//@ ins start
        hide(walk); hide(walk_list); hide(cnt); hide(cnt_list);
        let ghost fr0 = self.iters@;
        let ghost df0 = self.deferred@;
        let ghost o = self.opts;
        let ghost f = self.filter;
        proof { lemma_walk(o, f, entry, paths(fr0), fr0.len() as int); }
//@ endins
//@ ins afterstmt re⟦if self\.opts\.sort\.is_some\(\) \|\| \(self\.open_descriptors \+ 1 > self\.opts\.max_descriptors\) \{⟧
                proof {
                    lemma_rem_push(o, f, fr0, df0, self.iters@, if keeps(o, f, entry, depth as int) { Some(entry) } else { None });
                }
//@ endins
//@ ins before re⟦let mut keep = ⟧
        let ghost w = walk(o, f, entry, paths(fr0), depth as int);
        let ghost r0 = rem(o, f, fr0, df0);
        let ghost mee = me(o, f, entry, depth as int);
        let ghost pushed = self.iters@.len() > depth;
        let ghost inner = if pushed { walk_list(o, f, self.iters@.last().rest(), paths(fr0).push(entry.spath()), depth as int + 1) } else { Seq::<Out>::empty() };
        proof {
            assert(self.opts == o && self.filter == f && self.deferred@ == df0);
            if pushed {
                assert(w == (if o.contents_first { inner + mee } else { mee + inner }));
                assert(!o.contents_first ==> rem(o, f, self.iters@, df0) == inner + r0);
            } else {
                assert(self.iters@ == fr0);
                assert(w == mee);
            }
        }
//@ endins
//@ ins before re⟦if self\.opts\.contents_first && [^{;]*\{⟧
        proof {
            assert(keep == keeps(o, f, entry, depth as int));
            if o.contents_first && pushed {
                // the directory is deferred: its slot is what `me` denotes
                assert(tail(o, df0.push(if keep { Some(entry) } else { None }), depth as int) == mee);
            } else {
                lemma_finish(keep, pushed, entry, mee, inner, w, r0, rem(o, f, self.iters@, self.deferred@));
            }
        }
//@ endins
    fn process(&mut self, entry: VfsEntry) -> (r: Option<RvResult<VfsEntry>>)
        requires inv(*old(self)),
        ensures
            inv(*final(self)), final(self).opts == old(self).opts, final(self).filter == old(self).filter, final(self).started == old(self).started,
            ({
                let w = walk(old(self).opts, old(self).filter, entry, paths(old(self).iters@), old(self).iters@.len() as int);
                let r0 = rem(old(self).opts, old(self).filter, old(self).iters@, old(self).deferred@);
                let r1 = rem(old(self).opts, old(self).filter, final(self).iters@, final(self).deferred@);
                match r {
                    Some(x) => w.len() > 0 && x == w[0] && r1 == w.skip(1) + r0,
                    None => r1 == w + r0,
                }
            }),                                                                                                       //@ clause process.yields_head_of_the_denotation_and_keeps_the_rest [C08,C11,C09,C01]
            remcnt(old(self).opts, final(self).iters@) + 1 == remcnt(old(self).opts, old(self).iters@) + cnt(old(self).opts, entry, paths(old(self).iters@), old(self).iters@.len() as int),   //@ clause process.step_count [C08]
//@ body
//@ item next file=src/sys/fs/entries.rs block="impl Iterator for EntriesIter" fn=next props=C08,C12,C11,C09,C01
//@ sig fn next(&mut self) -> Option<RvResult<VfsEntry>>
// R1: match arms that are bare expressions get braces so that proof steps can stand in front of them (markers /*@..*/ are the insert anchors)
//@ rw R1 1 re⟦Some\(Ok\(entry\)\) => match self\.process\(entry\) \{(.*?)\n(\s*)\},⟧ => ⟦Some(Ok(entry)) => { /*@pre*/ match self.process(entry) {\1\n\2}},⟧
//@ rw R1 1 re⟦Some\(result\) => return Some\(result\),⟧ => ⟦Some(result) => { /*@some*/ return Some(result) },⟧
//@ rw R1 1 re⟦None => continue,⟧ => ⟦None => { /*@none*/ continue },⟧
//@ rw R1 * re⟦Some\(Err\(err\)\) => return Some\(Err\(err\)\),⟧ => ⟦Some(Err(err)) => { /*@err*/ return Some(Err(err)) },⟧
//@ ins start
        hide(walk); hide(walk_list); hide(cnt); hide(cnt_list);
        let ghost o = self.opts;
        let ghost f = self.filter;
        let ghost big = full_rem(*self);
        let ghost fr_i = self.iters@;
        let ghost df_i = self.deferred@;
        proof { lemma_rem_unfold(o, f, self.iters@, self.deferred@); }
//@ endins
//@ ins before re⟦if result\.is_some\(\) \{⟧
            proof {
                assert(paths(fr_i) =~= Seq::<Comps>::empty());
                let w = walk(o, f, o.root.sfollowed(o.follow), Seq::<Comps>::empty(), 0);
                assert(big == w);
                assert(w == walk(o, f, o.root.sfollowed(o.follow), paths(fr_i), fr_i.len() as int));
                assert(rem(o, f, fr_i, df_i) == Seq::<Out>::empty());
                if result is Some { assert(w.skip(1) + Seq::<Out>::empty() =~= w.skip(1)); } else { assert(w + Seq::<Out>::empty() =~= w); }
            }
//@ endins
//@ ins before re⟦while !self\.iters\.is_empty\(\) \{⟧
        proof {
            lemma_rem_unfold(o, f, self.iters@, self.deferred@);
            assert(tail(o, self.deferred@, self.iters@.len() as int) =~= Seq::<Out>::empty());
            assert(rem_pending(*self) =~= rem(o, f, self.iters@, self.deferred@));
        }
//@ endins
//@ loop 1
            invariant
                inv_pending(*self), self.started, self.opts == o, self.filter == f,
                o == old(self).opts, f == old(self).filter, big == full_rem(*old(self)),
                rem_pending(*self) == big,
            decreases remcnt(o, self.iters@)
//@ endloop
//@ ins after re⟦while !self\.iters\.is_empty\(\) \{⟧
            let ghost fr = self.iters@;
            let ghost df = self.deferred@;
            let ghost n = fr.len() as int;
//@ endins
//@ ins after#1 re⟦if let Some\(Some\(entry\)\) = self\.deferred\.pop\(\) \{⟧
                    proof {
                        lemma_rem_df_frame(o, f, fr, df, self.deferred@);
                        lemma_head(big, tail(o, df, n), rem(o, f, fr, df));
                    }
//@ endins
//@ ins before re⟦match self\.iters\.last_mut\(\)\.unwrap\(\)\.next\(\) \{⟧
            let ghost df1 = self.deferred@;
            proof {
                if df1 != df {
                    lemma_rem_df_frame(o, f, fr, df, df1);
                    lemma_head(big, tail(o, df, n), rem(o, f, fr, df));
                } else {
                    assert(tail(o, df, n) =~= Seq::<Out>::empty());
                    lemma_head(big, tail(o, df, n), rem(o, f, fr, df));
                }
                assert(big == rem(o, f, fr, df1));
                lemma_rem_unfold(o, f, fr, df1);
                lemma_walk_list(o, f, fr.last().rest(), paths(fr), n);
            }
//@ endins
//@ ins after ⟦/*@pre*/⟧
                  let ghost fr1 = self.iters@;
                  proof {
                      assert(fr1 =~= fr.update(n - 1, fr1.last()));
                      lemma_rem_top(o, f, fr, df1, fr1.last());
                      lemma_rem_unfold(o, f, fr.drop_last(), df1);
                  }
//@ endins
//@ ins after ⟦/*@some*/⟧
                      proof {
                        lemma_assoc(big, walk(o, f, entry, paths(fr), n), walk_list(o, f, fr.last().rest().skip(1), paths(fr), n), tail(o, df1, n - 1), rem(o, f, fr.drop_last(), df1), rem(o, f, fr1, df1));
                        assert(tail(o, self.deferred@, self.iters@.len() as int) =~= Seq::<Out>::empty());
                      }
//@ endins
//@ ins after ⟦/*@none*/⟧
                      proof {
                        lemma_assoc(big, walk(o, f, entry, paths(fr), n), walk_list(o, f, fr.last().rest().skip(1), paths(fr), n), tail(o, df1, n - 1), rem(o, f, fr.drop_last(), df1), rem(o, f, fr1, df1));
                        assert(tail(o, self.deferred@, self.iters@.len() as int) =~= Seq::<Out>::empty());
                        assert(rem_pending(*self) =~= rem(o, f, self.iters@, self.deferred@));
                      }
//@ endins
//@ ins? after ⟦/*@err*/⟧
                  proof {
                      let fr1 = self.iters@;
                      assert(fr1 =~= fr.update(n - 1, fr1.last()));
                      lemma_rem_top(o, f, fr, df1, fr1.last());
                      lemma_assoc(big, seq![Err::<VfsEntry, RvError>(err)], walk_list(o, f, fr.last().rest().skip(1), paths(fr), n), tail(o, df1, n - 1), rem(o, f, fr.drop_last(), df1), rem(o, f, fr1, df1));
                      assert(seq![Err::<VfsEntry, RvError>(err)].skip(1) + rem(o, f, fr1, df1) =~= rem(o, f, fr1, df1));
                  }
//@ endins
//@ ins before re⟦if let Some\(iter\) = self\.iters\.pop\(\) \{⟧
                    proof {
                        let fr1 = self.iters@;
                        assert(fr1 =~= fr.update(n - 1, fr1.last()));
                        lemma_rem_top(o, f, fr, df1, fr1.last());
                        lemma_rem_unfold(o, f, fr1, df1);
                        lemma_walk_list(o, f, fr1.last().rest(), paths(fr), n);
                        assert(fr1.drop_last() =~= fr.drop_last());
                    }
//@ endins
//@ ins afterstmt re⟦if let Some\(iter\) = self\.iters\.pop\(\) \{⟧
                    proof {
                        assert(self.iters@ =~= fr.drop_last());
                        assert(Seq::<Out>::empty() + tail(o, df1, n - 1) =~= tail(o, df1, n - 1));
                    }
//@ endins
//@ ins afterloop 1
        let ghost dfe = self.deferred@;
        proof {
            lemma_rem_unfold(o, f, self.iters@, dfe);
            assert(tail(o, dfe, 0) + Seq::<Out>::empty() =~= tail(o, dfe, 0));
            lemma_head(big, tail(o, dfe, 0), Seq::<Out>::empty());
        }
//@ endins
//@ ins after#2 re⟦if let Some\(Some\(entry\)\) = self\.deferred\.pop\(\) \{⟧
                proof { lemma_rem_unfold(o, f, self.iters@, self.deferred@); }
//@ endins
//@ ins before re⟦\n\s*None\s*\}\s*$⟧
        proof { lemma_rem_unfold(o, f, self.iters@, self.deferred@); }
//@ endins
    fn next(&mut self) -> (r: Option<RvResult<VfsEntry>>)
        requires old(self).started ==> inv(*old(self)), !old(self).started ==> fresh(*old(self)),
        ensures
            inv(*final(self)), final(self).started, final(self).opts == old(self).opts, final(self).filter == old(self).filter,
            match r {
                Some(x) => full_rem(*old(self)).len() > 0 && x == full_rem(*old(self))[0] && full_rem(*final(self)) == full_rem(*old(self)).skip(1),
                None => full_rem(*old(self)).len() == 0 && full_rem(*final(self)).len() == 0,
            },                                                                                                        //@ clause next.yields_the_denotation_in_order_then_none [C08,C11,C09,C01]
//@ body
}
impl Entries {
//@ item into_iter file=src/sys/fs/entries.rs block="impl IntoIterator for Entries" fn=into_iter props=C08,C12
//@ sig fn into_iter(self) -> EntriesIter
// R13: the two filter closures keep their bodies and get the contract the options ask for (files: the entry is a file, dirs: a directory)
//@ rw R13 1 re⟦if iter\.opts\.files \{\s*iter\.filter = Some\(Box::new\(\|x: &VfsEntry\| -> bool \{ ([^{}]*) \}\)\);⟧ => ⟦if iter.opts.files { iter.filter = Some(FilterFn::boxed(|x: &VfsEntry| -> (b: bool) ensures b == x.sfile() { \1 }));⟧
//@ rw R13 1 re⟦else if iter\.opts\.dirs \{\s*iter\.filter = Some\(Box::new\(\|x: &VfsEntry\| -> bool \{ ([^{}]*) \}\)\);⟧ => ⟦else if iter.opts.dirs { iter.filter = Some(FilterFn::boxed(|x: &VfsEntry| -> (b: bool) ensures b == x.sdir() { \1 }));⟧
    fn into_iter(self) -> (r: EntriesIter)
        ensures
            r.opts == self, !r.started, r.iters@.len() == 0, r.deferred@.len() == 0, r.open_descriptors == 0,
            self.max_descriptors < 0xFFFF ==> fresh(r),
            self.files ==> r.filter is Some && forall|e: VfsEntry| #[trigger] r.filter->Some_0.accepts(e) == e.sfile(),                   //@ clause into_iter.files_option_keeps_exactly_files [C08]
            !self.files && self.dirs ==> r.filter is Some && forall|e: VfsEntry| #[trigger] r.filter->Some_0.accepts(e) == e.sdir(),       //@ clause into_iter.dirs_option_keeps_exactly_directories [C08]
            !self.files && !self.dirs ==> r.filter is None,                                                                                //@ clause into_iter.no_kind_option_no_filter [C08]
//@ body
}
