//@ unit entries_ctor
//@ props C08 C12 C11 C09 C01 C03
// The two constructors of a traversal, Memfs::_entries and Stdfs::entries: the options every traversal starts from (nothing
// filtered, links not followed, the whole depth range, the descriptor cap of 50, no sorting, no callback, parents first) and the root
// entry.  The engine's contract (unit entries_engine) needs max_descriptors < u16::MAX; chown / chmod / copy / remove_all / the
// listing helpers (units memfs_ops, stdfs_os) assume exactly these defaults before they apply their own options.
//@ prelude base errors io iter path_abs memfs_state memfs_api
// ASSUMED[hashmap]: MemfsEntries (HashMap<PathBuf, MemfsEntry> behind an Arc) is a finite map keyed by the absolute clean path; HashSet iteration yields every element exactly once
// ASSUMED[read-dir]: fs::read_dir(p) answers with the listing the OS reports for p (uninterpreted os_dir_listing) or an io error
// ASSUMED[upcast]: MemfsEntry::upcast / StdfsEntry::upcast wrap the entry unchanged in the VfsEntry enum (unit entry_follow proves r == VfsEntry::Memfs(self))
//@ struct file=src/sys/fs/memfs/file.rs name=MemfsFile
//@ endstruct
//@ struct file=src/sys/fs/memfs/entry.rs name=MemfsEntry
//@ rw R4 * ⟦Option<HashSet<String>>⟧ => ⟦Option<NameSet>⟧
//@ endstruct

// an entry of either backend behind the VfsEntry enum (R9: opaque; `upcast` of the backends' entry types)
#[verifier::external_body]
pub struct VfsEntry { x: u8 }
impl VfsEntry {
    pub uninterp spec fn mem(&self) -> Option<EntryV>;        // the Memfs entry it wraps
    pub uninterp spec fn std_path(&self) -> Option<Comps>;    // the argument StdfsEntry::from was built from
}
impl MemfsEntry {
    #[verifier::external_body]
    pub fn upcast(self) -> (r: VfsEntry) ensures r.mem() == Some(self.ev()) { unimplemented!() }
}
#[verifier::external_body]
pub struct StdfsEntry { x: u8 }
impl StdfsEntry {
    pub uninterp spec fn arg(&self) -> Comps;
    // ASSUMED[stdfs-entry-from]: proved at request level in unit stdfs_os
    #[verifier::external_body]
    pub fn from<T: PathArg>(path: T) -> (r: RvResult<StdfsEntry>) ensures r is Ok ==> r->Ok_0.arg() == path.pc() { unimplemented!() }
    #[verifier::external_body]
    pub fn upcast(self) -> (r: VfsEntry) ensures r.std_path() == Some(self.arg()) { unimplemented!() }
}
// callbacks (R9, as in unit entries_engine)
#[verifier::external_body]
pub struct PreOp { x: u8 }
#[verifier::external_body]
pub struct SortFn { x: u8 }
#[verifier::external_body]
pub struct IterFrom { x: u8 }
impl IterFrom {
    pub uninterp spec fn is_stdfs(&self) -> bool;
    pub uninterp spec fn snapshot_of(&self) -> Option<St>;
    // R13: `Box::new(Stdfs::entry_iter)`
    #[verifier::external_body]
    pub fn stdfs() -> (r: IterFrom) ensures r.is_stdfs() { unimplemented!() }
}
// Memfs::_entry_iter: the lister over a snapshot of the branch (snapshot: unit memfs_clone)
#[verifier::external_body]
pub fn _entry_iter(guard: &MemfsGuard, path: &PathBuf) -> (r: RvResult<IterFrom>)
    ensures r is Ok ==> r->Ok_0.snapshot_of() == Some(guard.st()) && !r->Ok_0.is_stdfs()
{ unimplemented!() }
pub const DEFAULT_MAX_DESCRIPTORS: u16 = 50;

//@ struct file=src/sys/fs/entries.rs name=Entries
//@ rw R9 1 re⟦Option<Box<dyn FnMut\(&VfsEntry\) -> RvResult<\(\)> \+ Send \+ Sync \+ 'static>>⟧ => ⟦Option<PreOp>⟧
//@ rw R9 1 re⟦Option<Box<dyn Fn\(&VfsEntry, &VfsEntry\) -> Ordering \+ Send \+ Sync \+ 'static>>⟧ => ⟦Option<SortFn>⟧
//@ rw R9 1 re⟦Box<dyn Fn\(&Path, bool\) -> RvResult<EntryIter> \+ Send \+ Sync \+ 'static>⟧ => ⟦IterFrom⟧
//@ endstruct

// the options every traversal starts from
pub open spec fn defaults(o: Entries) -> bool {
    &&& !o.dirs && !o.files && !o.follow
    &&& o.min_depth == 0 && o.max_depth == usize::MAX
    &&& o.max_descriptors == 50
    &&& !o.dirs_first && !o.files_first && !o.contents_first && !o.sort_by_name
    &&& o.pre_op is None && o.sort is None
}

//@ item memfs_entries file=src/sys/fs/memfs/vfs.rs block="impl Memfs" fn=_entries props=C08,C12,C11,C09,C01
//@ sig pub(crate) fn _entries<T: AsRef<Path>>(&self, guard: &MemfsGuard, path: T) -> RvResult<Entries>
//@ rw R11 1 ⟦self._abs(guard, path)?⟧ => ⟦_abs(guard, path)?⟧
//@ rw R11 1 ⟦self._entry_iter(guard, &path)?⟧ => ⟦_entry_iter(guard, &path)?⟧
//@ rw R5 * ⟦sys::DEFAULT_MAX_DESCRIPTORS⟧ => ⟦DEFAULT_MAX_DESCRIPTORS⟧
pub fn memfs_entries(guard: &MemfsGuard, path: &PathBuf) -> (r: RvResult<Entries>)
    requires guard.st().cwd_ok
    ensures
        r is Ok ==> defaults(r->Ok_0),                                                                              //@ clause entries.memfs_starts_from_the_default_options [C08,C11,C09,C01]
        r is Ok ==> ({
            let a = spec_abs(guard.st().cwd, path.comps());
            &&& a is Some && guard.st().entries.contains_key(a->Some_0)
            &&& r->Ok_0.root.mem() == Some(guard.st().entries[a->Some_0])                                           //@ clause entries.memfs_root_is_the_entry_at_abs_path [C08,C05]
            &&& r->Ok_0.iter_from.snapshot_of() == Some(guard.st())
        }),
        (spec_abs(guard.st().cwd, path.comps()) is Some && !guard.st().entries.contains_key(spec_abs(guard.st().cwd, path.comps())->Some_0))
            ==> r is Err && r->Err_0.kind == ErrKind::DoesNotExist,                                                 //@ clause entries.memfs_missing_root_is_does_not_exist [C01]
//@ body

//@ item stdfs_entries file=src/sys/fs/stdfs/mod.rs block="impl Stdfs" fn=entries props=C08,C12,C11,C09
//@ sig pub fn entries<T: AsRef<Path>>(path: T) -> RvResult<Entries>
//@ rw R4 * ⟦Default::default()⟧ => ⟦false⟧
//@ rw R13 1 ⟦Box::new(Stdfs::entry_iter)⟧ => ⟦IterFrom::stdfs()⟧
//@ rw R5 * ⟦sys::DEFAULT_MAX_DESCRIPTORS⟧ => ⟦DEFAULT_MAX_DESCRIPTORS⟧
pub fn stdfs_entries(path: &PathBuf) -> (r: RvResult<Entries>)
    ensures
        r is Ok ==> defaults(r->Ok_0),                                                                              //@ clause entries.stdfs_starts_from_the_default_options [C08,C11,C09]
        r is Ok ==> r->Ok_0.root.std_path() == Some(path.comps()) && r->Ok_0.iter_from.is_stdfs(),                  //@ clause entries.stdfs_root_is_the_entry_of_the_argument [C08]
//@ body

impl NameStr {
    // String::starts_with on a child name (unspecified: names are opaque here)
    #[verifier::external_body] pub fn starts_with<P>(&self, p: P) -> (b: bool) { unimplemented!() }
}
// ---- the Memfs lister (src/sys/fs/memfs/entry.rs): the children of one directory of the snapshot, each exactly once
// HashMap<PathBuf, MemfsEntry> behind an Arc as a finite map keyed by the absolute clean path (ASSUMED[hashmap])
#[verifier::external_body] pub struct MemfsEntries { x: u8 }
impl MemfsEntries {
    pub uninterp spec fn view(&self) -> Map<PathV, EntryV>;
    #[verifier::external_body]
    pub fn get(&self, k: &PathBuf) -> (r: Option<&MemfsEntry>)
        requires k.abs_clean()
        ensures r is Some == self@.contains_key(k@), r is Some ==> r->Some_0.ev() == self@[k@]
    { unimplemented!() }
}
impl DeIter<PathBuf> {
    // R9: `Box::new(items.into_iter())`
    #[verifier::external_body]
    pub fn from_paths(v: Vec<PathBuf>) -> (r: DeIter<PathBuf>) ensures r.rest() == v@ { unimplemented!() }
}
//@ struct file=src/sys/fs/memfs/entry.rs name=MemfsEntryIter
//@ rw R9 1 ⟦Box<dyn Iterator<Item = PathBuf>>⟧ => ⟦DeIter<PathBuf>⟧
//@ rw R9 1 ⟦Arc<MemfsEntries>⟧ => ⟦MemfsEntries⟧
//@ endstruct
// the pending paths are absolute clean children of `dir`, one per child name
pub open spec fn lists_children(ps: Seq<PathBuf>, dir: PathV, kids: Set<Name>) -> bool {
    &&& forall|i: int| 0 <= i < ps.len() ==> (#[trigger] ps[i]).abs_clean() && ps[i]@.len() == dir.len() + 1 && ps[i]@.drop_last() == dir && kids.contains(ps[i]@.last())
    &&& forall|i: int, j: int| 0 <= i < j < ps.len() ==> (#[trigger] ps[i])@ != (#[trigger] ps[j])@
    &&& forall|n: Name| kids.contains(n) ==> exists|i: int| 0 <= i < ps.len() && (#[trigger] ps[i])@ == dir.push(n)
}
impl MemfsEntryIter {
//@ item lister_new file=src/sys/fs/memfs/entry.rs block="impl MemfsEntryIter" fn=new props=C08,C12,C01,C03
//@ sig pub(crate) fn new<T: AsRef<Path>>(path: T, entries: Arc<MemfsEntries>) -> RvResult<Self>
//@ rw R1 * ⟦let path = path.as_ref();⟧ => ⟦⟧
// R1: the element type of `items` is written out (the invariant names it before the first push fixes it)
//@ rw R1 * ⟦let mut items = vec![];⟧ => ⟦let mut items: Vec<PathBuf> = vec![];⟧
//@ rw R1 * ⟦items.push(path.mash(name));⟧ => ⟦items.push(path.mash_name(&name));⟧
//@ rw R9 1 ⟦Box::new(items.into_iter())⟧ => ⟦DeIter::from_paths(items)⟧
//@ rw R3 1 for
//@ ins after re⟦let mut __it1 = [^;]*;⟧
                let ghost names = __it1.rest();
//@ endins
//@ loop 1
                    invariant
                        path.abs_clean(),
                        __it1.rest().len() <= names.len(), __it1.rest() == names.skip(names.len() - __it1.rest().len()),
                        items@.len() == names.len() - __it1.rest().len(),
                        forall|i: int| 0 <= i < items@.len() ==> (#[trigger] items@[i]).abs_clean() && items@[i]@ == path@.push(names[i]@),
                    ensures __it1.rest().len() == 0
                    decreases __it1.rest().len()
//@ endloop
//@ ins afterloop 1
                proof {
                    let kids = files@;
                    assert(entry.ev().kids == Some(kids));
                    assert forall|i: int| 0 <= i < items@.len() implies (#[trigger] items@[i]).abs_clean() && items@[i]@.len() == path@.len() + 1 && items@[i]@.drop_last() == path@ && kids.contains(items@[i]@.last()) by {
                        assert(path@.push(names[i]@).drop_last() =~= path@);
                        assert(path@.push(names[i]@).last() == names[i]@);
                    }
                    assert forall|i: int, j: int| 0 <= i < j < items@.len() implies (#[trigger] items@[i])@ != (#[trigger] items@[j])@ by {
                        assert(path@.push(names[i]@).last() == names[i]@);
                        assert(path@.push(names[j]@).last() == names[j]@);
                    }
                    assert forall|n: Name| kids.contains(n) implies exists|i: int| 0 <= i < items@.len() && (#[trigger] items@[i])@ == path@.push(n) by {
                        let i = choose|i: int| 0 <= i < names.len() && (#[trigger] names[i])@ == n;
                        assert(items@[i]@ == path@.push(n));
                    }
                    assert(lists_children(items@, path@, kids));
                }
//@ endins
//@ ins before re⟦Ok\(MemfsEntryIter \{⟧
            proof {
                if entry.ev().kids is None { assert(lists_children(items@, path@, Set::<Name>::empty())); }
            }
//@ endins
    pub fn new(path: &PathBuf, entries: MemfsEntries) -> (r: RvResult<MemfsEntryIter>)
        requires path.abs_clean()
        ensures
            !entries@.contains_key(path@) ==> r is Err && r->Err_0.kind == ErrKind::DoesNotExist,                  //@ clause lister.missing_directory_is_does_not_exist [C01]
            entries@.contains_key(path@) ==> r is Ok && r->Ok_0.entries@ == entries@
                && lists_children(r->Ok_0.iter.rest(), path@, match entries@[path@].kids { Some(k) => k, None => Set::<Name>::empty() }),     //@ clause lister.lists_every_child_of_the_directory_exactly_once [C08,C03]
//@ body

//@ item lister_next file=src/sys/fs/memfs/entry.rs block="impl Iterator for MemfsEntryIter" fn=next props=C08,C12
//@ sig fn next(&mut self) -> Option<RvResult<VfsEntry>>
    pub fn next(&mut self) -> (r: Option<RvResult<VfsEntry>>)
        requires forall|i: int| 0 <= i < old(self).iter.rest().len() ==> (#[trigger] old(self).iter.rest()[i]).abs_clean()
        ensures
            final(self).entries@ == old(self).entries@,
            old(self).iter.rest().len() == 0 ==> r is None,
            old(self).iter.rest().len() > 0 ==> final(self).iter.rest() == old(self).iter.rest().skip(1) && ({
                let p = old(self).iter.rest()[0]@;
                // the entry stored in the snapshot under the next pending path; a path missing from the snapshot ends the listing
                &&& old(self).entries@.contains_key(p) ==> r is Some && r->Some_0 is Ok && r->Some_0->Ok_0.mem() == Some(old(self).entries@[p])
                &&& !old(self).entries@.contains_key(p) ==> r is None
            }),                                                                                                     //@ clause lister.next_yields_the_snapshot_entry_of_the_next_child [C08]
//@ body
}

// ---- the Stdfs lister (request level): Stdfs::entry_iter opens the directory with read_dir, StdfsEntryIter::next builds an entry
// from the path of the next directory entry the OS reports (what the OS reports is the uninterpreted os_dir_listing)
pub struct DirEnt { pub p: PathBuf }
impl DirEnt {
    #[verifier::external_body] pub fn path(&self) -> (r: PathBuf) ensures r.comps() == self.p.comps() { unimplemented!() }
}
#[verifier::external_body] pub struct ReadDir { x: u8 }
impl ReadDir {
    pub uninterp spec fn of(&self) -> Comps;                       // the directory it was opened on
    pub uninterp spec fn rest(&self) -> Seq<RvResult<DirEnt>>;     // what the OS will still report (an io error is carried as RvError kind Io)
    #[verifier::external_body]
    pub fn next(&mut self) -> (r: Option<RvResult<DirEnt>>)
        ensures final(self).of() == old(self).of(),
                old(self).rest().len() == 0 ==> r is None && final(self).rest() == old(self).rest(),
                old(self).rest().len() > 0 ==> r == Some(old(self).rest()[0]) && final(self).rest() == old(self).rest().skip(1)
    { unimplemented!() }
}
pub uninterp spec fn os_dir_listing(p: Comps) -> RvResult<Seq<RvResult<DirEnt>>>;
// R8: `fs::read_dir(path)?`
#[verifier::external_body]
pub fn os_read_dir(p: &PathBuf) -> (r: RvResult<ReadDir>)
    ensures match r { Ok(d) => os_dir_listing(p.comps()) is Ok && d.rest() == os_dir_listing(p.comps())->Ok_0 && d.of() == p.comps(), Err(e) => os_dir_listing(p.comps()) is Err }
{ unimplemented!() }
//@ struct file=src/sys/fs/stdfs/entry.rs name=StdfsEntryIter
//@ rw R9 1 ⟦fs::ReadDir⟧ => ⟦ReadDir⟧
//@ endstruct
// the per-directory iterator record built by the lister (R9: the boxed inner iterator is the Stdfs one here)
pub struct EntryIter { pub path: PathBuf, pub cached: bool, pub following: bool, pub iter: StdfsEntryIter }
impl RvError { pub fn rv(self) -> (r: RvError) ensures r == self { self } }

//@ item stdfs_entry_iter file=src/sys/fs/stdfs/mod.rs block="impl Stdfs" fn=entry_iter props=C08,C12
//@ sig pub(crate) fn entry_iter(path: &Path, follow: bool) -> RvResult<EntryIter>
//@ rw R9 1 re⟦Box::new\(StdfsEntryIter \{(.*?)\}\)⟧ => ⟦StdfsEntryIter {\1}⟧
//@ rw R8 1 ⟦fs::read_dir(path)?⟧ => ⟦os_read_dir(path)?⟧
pub fn stdfs_entry_iter(path: &PathBuf, follow: bool) -> (r: RvResult<EntryIter>)
    ensures
        (r is Ok) == (os_dir_listing(path.comps()) is Ok),
        r is Ok ==> r->Ok_0.path.comps() == path.comps() && !r->Ok_0.cached && r->Ok_0.following == follow
            && r->Ok_0.iter.dir.of() == path.comps() && r->Ok_0.iter.dir.rest() == os_dir_listing(path.comps())->Ok_0,      //@ clause lister.stdfs_opens_the_given_directory_uncached_with_the_follow_flag [C08]
//@ body

impl StdfsEntryIter {
//@ item stdfs_lister_next file=src/sys/fs/stdfs/entry.rs block="impl Iterator for StdfsEntryIter" fn=next props=C08,C12
//@ sig fn next(&mut self) -> Option<RvResult<VfsEntry>>
//@ rw R10 + re⟦trying!\(((?:[^()]|\((?:[^()]|\([^()]*\))*\))*)\)⟧ => ⟦(match \1 { Ok(v) => v, Err(err) => return Some(Err(err.rv())) })⟧
    pub fn next(&mut self) -> (r: Option<RvResult<VfsEntry>>)
        ensures
            old(self).dir.rest().len() == 0 ==> r is None,
            old(self).dir.rest().len() > 0 ==> r is Some && final(self).dir.rest() == old(self).dir.rest().skip(1) && ({
                let d = old(self).dir.rest()[0];
                // a read error is yielded as an error; otherwise the entry is built from the reported path (or the error of building it)
                &&& d is Err ==> r->Some_0 is Err
                &&& (d is Ok && r->Some_0 is Ok) ==> r->Some_0->Ok_0.std_path() == Some(d->Ok_0.p.comps())
            }),                                                                                                       //@ clause lister.stdfs_next_builds_the_entry_of_the_next_reported_path [C08]
//@ body
}
