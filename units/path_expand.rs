//@ unit path_expand
//@ props C17 C05 C12
// path::expand: `~` expansion (string level) and `$NAME` / `${NAME}` expansion inside normal components, for every environment.
//@ prelude base errors iter strs path_comps env

// ---- shims (assumed std / rivia contracts) ------------------------------------------------------------------------------
pub open spec fn count_c(s: Seq<char>, c: char) -> nat decreases s.len() {
    if s.len() == 0 { 0 } else { count_c(s.drop_last(), c) + (if s.last() == c { 1nat } else { 0nat }) }
}
// R4: `s.matches(c).count()` / `s.matches(c).some()`.  ASSUMED[str-matches]: number of occurrences of a char pattern
#[verifier::external_body]
pub fn count_char(s: &Str, c: char) -> (n: usize) ensures n == count_c(s@, c) { unimplemented!() }
#[verifier::external_body]
pub fn has_char(s: &Str, c: char) -> (b: bool) ensures b == (count_c(s@, c) > 0) { unimplemented!() }
// ASSUMED[ascii-width]: '~', '/', '$' are one byte in UTF-8
#[verifier::external_body]
pub proof fn ax_ascii() ensures char_len('~') == 1, char_len('/') == 1 { }
// rivia has_prefix (unit path_helpers) with a literal prefix
#[verifier::external_body]
pub fn has_prefix_lit(p: &PathBuf, lit: &'static str) -> (b: bool) ensures b == (p.utf8_ok() && is_prefix(lit@, p.pstr())) { unimplemented!() }
// rivia home_dir (unit user_xdg) and mash (unit path_helpers) through their contracts
pub open spec fn strip_root(p: Comps) -> Comps { if is_abs(p) { p.skip(1) } else { p } }
pub open spec fn spec_mash(d: Comps, p: Comps) -> Comps { collect_spec(Seq::empty(), collect_spec(d, strip_root(p))) }
#[verifier::external_body]
pub fn home_dir() -> (r: RvResult<PathBuf>)
    ensures r is Ok == env("HOME"@) is Some, r is Ok ==> r->Ok_0.pstr() == env("HOME"@)->Some_0 && r->Ok_0.comps() == parse(env("HOME"@)->Some_0) && r->Ok_0.utf8_ok(),
            r is Err ==> r->Err_0.kind == ErrKind::Var
{ unimplemented!() }
#[verifier::external_body]
pub fn mash_s(d: PathBuf, s: &Str) -> (r: PathBuf) ensures r.comps() == spec_mash(d.comps(), parse(s@)), r.utf8_ok() == d.utf8_ok() { unimplemented!() }
impl PathBuf {
    // ToStringExt for Path (unit path_helpers)
    #[verifier::external_body]
    pub fn to_string(&self) -> (r: RvResult<Str>) ensures r is Ok == self.utf8_ok(), r is Ok ==> r->Ok_0@ == self.pstr(), r is Err ==> r->Err_0.kind == ErrKind::FailedToString { unimplemented!() }
    // PathBuf::push(String): joins the (possibly multi-component) string onto the path
    #[verifier::external_body]
    pub fn push_s(&mut self, s: Str) ensures final(self).comps() == join_spec(old(self).comps(), parse(s@)) { unimplemented!() }
}
impl Name {
    // ToStringExt for OsStr
    #[verifier::external_body]
    pub fn to_string(&self) -> (r: RvResult<Str>) ensures r is Ok == name_utf8(*self), r is Ok ==> r->Ok_0@ == name_chars(*self) { unimplemented!() }
}
// first position of `a` or `b` in s (s.len() if none)
pub open spec fn first_of(s: Seq<char>, a: char, b: char) -> int decreases s.len() {
    if s.len() == 0 { 0 } else if s[0] == a || s[0] == b { 0 } else { 1 + first_of(s.skip(1), a, b) }
}
pub proof fn lemma_first_of(s: Seq<char>, a: char, b: char)
    ensures 0 <= first_of(s, a, b) <= s.len(),
            first_of(s, a, b) < s.len() ==> (s[first_of(s, a, b)] == a || s[first_of(s, a, b)] == b),
            forall|i: int| 0 <= i < first_of(s, a, b) ==> s[i] != a && s[i] != b
    decreases s.len()
{
    if s.len() > 0 && !(s[0] == a || s[0] == b) {
        lemma_first_of(s.skip(1), a, b);
        assert forall|i: int| 0 <= i < first_of(s, a, b) implies s[i] != a && s[i] != b by { if i > 0 { assert(s.skip(1)[i - 1] == s[i]); } }
    }
}
//@ obligation lemma_first_of props=C17
// a peekable char iterator over one component (seg.chars().peekable())
#[verifier::external_body]
pub struct CharIter { x: u8 }
impl CharIter {
    pub uninterp spec fn rest(&self) -> Seq<char>;
    // R4: `chars.peek().is_some()`
    #[verifier::external_body]
    pub fn has_next(&mut self) -> (b: bool) ensures b == (old(self).rest().len() > 0), final(self).rest() == old(self).rest() { unimplemented!() }
    // R4: `chars.next_if_eq(&c)` (std Peekable): consumes the next char iff it equals c
    #[verifier::external_body]
    pub fn next_if_eq_c(&mut self, c: char) -> (r: Option<char>)
        ensures (old(self).rest().len() > 0 && old(self).rest()[0] == c) ==> r == Some(c) && final(self).rest() == old(self).rest().skip(1),
                !(old(self).rest().len() > 0 && old(self).rest()[0] == c) ==> r is None && final(self).rest() == old(self).rest()
    { unimplemented!() }
    // R4: `chars.take_while_p(|&x| x != a && x != b).collect::<String>()` -- rivia PeekingTakeWhile (= Peekable::next_if): the longest
    // prefix without a / b; the first failing char stays unconsumed
    #[verifier::external_body]
    pub fn take_until2(&mut self, a: char, b: char) -> (r: Str)
        ensures r@ == old(self).rest().take(first_of(old(self).rest(), a, b)), final(self).rest() == old(self).rest().skip(first_of(old(self).rest(), a, b))
    { unimplemented!() }
    // R4: `chars.by_ref().take_while(|&x| x != a).collect::<String>()` -- std TakeWhile on by_ref(): the failing char IS consumed
    #[verifier::external_body]
    pub fn take_through(&mut self, a: char) -> (r: Str)
        ensures r@ == old(self).rest().take(first_of(old(self).rest(), a, a)),
                final(self).rest() == (if first_of(old(self).rest(), a, a) < old(self).rest().len() { old(self).rest().skip(first_of(old(self).rest(), a, a) + 1) } else { Seq::<char>::empty() })
    { unimplemented!() }
}
#[verifier::external_body]
pub fn chars_peekable(s: &Str) -> (r: CharIter) ensures r.rest() == s@ { unimplemented!() }
impl Str {
    #[verifier::external_body]
    pub fn new_empty() -> (r: Str) ensures r@ == Seq::<char>::empty() { unimplemented!() }
    // R4: `str += &x`
    #[verifier::external_body]
    pub fn append(&mut self, x: &Str) ensures final(self)@ == old(self)@ + x@ { unimplemented!() }
}

// ---- specification, written from the property statement -----------------------------------------------------------------
// one component: every `$NAME` / `${NAME}` is replaced by env(NAME); an empty name or an unset variable is an error
#[verifier::opaque]
pub open spec fn expand_seg(s: Seq<char>) -> Option<Seq<char>> decreases s.len() via expand_seg_dec {
    let i = first_of(s, '$', '$');
    if i >= s.len() { Some(s) } else {
        let lit = s.take(i);
        let rest = s.skip(i + 1);
        let r1 = if rest.len() > 0 && rest[0] == '{' { rest.skip(1) } else { rest };
        let j = first_of(r1, '$', '}');
        let name = r1.take(j);
        let r2 = r1.skip(j);
        let r3 = if r2.len() > 0 && r2[0] == '}' { r2.skip(1) } else { r2 };
        if name.len() == 0 { None } else {
            match env(name) {
                None => None,
                Some(v) => match expand_seg(r3) { Some(t) => Some(lit + v + t), None => None },
            }
        }
    }
}
#[via_fn]
proof fn expand_seg_dec(s: Seq<char>) {
    let i = first_of(s, '$', '$');
    lemma_first_of(s, '$', '$');
    if i < s.len() {
        let rest = s.skip(i + 1);
        let r1 = if rest.len() > 0 && rest[0] == '{' { rest.skip(1) } else { rest };
        lemma_first_of(r1, '$', '}');
    }
}
// explicit one-step unfoldings (the definitions are opaque to keep the solver's work small)
pub proof fn lemma_seg_unfold(s: Seq<char>)
    ensures expand_seg(s) == ({
        let i = first_of(s, '$', '$');
        if i >= s.len() { Some(s) } else {
            let lit = s.take(i);
            let rest = s.skip(i + 1);
            let r1 = if rest.len() > 0 && rest[0] == '{' { rest.skip(1) } else { rest };
            let j = first_of(r1, '$', '}');
            let name = r1.take(j);
            let r2 = r1.skip(j);
            let r3 = if r2.len() > 0 && r2[0] == '}' { r2.skip(1) } else { r2 };
            if name.len() == 0 { None } else {
                match env(name) { None => None, Some(v) => match expand_seg(r3) { Some(t) => Some(lit + v + t), None => None } }
            }
        }
    })
{ reveal(expand_seg); }
pub proof fn lemma_comps_unfold(acc: Comps, cs: Comps)
    ensures expand_comps(acc, cs) == (
        if cs.len() == 0 { Some(acc) } else {
            match cs[0] {
                Component::Normal(n) => if !name_utf8(n) { None } else { match expand_seg(name_chars(n)) { Some(t) => expand_comps(join_spec(acc, parse(t)), cs.skip(1)), None => None } },
                c => expand_comps(push_spec(acc, c), cs.skip(1)),
            }
        })
{ reveal(expand_comps); }
//@ obligation lemma_seg_unfold props=C17
//@ obligation lemma_comps_unfold props=C17
pub open spec fn prepend(acc: Seq<char>, o: Option<Seq<char>>) -> Option<Seq<char>> { match o { Some(t) => Some(acc + t), None => None } }
// all components: normal names are expanded (a non-UTF8 name is an error), everything else is kept
#[verifier::opaque]
pub open spec fn expand_comps(acc: Comps, cs: Comps) -> Option<Comps> decreases cs.len() {
    if cs.len() == 0 { Some(acc) } else {
        match cs[0] {
            Component::Normal(n) => if !name_utf8(n) { None } else { match expand_seg(name_chars(n)) { Some(t) => expand_comps(join_spec(acc, parse(t)), cs.skip(1)), None => None } },
            c => expand_comps(push_spec(acc, c), cs.skip(1)),
        }
    }
}
#[verifier::external_body]
pub fn has_lit(p: &PathBuf, lit: &'static str) -> (b: bool)
    ensures b == (p.utf8_ok() && exists|i: int| 0 <= i && i + lit@.len() <= p.pstr().len() && #[trigger] p.pstr().subrange(i, i + lit@.len()) == lit@) { unimplemented!() }
impl PathBuf {
    #[verifier::external_body]
    pub fn join_s(&self, s: &Str) -> (r: PathBuf) ensures r.comps() == join_spec(self.comps(), parse(s@)) { unimplemented!() }
}
// "~/" is a prefix ==> byte 2 is a character boundary (two one-byte characters)
pub proof fn lemma_tilde_boundary(s: Seq<char>)
    requires is_prefix("~/"@, s)
    ensures is_boundary(s, 2), byte_len(s) >= 2, forall|k: int| 0 <= k <= s.len() && #[trigger] byte_len(s.take(k)) == 2 ==> k == 2
{
    ax_ascii();
    reveal_strlit("~/");
    assert("~/"@.len() == 2);
    assert(s.take(2) =~= "~/"@);
    let p = s.take(2);
    assert(p.drop_last() =~= seq!['~']);
    assert(p.drop_last().drop_last() =~= Seq::<char>::empty());
    assert(byte_len(p.drop_last().drop_last()) == 0);
    assert(byte_len(p.drop_last()) == 1);
    assert(byte_len(p) == 2);
    lemma_byte_len_mono(s, 2, s.len() as int);
    assert(s.take(s.len() as int) =~= s);
    assert forall|k: int| 0 <= k <= s.len() && #[trigger] byte_len(s.take(k)) == 2 implies k == 2 by { lemma_boundary_unique(s, k, 2); }
}
//@ obligation lemma_tilde_boundary props=C17

// one step of the per-component scanner equals one unfolding of expand_seg
pub proof fn lemma_seg_no_dollar(s: Seq<char>)
    requires first_of(s, '$', '$') >= s.len()
    ensures expand_seg(s) == Some(s)
{ lemma_seg_unfold(s); }
//@ obligation lemma_seg_no_dollar props=C17

//@ item expand file=src/sys/fs/path.rs fn=expand props=C17,C05,C12,C01
//@ sig pub fn expand<T: AsRef<Path>>(path: T) -> RvResult<PathBuf>
//@ rw R4 * ⟦pathstr.matches('~').count()⟧ => ⟦count_char(&pathstr, '~')⟧
//@ rw R1 * re⟦\bhas_prefix\(path, ("[^"]*")\)⟧ => ⟦has_prefix_lit(path, \1)⟧
//@ rw R1 * re⟦\bhas\(path, ("[^"]*")\)⟧ => ⟦has_lit(path, \1)⟧
//@ rw R1 * ⟦pathstr != "~"⟧ => ⟦!pathstr.eq_lit("~")⟧
//@ rw R1 * ⟦pathstr == "~"⟧ => ⟦pathstr.eq_lit("~")⟧
//@ rw R7 * ⟦&pathstr[2..]⟧ => ⟦&pathstr.slice_from(2)⟧
//@ rw R1 * ⟦mash(home_dir()?, &pathstr.slice_from(2))⟧ => ⟦mash_s(home_dir()?, &pathstr.slice_from(2))⟧
//@ rw R1 * ⟦mash(home, &pathstr.slice_from(2))⟧ => ⟦mash_s(home, &pathstr.slice_from(2))⟧
//@ rw R1 * ⟦.join(&pathstr.slice_from(2))⟧ => ⟦.join_s(&pathstr.slice_from(2))⟧
//@ rw R4 * ⟦pathstr.matches('$').some()⟧ => ⟦has_char(&pathstr, '$')⟧
//@ rw R3 1 for
//@ rw R4 * ⟦let mut str = String::new();⟧ => ⟦let mut str = Str::new_empty();⟧
//@ rw R4 * ⟦let mut chars = seg.chars().peekable();⟧ => ⟦let mut chars = chars_peekable(&seg);⟧
//@ rw R4 * ⟦while chars.peek().is_some() {⟧ => ⟦while chars.has_next() {⟧
//@ rw R4 * ⟦str += &chars.by_ref().take_while(|&x| x != '$').collect::<String>();⟧ => ⟦str.append(&chars.take_through('$'));⟧
//@ rw R4 * ⟦str += &chars.take_while_p(|&x| x != '$').collect::<String>();⟧ => ⟦str.append(&chars.take_until2('$', '$'));⟧
//@ rw R4 * ⟦if chars.peek().is_some() {⟧ => ⟦if chars.has_next() {⟧
//@ rw R4 * ⟦if chars.next_if_eq(&'$').is_some() {⟧ => ⟦if chars.next_if_eq_c('$').is_some() {⟧
//@ rw R4 * ⟦chars.next_if_eq(&'{');⟧ => ⟦chars.next_if_eq_c('{');⟧
//@ rw R4 * ⟦chars.next_if_eq(&'}');⟧ => ⟦chars.next_if_eq_c('}');⟧
//@ rw R4 * ⟦let var = &chars.take_while_p(|&x| x != '$' && x != '}').collect::<String>();⟧ => ⟦let var = &chars.take_until2('$', '}');⟧
//@ rw R8 * ⟦str += &std::env::var(var)?;⟧ => ⟦str.append(&env_var_s(var)?);⟧
//@ rw R8 * ⟦str += &std::env::var(var).unwrap_or_default();⟧ => ⟦str.append(&(match env_var_s(var) { Ok(__v) => __v, Err(_) => Str::new() }));⟧
//@ rw R1 * ⟦path_buf.push(str);⟧ => ⟦path_buf.push_s(str);⟧
//@ ins start
    proof {
        reveal_strlit("~"); reveal_strlit("~/");
        assert("~"@.len() == 1 && "~/"@.len() == 2);
        if path.utf8_ok() && is_prefix("~/"@, path.pstr()) { lemma_tilde_boundary(path.pstr()); }
    }
//@ endins
//@ ins after ⟦let mut path_buf = PathBuf::new();⟧
        let ghost all = path.comps();
//@ endins
//@ loop 1
            invariant
                expand_comps(path_buf.comps(), __it1.rest()) == expand_comps(Seq::empty(), all),
            decreases __it1.rest().len()
//@ endloop
//@ loop 2
                        invariant
                            prepend(str@, expand_seg(chars.rest())) == expand_seg(seg@),
                        decreases chars.rest().len()
//@ endloop
//@ ins before ⟦let x = match __it1.next()⟧
            let ghost cs0 = __it1.rest();
            let ghost pb0 = path_buf.comps();
            proof { lemma_comps_unfold(pb0, cs0); }
//@ endins
//@ ins after ⟦while chars.has_next() {⟧
                        let ghost rest0 = chars.rest();
                        let ghost acc0 = str@;
                        let ghost i0 = first_of(rest0, '$', '$');
                        let ghost lit0 = rest0.take(i0);
                        proof {
                            lemma_first_of(rest0, '$', '$');
                            lemma_seg_unfold(rest0);
                            lemma_seg_unfold(Seq::<char>::empty());
                            assert((acc0 + lit0) + Seq::<char>::empty() =~= acc0 + lit0);
                            if i0 >= rest0.len() { assert(lit0 =~= rest0); assert(rest0.skip(i0) =~= Seq::<char>::empty()); }
                        }
//@ endins
//@ ins? after ⟦if chars.next_if_eq_c('$').is_some() {⟧
                            let ghost after_dollar = chars.rest();
                            proof {
                                assert(after_dollar == rest0.skip(i0 + 1)) by { assert(rest0.skip(i0).skip(1) =~= rest0.skip(i0 + 1)); }
                                let r1 = if after_dollar.len() > 0 && after_dollar[0] == '{' { after_dollar.skip(1) } else { after_dollar };
                                lemma_first_of(r1, '$', '}');
                            }
//@ endins
//@ ins after re⟦str\.append\(&[^;]*env_var_s\(var\)[^;]*;⟧
                            proof {
                                let v = env(var@)->Some_0;
                                match expand_seg(chars.rest()) { Some(t) => { assert((acc0 + lit0 + v) + t =~= acc0 + (lit0 + v + t)); }, None => {} }
                            }
//@ endins
//@ ins before ⟦path_buf.push_s(str);⟧
                    proof { lemma_seg_unfold(Seq::<char>::empty()); assert(chars.rest() =~= Seq::<char>::empty()); assert(str@ + Seq::<char>::empty() =~= str@); assert(expand_seg(seg@) == Some(str@)); }
//@ endins
#[verifier::loop_isolation(false)]
pub fn expand(path: &PathBuf) -> (r: RvResult<PathBuf>)
    ensures
        !path.utf8_ok() ==> r is Err,
        // more than one `~`, or a `~` that is not at the start: fail rather than guess
        (path.utf8_ok() && count_c(path.pstr(), '~') > 1) ==> r is Err && r->Err_0.kind == ErrKind::MultipleHomeSymbols,                                   //@ clause expand.multiple_tilde_fails [C17]
        (path.utf8_ok() && count_c(path.pstr(), '~') == 1 && !is_prefix("~/"@, path.pstr()) && path.pstr() != "~"@) ==> r is Err && r->Err_0.kind == ErrKind::InvalidExpansion,     //@ clause expand.tilde_not_at_start_fails [C17]
        (path.utf8_ok() && count_c(path.pstr(), '~') == 1 && (is_prefix("~/"@, path.pstr()) || path.pstr() == "~"@) && env("HOME"@) is None) ==> r is Err && r->Err_0.kind == ErrKind::Var,     //@ clause expand.home_unset_fails [C17]
        // `~` alone is $HOME
        (path.utf8_ok() && count_c(path.pstr(), '~') == 1 && path.pstr() == "~"@ && env("HOME"@) is Some && count_c(env("HOME"@)->Some_0, '$') == 0) ==> r is Ok && r->Ok_0.comps() == parse(env("HOME"@)->Some_0),     //@ clause expand.tilde_is_home [C17]
        // `~/rest` is rest joined under $HOME (then variables)
        (path.utf8_ok() && count_c(path.pstr(), '~') == 1 && is_prefix("~/"@, path.pstr()) && env("HOME"@) is Some && r is Ok) ==>
            (r->Ok_0.comps() == spec_mash(parse(env("HOME"@)->Some_0), parse(path.pstr().skip(2)))
             || Some(r->Ok_0.comps()) == expand_comps(Seq::empty(), spec_mash(parse(env("HOME"@)->Some_0), parse(path.pstr().skip(2))))),                 //@ clause expand.tilde_slash_is_under_home [C17,C05]
        // neither `~` nor `$`: returned unchanged, in every environment
        (path.utf8_ok() && count_c(path.pstr(), '~') == 0 && count_c(path.pstr(), '$') == 0) ==> r is Ok && r->Ok_0.comps() == path.comps() && r->Ok_0.pstr() == path.pstr(),      //@ clause expand.plain_text_unchanged [C17]
        // variables: every $NAME / ${NAME} inside a component is replaced; empty name or unset variable fails
        (path.utf8_ok() && count_c(path.pstr(), '~') == 0 && count_c(path.pstr(), '$') > 0) ==> (r is Ok == expand_comps(Seq::empty(), path.comps()) is Some),     //@ clause expand.variable_errors_exactly [C17]
        (path.utf8_ok() && count_c(path.pstr(), '~') == 0 && count_c(path.pstr(), '$') > 0 && r is Ok) ==> Some(r->Ok_0.comps()) == expand_comps(Seq::empty(), path.comps()),     //@ clause expand.variables_substituted_exactly [C17]
//@ body
