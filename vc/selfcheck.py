#!/usr/bin/env python3
"""setup_cmd: nothing to build (python stdlib only); verify the tools are present and print their versions."""
import shutil, subprocess, sys
ok = True
for t in ('verus', 'cargo', 'python3'):
    if not shutil.which(t):
        print('missing tool:', t); ok = False
print(subprocess.run(['verus', '--version'], capture_output=True, text=True).stdout.strip().replace('\n', ' | '))
k = subprocess.run(['cargo', 'kani', '--version'], capture_output=True, text=True)
print((k.stdout + k.stderr).strip().split('\n')[0])
sys.exit(0 if ok else 1)
