"""Run Verus on one generated file and classify its diagnostics through the source map."""
import json
import os
import re
import subprocess
import time

VERIFICATION_MSGS = [
    'postcondition not satisfied', 'precondition not satisfied', 'invariant not satisfied',
    'assertion failed', 'possible arithmetic underflow/overflow', 'possible division by zero',
    'decreases not satisfied', 'could not prove termination', 'unreachable()', 'loop invariant',
    'possible bit shift underflow/overflow', 'failed to verify', 'assert_by_compute', 'recommendation not met',
    'index out of bounds', 'could not show', 'cannot show', 'possible overflow', 'possible underflow',
    'not satisfied', 'unable to prove post-condition of closure', 'unable to prove', 
]
SAFETY_MSGS = ['arithmetic underflow/overflow', 'division by zero', 'decreases', 'termination', 'bit shift',
               'precondition not satisfied', 'index out of bounds']
UNDECIDED_MSGS = ['rlimit', 'resource limit', 'timed out', 'timeout']


def run(path, rlimit=30, multiple_errors=20, timeout=600, extra=None):
    cmd = ['verus', os.path.basename(path), '--output-json', '--time', '--error-format=json',
           '--multiple-errors', str(multiple_errors), '--rlimit', str(rlimit)] + (extra or [])
    t0 = time.time()
    try:
        p = subprocess.run(cmd, cwd=os.path.dirname(path), capture_output=True, text=True, timeout=timeout)
        out, err, rc = p.stdout, p.stderr, p.returncode
    except subprocess.TimeoutExpired as e:
        out, err, rc = (e.stdout or b'').decode('utf-8', 'replace') if isinstance(e.stdout, bytes) else (e.stdout or ''), 'TIMEOUT', -9
    wall = time.time() - t0
    res = {'cmd': ' '.join(cmd), 'rc': rc, 'wall_s': wall, 'diagnostics': [], 'functions': [], 'summary': None, 'raw_err': ''}
    try:
        j = json.loads(out)
        res['summary'] = j.get('verification-results')
        for m in j.get('times-ms', {}).get('smt', {}).get('smt-run-module-times', []):
            for f in m.get('function-breakdown', []):
                res['functions'].append({'function': f['function'], 'success': f['success'], 'ms': f.get('time', 0),
                                         'rlimit': f.get('rlimit', 0), 'mode': f.get('mode:', f.get('mode', ''))})
        res['total_ms'] = j.get('times-ms', {}).get('total')
        res['smt_ms'] = j.get('times-ms', {}).get('smt', {}).get('total')
    except (ValueError, AttributeError):
        res['summary'] = None
    raw = []
    for l in err.split('\n'):
        l = l.strip()
        if not l:
            continue
        try:
            d = json.loads(l)
        except ValueError:
            raw.append(l)
            continue
        if d.get('$message_type') != 'diagnostic':
            continue
        res['diagnostics'].append({
            'level': d.get('level'), 'message': d.get('message', ''),
            'spans': [{'line': s['line_start'], 'line_end': s['line_end'], 'primary': s['is_primary'], 'label': s.get('label'),
                       'text': (s.get('text') or [{}])[0].get('text', '').strip()} for s in d.get('spans', [])],
            'rendered': d.get('rendered', ''),
        })
    res['raw_err'] = '\n'.join(raw)
    return res


def classify_message(msg):
    m = msg.lower()
    if any(u in m for u in UNDECIDED_MSGS):
        return 'undecided'
    if any(v in m for v in VERIFICATION_MSGS):
        return 'verification'
    if m.startswith('aborting due to'):
        return 'summary'
    return 'compile'


def is_safety(msg):
    m = msg.lower()
    return any(s in m for s in SAFETY_MSGS)


FN_DECL = re.compile(r'(?<![A-Za-z0-9_])fn\s+([A-Za-z_][A-Za-z0-9_]*)')


def fn_index(gen_text):
    """[(line_no, fn name)] for every fn declaration in the generated file (comments ignored crudely)."""
    idx = []
    for n, l in enumerate(gen_text.split('\n'), 1):
        code = l.split('//')[0]
        m = FN_DECL.search(code)
        if m:
            idx.append((n, m.group(1)))
    return idx


IMPL_HDR = re.compile(r'^\s*(?:pub\s+)?impl(?:<[^>]*>)?\s+(?:[A-Za-z_][\w:<>, \'&]*?\s+for\s+)?([A-Za-z_]\w*)')


def fn_index_q(gen_text):
    """[(line_no, fn name, qualified name)]: the qualified name is `Type::name` for a fn declared inside `impl .. Type {` (as Verus
    prints it) and the bare name otherwise."""
    idx = []
    depth = 0
    impl_stack = []      # (type name, depth at which the impl block opened)
    for n, l in enumerate(gen_text.split('\n'), 1):
        code = l.split('//')[0]
        m = FN_DECL.search(code)
        if m:
            q = ('%s::%s' % (impl_stack[-1][0], m.group(1))) if impl_stack else m.group(1)
            idx.append((n, m.group(1), q))
        mi = IMPL_HDR.match(code)
        opens = code.count('{'); closes = code.count('}')
        if mi and opens > closes and not m:
            impl_stack.append((mi.group(1), depth))
        depth += opens - closes
        while impl_stack and depth <= impl_stack[-1][1]:
            impl_stack.pop()
    return idx


def enclosing_fn(idx, line):
    name = None
    for (n, f) in idx:
        if n <= line:
            name = f
        else:
            break
    return name
