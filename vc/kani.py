"""Kani harness runner.  Harness modules live in units/<unit>.kani.rs and are appended (under cfg(kani)) to a
scratch copy of /repo on every run -- never to /repo itself.  Only loop-free harnesses over full-width symbolic
integers are labelled `complete`; everything else must carry completeness=bounded and is never counted as proved."""
import os
import re
import shutil
import subprocess
import tempfile
import time

HERE = os.path.dirname(os.path.abspath(__file__))
VERIF = os.path.dirname(HERE)


def parse_attrs(s):
    attrs = {}
    for m in re.finditer(r'(\w+)=(?:"([^"]*)"|(\S+))', s):
        attrs[m.group(1)] = m.group(2) if m.group(2) is not None else m.group(3)
    return attrs


def load():
    res = []
    d = os.path.join(VERIF, 'units')
    for f in sorted(os.listdir(d)):
        if not f.endswith('.kani.rs'):
            continue
        text = open(os.path.join(d, f), encoding='utf-8').read()
        inject = None
        hs = []
        for l in text.split('\n'):
            if l.startswith('//@ kani'):
                inject = parse_attrs(l)['inject']
            elif l.startswith('//@ harness'):
                nm = l.split()[2]
                a = parse_attrs(l)
                hs.append({'name': nm, 'props': a.get('props', '').split(','), 'completeness': a.get('completeness', 'bounded'),
                           'bound': a.get('note', ''), 'unit': f[:-8], 'items': a.get('items', '').split(',') if a.get('items') else None,
                           'replay': a.get('replay')})
        res.append({'unit': f[:-8], 'inject': inject, 'text': text, 'harnesses': hs})
    return res


def harness_units(pid):
    return [u for u in load() if any(pid in h['props'] for h in u['harnesses'])]


def all_harnesses():
    return [h for u in load() for h in u['harnesses']]


def run_units(kunits, pid, repo, only_failed_units=None, timeout=1500):
    results = []
    scratch = tempfile.mkdtemp(prefix='rivia-kani-')
    try:
        work = os.path.join(scratch, 'repo')
        shutil.copytree(repo, work, ignore=shutil.ignore_patterns('target', '.git'))
        os.makedirs(os.path.join(work, '.cargo'), exist_ok=True)
        open(os.path.join(work, '.cargo', 'config.toml'), 'w').write('[net]\noffline = true\n')
        hs = []
        for u in kunits:
            p = os.path.join(work, u['inject'])
            open(p, 'a', encoding='utf-8').write('\n' + u['text'])
            hs += [h for h in u['harnesses'] if pid is None or pid in h['props']]
        env = dict(os.environ, CARGO_NET_OFFLINE='true', CARGO_TARGET_DIR=os.path.join(scratch, 'target'))
        cmd = ['cargo', 'kani', '-Z', 'function-contracts', '-Z', 'concrete-playback', '--concrete-playback=print',
               '--output-format', 'terse']
        for h in hs:
            cmd += ['--harness', h['name']]
        t0 = time.time()
        try:
            p = subprocess.run(cmd, cwd=work, env=env, capture_output=True, text=True, timeout=timeout)
            out = p.stdout + '\n' + p.stderr
        except subprocess.TimeoutExpired as e:
            out = 'TIMEOUT after %ds' % timeout
        wall = time.time() - t0
        shown = 'cd <scratch copy of /repo with units/*.kani.rs appended> && CARGO_NET_OFFLINE=true ' + ' '.join(cmd)
        for h in hs:
            r = {k: v for k, v in h.items() if v is not None}
            r['harness'] = h['name']
            r['cmd'] = shown
            r['wall_s'] = wall / max(1, len(hs))
            # locate this harness' section
            m = re.search(r'Checking harness [\w:]*' + re.escape(h['name']) + r'\b(.*?)(?=Checking harness |Manual Harness Summary|Complete - |\Z)', out, re.S)
            sec = m.group(1) if m else ''
            if 'VERIFICATION:- SUCCESSFUL' in sec:
                r['status'] = 'ok'
            elif 'VERIFICATION:- FAILED' in sec:
                r['status'] = 'failed'
                fc = re.findall(r'Failed Checks: ([^\n]*)', sec)
                r['failed_checks'] = '; '.join(fc[:6])
                cm = re.search(r'Concrete playback unit test.*?```\s*(.*?)```', sec, re.S)
                r['cex'] = cm.group(1).strip() if cm else None
                r['output'] = sec[-5000:]
            else:
                r['status'] = 'undecided'
                r['reason'] = 'no verdict for harness (compile error / timeout?): ' + out[-600:]
            results.append(r)
    finally:
        shutil.rmtree(scratch, ignore_errors=True)
    return results


if __name__ == '__main__':
    import json
    import sys
    pid = sys.argv[1] if len(sys.argv) > 1 else None
    repo = os.environ.get('VERIF_REPO', '/repo')
    for r in run_units(harness_units(pid) if pid else load(), pid, repo):
        print(json.dumps({k: v for k, v in r.items() if k not in ('text',)}, indent=1))
