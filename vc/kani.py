"""Kani harness runner: see below (filled in with the memfs_file unit)."""
def harness_units(pid):
    return []
def all_harnesses():
    return []
def run_units(kunits, pid, repo, only_failed_units=None):
    return []
