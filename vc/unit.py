"""Parse a unit template (units/<name>.rs), pull the real bodies from /repo, apply the declared
rewrites, splice contracts + loop annotations + proof insertions, and emit one Verus file plus a
source map.  See DESIGN.md section 3.
"""
import os
import re

from extract import LostAnchor, blank_comments, locate, locate_closure, locate_macro, locate_struct, mask, match_brace, norm_ws

VERIF = os.path.dirname(os.path.dirname(os.path.abspath(__file__)))

DELIM = re.compile(r'^(re)?⟦(.*)⟧\s*=>\s*⟦(.*)⟧\s*$', re.S)


class UnitError(Exception):
    pass


class Item:
    def __init__(self, ident, attrs, lineno):
        self.id = ident
        self.attrs = attrs
        self.lineno = lineno
        self.props = [p for p in attrs.get('props', '').split(',') if p]
        self.sig = None           # expected real signature (normalised)
        self.rewrites = []        # (rule, expect, is_re, pat, repl)
        self.loops = {}           # ordinal -> [lines]
        self.inserts = []         # (where, anchor, [lines], nth)
        self.contract = []        # verus signature + clauses (lines)
        self.real = None
        self.vacuity = attrs.get('vacuity', 'yes') != 'no'
        self.mode = attrs.get('mode', 'body')   # body | macro


def parse_attrs(s):
    attrs = {}
    for m in re.finditer(r'(\w+)=(?:"([^"]*)"|(\S+))', s):
        attrs[m.group(1)] = m.group(2) if m.group(2) is not None else m.group(3)
    return attrs


def lit_to_re(lit):
    parts = re.split(r'\s+', lit.strip())
    return r'\s*'.join(re.escape(p) for p in parts if p != '') if False else r'\s+'.join(re.escape(p) for p in parts)


def loop_headers(masked_body):
    """Positions (index of the `{`) of loop headers in textual order: `loop {`, `while … {`, `for … {`."""
    res = []
    for m in re.finditer(r'(?<![A-Za-z0-9_])(loop|while|for)(?![A-Za-z0-9_])', masked_body):
        k = m.end()
        pd = 0
        while k < len(masked_body):
            ch = masked_body[k]
            if ch in '([':
                pd += 1
            elif ch in ')]':
                pd -= 1
            elif ch == '{' and pd == 0:
                break
            k += 1
        if k < len(masked_body):
            res.append((m.start(), k, m.group(1)))
    return res


def rewrite_for_loops(body, expect, log):
    """R3: `for PAT in EXPR {` -> `let mut __itN = EXPR; loop { let PAT = match __itN.next() { Some(__v) => __v, None => break };`"""
    # a `for` written out by hand, `let mut IT = EXPR; while let Some(PAT) = IT.next() {`, is folded back into `for PAT in EXPR {`
    # first (only when IT is used nowhere else), so that both spellings get the same translation
    for m in list(re.finditer(r'let\s+mut\s+(\w+)\s*=\s*([^;]+?);\s*while\s+let\s+Some\((.+?)\)\s*=\s*(\w+)\.next\(\)\s*\{', body)):
        if m.group(1) == m.group(4) and len(re.findall(r'(?<![A-Za-z0-9_.])' + re.escape(m.group(1)) + r'(?![A-Za-z0-9_])', body)) == 2:
            body = body.replace(m.group(0), 'for %s in %s {' % (m.group(3), m.group(2)), 1)
            log.append({'rule': 'R3', 'matched': norm_ws(m.group(0)), 'replacement': 'for %s in %s {' % (m.group(3), m.group(2))})
    n = 0
    while True:
        mb = mask(body)
        hit = None
        for (s, b, kw) in loop_headers(mb):
            if kw == 'for':
                hit = (s, b)
                break
        if not hit:
            break
        s, b = hit
        head = body[s:b]
        m = re.match(r'for\s+(.*?)\s+in\s+(.*?)\s*$', head, re.S)
        if not m:
            raise LostAnchor('R3: cannot parse for header %r' % head)
        n += 1
        pat, expr = m.group(1), m.group(2)
        new = 'let mut __it%d = %s; loop {\n let %s = match __it%d.next() { Some(__v) => __v, None => break };' % (n, expr, pat, n)
        # the for-loop is a statement: wrap in a block so that `let` is legal where the `for` stood
        close = match_brace(mb, b)
        body = body[:s] + '{ ' + new + body[b + 1:close + 1] + ' }' + body[close + 1:]
        log.append({'rule': 'R3', 'matched': norm_ws(head), 'replacement': norm_ws(new)})
    if expect >= 0 and n != expect:
        raise LostAnchor('R3 expected %d for-loops, found %d' % (expect, n))
    return body


def apply_rewrites(item, body, log):
    for (rule, expect, is_re, pat, repl) in item.rewrites:
        if rule == 'R3' and pat is None:
            body = rewrite_for_loops(body, expect, log)
            continue
        rx = re.compile(pat if is_re else lit_to_re(pat), re.S)
        found = rx.findall(body)
        if (expect == -1 and len(found) == 0) or (expect >= 0 and len(found) != expect):
            raise LostAnchor('item %s: rewrite %s %r expected %d matches, found %d' % (item.id, rule, pat, expect, len(found)))
        for m in list(rx.finditer(body))[:3 if expect < 0 else None]:
            log.append({'rule': rule, 'item': item.id, 'matched': norm_ws(m.group(0)), 'replacement': norm_ws(m.expand(repl) if is_re else repl)})
        body = rx.sub(repl if is_re else (lambda _m: repl), body)
    return body


def insert_loops(item, body):
    # end-of-body insertions first (positions computed on the text without annotations), from the back
    le = getattr(item, 'loopends', None) or {}
    al = getattr(item, 'afterloops', None) or {}
    if le or al:
        mb = mask(body)
        hdrs = loop_headers(mb)
        todo = []
        for k, blk in le.items():
            if k > len(hdrs):
                raise LostAnchor('item %s: loopend %d but body has %d loops' % (item.id, k, len(hdrs)))
            close = match_brace(mb, hdrs[k - 1][1])
            todo.append((close, blk))
        for k, blk in al.items():
            if k > len(hdrs):
                raise LostAnchor('item %s: afterloop %d but body has %d loops' % (item.id, k, len(hdrs)))
            close = match_brace(mb, hdrs[k - 1][1])
            todo.append((close + 1, blk))
        for (pos, blk) in sorted(todo, key=lambda t: -t[0]):
            body = body[:pos] + '\n' + '\n'.join(blk) + '\n' + body[pos:]
    if not item.loops:
        return body
    mb = mask(body)
    hdrs = loop_headers(mb)
    want = sorted(item.loops)
    if item.attrs.get('nloops') is not None and int(item.attrs['nloops']) != len(hdrs):
        raise LostAnchor('item %s: expected %s loops, found %d' % (item.id, item.attrs['nloops'], len(hdrs)))
    opt = getattr(item, 'optional_loops', set())
    if want and max([w for w in want if w not in opt] or [0]) > len(hdrs):
        raise LostAnchor('item %s: loop %d annotated but body has %d loops' % (item.id, want[-1], len(hdrs)))
    # insert from the back so positions stay valid
    for ordn in sorted(item.loops, reverse=True):
        if ordn > len(hdrs):
            continue      # optional annotation (`//@ loop? k`) of a loop that is no longer there
        _, b, _ = hdrs[ordn - 1]
        ann = '\n' + '\n'.join(item.loops[ordn]) + '\n'
        body = body[:b] + ann + body[b:]
    return body


def apply_inserts(item, body):
    # positions are resolved on the text before any insertion so that `#n` ordinals refer to the real body
    todo = []
    for (where, anchor, lines, nth, optional) in item.inserts:
        rx = re.compile(anchor[4:] if anchor.startswith('\x00re:') else lit_to_re(anchor), re.S)
        ms = list(rx.finditer(body))
        if optional and not ms:
            continue
        if nth is None and len(ms) != 1:
            raise LostAnchor('item %s: insert anchor %r matched %d times' % (item.id, anchor, len(ms)))
        if nth is not None and (len(ms) < abs(nth) or nth == 0):
            raise LostAnchor('item %s: insert anchor %r #%d but only %d matches' % (item.id, anchor, nth, len(ms)))
        m = ms[0] if nth is None else (ms[nth - 1] if nth > 0 else ms[nth])
        if where == 'afterstmt':
            # the anchor is the head of a block statement (`if .. {`, `match .. {`, `{`): insert after its closing brace, `else` chains included
            mb = mask(body)
            if not m.group(0).rstrip().endswith('{'):
                raise LostAnchor('item %s: afterstmt anchor %r does not end with `{`' % (item.id, anchor))
            pos = match_brace(mb, m.start() + len(m.group(0).rstrip()) - 1) + 1
            while True:
                m2 = re.match(r'\s*else\b[^{;]*\{', mb[pos:])
                if not m2:
                    break
                pos = match_brace(mb, pos + m2.end() - 1) + 1
            todo.append((pos, lines))
            continue
        todo.append((m.end() if where == 'after' else m.start(), lines))
    for (pos, lines) in sorted(todo, key=lambda t: -t[0]):
        text = '\n' + '\n'.join(lines) + '\n'
        body = body[:pos] + text + body[pos:]
    return body
    for (where, anchor, lines, _nth) in []:
        m = None
        text = '\n' + '\n'.join(lines) + '\n'
        pos = m.end() if where == 'after' else m.start()
        body = body[:pos] + text + body[pos:]
    return body


def expand_preludes(names):
    """Resolve `//@ requires a b` headers of prelude parts (dependencies first, each part once)."""
    out = []

    def add(n):
        if n in out:
            return
        f = os.path.join(VERIF, 'prelude', n + '.rs')
        for l in open(f, encoding='utf-8'):
            if l.startswith('//@ requires'):
                for d in l.split()[2:]:
                    add(d)
        out.append(n)
    for n in names:
        add(n)
    return out


# R14 (pipeline-wide, optional): std combinators taking a closure that ignores its argument are replaced by the `match` std defines them as
# (Verus takes neither `|_|` nor an unspecified closure): `X.unwrap_or_else(|_| E)` => `match X { Ok(v) => v, Err(_) => E }` for a Result-valued
# X, `X.map_err(|_| E)?` is left alone (error values are not compared).  Applied after the unit's own rewrites; a no-op on the unchanged tree.
GLOBAL_RW = [
    ('R14', -2, True, r'=\s*([^;=]+?\.(?:expand|abs|to_string|readlink|readlink_abs|mode|cwd|home_dir)\(\))\.unwrap_or_else\(\|_\w*\|\s*([^;]+)\);',
     r'= match \1 { Ok(__v) => __v, Err(_) => \2 };'),
]


class Unit:
    def __init__(self, path):
        self.path = path
        self.name = os.path.splitext(os.path.basename(path))[0]
        self.props = []
        self.items = []
        self.chunks = []      # ('text', [lines]) | ('prelude', name) | ('item', Item)
        self.obligations = {}  # verus fn name (suffix) -> {'props': [...], 'clause': str}
        self.expect_fail = {}  # verus fn name suffix -> finding id (known findings carve)
        self.kani = []
        self.rwall = []       # unit-wide optional rewrites applied to every item after its own (//@ rwall RULE ⟦..⟧ => ⟦..⟧)
        self._parse()

    def _parse(self):
        lines = open(self.path, encoding='utf-8').read().split('\n')
        i = 0
        cur_text = []
        item = None
        while i < len(lines):
            ln = lines[i]
            st = ln.strip()
            if st.startswith('//@'):
                d = st[3:].strip()
                word = d.split(' ', 1)[0]
                rest = d[len(word):].strip()
                if word == 'unit':
                    pass
                elif word == 'props':
                    self.props = rest.replace(',', ' ').split()
                elif word == 'prelude':
                    if cur_text:
                        self.chunks.append(('text', cur_text, i - len(cur_text) + 1))
                        cur_text = []
                    for p in expand_preludes(rest.split()):
                        self.chunks.append(('prelude', p, 0))
                elif word == 'obligation':
                    nm, _, r = rest.partition(' ')
                    a = parse_attrs(r)
                    self.obligations[nm] = {'props': [p for p in a.get('props', '').split(',') if p], 'clause': a.get('clause', nm)}
                elif word == 'item':
                    if item is not None:
                        raise UnitError('%s:%d nested item' % (self.path, i + 1))
                    if cur_text:
                        self.chunks.append(('text', cur_text, i - len(cur_text) + 1))
                        cur_text = []
                    ident, _, r = rest.partition(' ')
                    item = Item(ident, parse_attrs(r), i + 1)
                    if not item.props:
                        item.props = list(self.props)
                elif word == 'struct':
                    # //@ struct file=... name=MemfsFile [rw directives follow until //@ endstruct]
                    if cur_text:
                        self.chunks.append(('text', cur_text, i - len(cur_text) + 1))
                        cur_text = []
                    sit = Item('struct_' + parse_attrs(rest)['name'], parse_attrs(rest), i + 1)
                    sit.mode = 'struct'
                    i += 1
                    while not lines[i].strip().startswith('//@ endstruct'):
                        d2 = lines[i].strip()
                        if d2.startswith('//@ rw'):
                            rule, cnt, r = d2[3:].strip()[2:].strip().split(' ', 2)
                            m = DELIM.match(r.strip())
                            sit.rewrites.append((rule, (-1 if cnt == '+' else -2 if cnt == '*' else int(cnt)), bool(m.group(1)), m.group(2), m.group(3)))
                        elif d2:
                            sit.contract.append(lines[i])
                        i += 1
                    self.chunks.append(('struct', sit, sit.lineno))
                elif word == 'rwall':
                    rule, r = rest.split(' ', 1)
                    m = DELIM.match(r.strip())
                    if not m:
                        raise UnitError('%s:%d bad rwall directive' % (self.path, i + 1))
                    self.rwall.append((rule, -2, bool(m.group(1)), m.group(2), m.group(3)))
                elif word == 'sig':
                    item.sig = norm_ws(rest)
                elif word == 'rw':
                    rule, cnt, r = rest.split(' ', 2)
                    if r.strip() == 'for':
                        item.rewrites.append((rule, (-2 if cnt == '*' else int(cnt)), False, None, None))
                    else:
                        m = DELIM.match(r.strip())
                        if not m:
                            raise UnitError('%s:%d bad rw directive' % (self.path, i + 1))
                        item.rewrites.append((rule, (-1 if cnt == '+' else -2 if cnt == '*' else int(cnt)), bool(m.group(1)), m.group(2), m.group(3)))
                elif word in ('loop', 'loop?'):
                    ordn = int(rest)
                    if word == 'loop?':
                        item.optional_loops = getattr(item, 'optional_loops', set()) | {ordn}
                    blk = []
                    i += 1
                    while not lines[i].strip().startswith('//@ endloop'):
                        blk.append(lines[i])
                        i += 1
                    item.loops[ordn] = blk
                elif word in ('ins', 'ins?'):
                    where, _, r = rest.partition(' ')
                    if word == 'ins?':
                        where += '?'
                    if where in ('loopend', 'afterloop') and False:
                        pass
                    if where == 'afterloop':
                        blk = []
                        k = int(r.strip())
                        i += 1
                        while not lines[i].strip().startswith('//@ endins'):
                            blk.append(lines[i])
                            i += 1
                        item.afterloops = getattr(item, 'afterloops', {})
                        item.afterloops[k] = blk
                        i += 1
                        continue
                    if where == 'loopend':
                        blk = []
                        k = int(r.strip())
                        i += 1
                        while not lines[i].strip().startswith('//@ endins'):
                            blk.append(lines[i])
                            i += 1
                        item.loopends = getattr(item, 'loopends', {})
                        item.loopends[k] = blk
                        i += 1
                        continue
                    if where == 'start':
                        r = '⟦{⟧'
                    m = re.match(r'^(?:re)?⟦(.*)⟧\s*$', r.strip(), re.S)
                    anchor_is_re = r.strip().startswith('re⟦')
                    nth = None
                    optional = where.endswith('?')
                    where = where.rstrip('?')
                    if '#' in where:
                        where, nth = where.split('#')
                        nth = int(nth)
                    if where == 'start':
                        where, nth = 'after', 1
                    if not m or where not in ('after', 'before', 'afterstmt'):
                        raise UnitError('%s:%d bad ins directive' % (self.path, i + 1))
                    blk = []
                    i += 1
                    while not lines[i].strip().startswith('//@ endins'):
                        blk.append(lines[i])
                        i += 1
                    item.inserts.append((where, ('\x00re:' + m.group(1)) if anchor_is_re else m.group(1), blk, nth, optional))
                elif word == 'body':
                    self.items.append(item)
                    self.chunks.append(('item', item, item.lineno))
                    item = None
                elif word in ('clause',):
                    (item.contract if item is not None else cur_text).append(ln)
                else:
                    raise UnitError('%s:%d unknown directive %s' % (self.path, i + 1, word))
            else:
                if item is not None:
                    item.contract.append(ln)
                else:
                    cur_text.append(ln)
            i += 1
        if item is not None:
            raise UnitError('%s: item %s without //@ body' % (self.path, item.id))
        if cur_text:
            self.chunks.append(('text', cur_text, len(lines) - len(cur_text) + 1))
        for it in self.items:
            it.rewrites = list(it.rewrites) + list(self.rwall) + list(GLOBAL_RW)

    def all_props(self):
        s = set(self.props)
        for it in self.items:
            s.update(it.props)
        for o in self.obligations.values():
            s.update(o['props'])
        return s

    def generate(self, repo_root, reach=False):
        """Return (text, srcmap, info).  srcmap: list per generated line (1-based index-1) of dicts."""
        out = []
        smap = []
        rewrites_log = []
        items_info = []

        def emit(text_lines, **meta):
            for k, l in enumerate(text_lines):
                out.append(l)
                m = dict(meta)
                m['off'] = k
                cm = re.search(r'//@ clause (\S+)(?:\s+\[([^\]]*)\])?', l)
                if cm:
                    m['clause'] = cm.group(1)
                    if cm.group(2):
                        m['clause_props'] = [p for p in cm.group(2).replace(',', ' ').split() if p]
                smap.append(m)

        emit(['// GENERATED by /verif/vc from unit %s and /repo working tree -- do not edit' % self.name,
              '#![allow(unused_imports, unused_variables, unused_mut, dead_code, unused_assignments, unreachable_code, unused_parens, non_snake_case, unused_braces)]',
              'use vstd::prelude::*;', 'verus! {'], kind='header')
        for (kind, payload, lineno) in self.chunks:
            if kind == 'text':
                emit(payload, kind='unit', unit_line=lineno)
            elif kind == 'prelude':
                p = os.path.join(VERIF, 'prelude', payload + '.rs')
                emit(['// ---- prelude %s' % payload] + open(p, encoding='utf-8').read().split('\n'), kind='prelude', part=payload)
            elif kind == 'struct':
                it = payload
                real = locate_struct(repo_root, it.attrs['file'], it.attrs['name'], it.attrs.get('kw', 'struct'))
                body = real['body']
                body = re.sub(r'///[^\n]*', '', body)
                body = re.sub(r'#\[[^\]]*\]', '', body)
                body = body.replace('pub(crate)', 'pub')
                body = re.sub(r'(?m)^(\s*)(?!pub\b)([A-Za-z_][A-Za-z0-9_]*\s*:)', r'\1pub \2', body)
                body = apply_rewrites(it, body, rewrites_log)
                emit(['// ---- %s %s  <- %s:%d (R9: attributes/doc comments/visibility stripped)' % (it.attrs.get('kw', 'struct'), it.attrs['name'], real['file'], real['line'])], kind='marker')
                emit(it.contract, kind='unit', unit_line=it.lineno)
                emit(('pub %s %s%s ' % (it.attrs.get('kw', 'struct'), it.attrs['name'], it.attrs.get('generics', '')) + body).split('\n'), kind='struct', real_file=real['file'], real_line=real['line'])
            else:
                it = payload
                if it.mode == 'macro':
                    real = locate_macro(repo_root, it.attrs['file'], it.attrs['fn'])
                else:
                    real = locate(repo_root, it.attrs['file'], it.attrs['fn'], it.attrs.get('block'),
                                  int(it.attrs['ordinal']) if 'ordinal' in it.attrs else None)
                    if 'closure' in it.attrs:
                        real = locate_closure(real, int(it.attrs['closure']))
                it.real = real
                if it.sig is not None and norm_ws(real['sig']) != it.sig:
                    raise LostAnchor('item %s: real signature changed: %r (expected %r)' % (it.id, norm_ws(real['sig']), it.sig))
                # R0: comments inside the body are dropped (replaced by blanks, line structure kept), so that anchors and rewrites see code only
                body = blank_comments(real['body'])
                body = apply_rewrites(it, body, rewrites_log)
                body = apply_inserts(it, body)
                body = insert_loops(it, body)
                emit(['// ---- item %s  <- %s:%d  %s' % (it.id, real['file'], real['line'], norm_ws(real['sig']))], kind='marker', item=it.id)
                emit(it.contract, kind='contract', item=it.id, unit_line=it.lineno)
                emit(body.split('\n'), kind='body', item=it.id, real_file=real['file'], real_line=real['line'])
                vname = None
                if it.vacuity:
                    sib = vacuity_sibling(it)
                    if sib:
                        vname, sib_lines = sib
                        emit(sib_lines, kind='vacuity', item=it.id)
                rname = None
                if reach and it.attrs.get('reach', 'yes') != 'no' and it.mode != 'macro':
                    rs = reach_sibling(it, body)
                    if rs:
                        rname, rlines = rs
                        emit(rlines, kind='reach', item=it.id)
                items_info.append({'id': it.id, 'file': real['file'], 'line': real['line'], 'sig': norm_ws(real['sig']),
                                   'fn': it.attrs['fn'], 'props': it.props, 'vacuity_fn': vname, 'reach_fn': rname,
                                   'verus_fn': contract_fn_name(it)})
        emit(['} // verus!', 'fn main() {}'], kind='footer')
        return '\n'.join(out) + '\n', smap, {'rewrites': rewrites_log, 'items': items_info}


FN_NAME = re.compile(r'(?<![A-Za-z0-9_])fn\s+([A-Za-z_][A-Za-z0-9_]*)')


def contract_fn_name(it):
    for l in it.contract:
        m = FN_NAME.search(l.split('//')[0])
        if m:
            return m.group(1)
    raise UnitError('item %s: contract has no fn signature' % it.id)


def _split_contract(it):
    """Return (text up to the end of the requires clause, has_requires).  Drops ensures / returns / decreases clauses,
    also when the keyword sits on the same line as the signature."""
    keep = []
    has_req = False
    mode = 'sig'
    kw = re.compile(r'(?<![A-Za-z0-9_])(requires|ensures|returns|default_ensures|decreases|opens_invariants|no_unwind)(?![A-Za-z0-9_])')
    for l in it.contract:
        code = l.split('//')[0]
        out = ''
        pos = 0
        for m in kw.finditer(code):
            seg = code[pos:m.start()]
            if mode in ('sig', 'req'):
                out += seg
            w = m.group(1)
            if w == 'requires':
                mode = 'req'
                has_req = True
                out += 'requires'
            elif w in ('ensures', 'returns', 'default_ensures'):
                mode = 'ens'
            else:
                mode = 'other'
            pos = m.end()
        if mode in ('sig', 'req'):
            out += code[pos:]
        if out.strip():
            keep.append(out.rstrip())
    return keep, has_req


def vacuity_sibling(it):
    keep, has_req = _split_contract(it)
    if not has_req:
        return None
    name = contract_fn_name(it)
    vname = '__vac_' + name
    text = '\n'.join(keep)
    text = FN_NAME.sub(lambda m: 'fn ' + vname if m.group(1) == name else m.group(0), text, count=1)
    text = re.sub(r'#\[verifier::[a-z_]+(\([^)]*\))?\]', '', text)
    lines = text.split('\n') + ['{ vstd::pervasive::unreached() }']
    return vname, lines


def reach_sibling(it, body):
    """A copy of the whole item with `ensures false`: must be rejected (some exit is reachable under all
    assumed contracts used by the body)."""
    name = contract_fn_name(it)
    rname = '__reach_' + name
    keep, _ = _split_contract(it)
    text = '\n'.join(keep)
    text = FN_NAME.sub(lambda m: 'fn ' + rname if m.group(1) == name else m.group(0), text, count=1)
    lines = text.split('\n') + ['    ensures false,'] + body.split('\n')
    return rname, lines


def load_units(repo_root=None):
    """Hand-written units (units/*.rs) plus generated ones (units/*.gen.py, regenerated from the real source each run)."""
    import importlib.util
    import tempfile
    repo_root = repo_root or os.environ.get('VERIF_REPO', '/repo')
    d = os.path.join(VERIF, 'units')
    res = []
    for f in sorted(os.listdir(d)):
        if f.endswith('.rs') and not f.endswith('.kani.rs'):
            res.append(Unit(os.path.join(d, f)))
        elif f.endswith('.gen.py'):
            name = f[:-7]
            spec = importlib.util.spec_from_file_location('gen_' + name, os.path.join(d, f))
            mod = importlib.util.module_from_spec(spec)
            spec.loader.exec_module(mod)
            gd = tempfile.mkdtemp(prefix='rivia-verif-genunit-')
            gp = os.path.join(gd, name + '.rs')
            try:
                try:
                    text = mod.generate(repo_root)
                except (LostAnchor, OSError) as e:
                    text = '//@ unit %s\n//@ props %s\n//@ item lost file=/nonexistent fn=lost\nfn lost() {}\n//@ body\n' % (name, getattr(mod, 'PROPS', 'C13'))
                open(gp, 'w', encoding='utf-8').write(text)
                res.append(Unit(gp))
            finally:
                import shutil
                shutil.rmtree(gd, ignore_errors=True)
    return res
