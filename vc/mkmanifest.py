#!/usr/bin/env python3
"""Write /verif/MANIFEST.json from claims.json (single source for level texts, notes and the not_applicable list)."""
import json, os, subprocess
VERIF = os.path.dirname(os.path.dirname(os.path.abspath(__file__)))
claims = json.load(open(os.path.join(VERIF, 'claims.json')))
props = [json.loads(l) for l in open(os.path.join(VERIF, 'properties.jsonl'))]
fixes = subprocess.run(['git', '-C', '/repo', 'log', '--format=%H %s'], capture_output=True, text=True).stdout.split('\n')
fix_commits = [l.split(' ')[0] for l in fixes if ' fix:' in ' ' + l.split(' ', 1)[-1][:5] or l.split(' ', 1)[-1].startswith('fix:')]
m = {
    'version': 1,
    'setup_cmd': 'python3 vc/selfcheck.py',
    'hooks': {
        'guard': 'none',
        'enable': 'no hooks: contracts live in /verif and are spliced onto function bodies re-extracted from /repo on every run; Kani harness modules are appended under cfg(kani) to a scratch copy only',
        'baseline_off_cmd': 'cd /repo && cargo test --workspace --no-fail-fast --offline',
        'source_commits': fix_commits,
        'add_only': True,
    },
    'engines': [
        {'name': 'verus-splice', 'path': 'vc/', 'serves_properties': sorted(k for k, v in claims.items() if v.get('claimed')),
         'kind_free_text': 'contract-based deductive verification: Verus 0.2026.09.13 (Z3) on real function bodies re-extracted from /repo each run, contracts/loop invariants/lemmas from units/*.rs, assumed std contracts from prelude/*.rs'},
        {'name': 'kani-complete', 'path': 'vc/kani.py', 'serves_properties': ['C07', 'C12', 'C06', 'C11', 'C19'],
         'kind_free_text': 'Kani 0.68/CBMC loop-free harnesses over full-width symbolic integers (complete, counted) appended to a scratch copy; source of concrete counterexamples that are replayed on the real crate through driver/'},
    ],
    'checks': [],
    'not_applicable': [],
    'notes': 'Exit codes: 0 all obligations discharged; 1 VIOLATION; 2 undecided (lost anchor, unsupported construct after an edit, rlimit, vacuity) - never an alarm. See DESIGN.md.',
}
for p in props:
    pid = p['id']
    c = claims.get(pid, {})
    if c.get('claimed'):
        m['checks'].append({
            'property_id': pid,
            'quick_cmd': './check %s --tier quick' % pid,
            'thorough_cmd': './check %s --tier thorough' % pid,
            'evidence_file': 'evidence/%s.json' % pid,
            'replay_cmd_template': './check %s --replay {path}' % pid,
            'engine': 'verus-splice',
            'level_claimed': {'category': 'proof', 'text': c['level_text'], 'design_ref': c.get('design_ref', 'DESIGN.md section 6')},
            'level_note': c['level_note'],
            'technique': c.get('technique', 'contract-based deductive verification (Verus/Z3) of the real function bodies against pre/postconditions, loop invariants and lemmas'),
        })
    else:
        m['not_applicable'].append({'property_id': pid, 'reason': c.get('reason', 'not yet brought under contract')})
json.dump(m, open(os.path.join(VERIF, 'MANIFEST.json'), 'w'), indent=1)
print('MANIFEST.json: %d checks, %d not_applicable' % (len(m['checks']), len(m['not_applicable'])))
