#!/usr/bin/env python3
"""Apply every behaviour-preserving refactoring under /verif/refactors/<id>/patch.diff to a scratch worktree of /repo and run
`./check --all` against it.  A refactoring keeps every property, so the only acceptable answers are OK and UNDECIDED (exit 2:
the changed code is outside what the extractor can follow); a VIOLATION here is a false alarm of the machinery.
usage: refactor_run.py [id ...]   results: refactors/RESULTS.json"""
import json, os, re, subprocess, sys, tempfile
VERIF = os.path.dirname(os.path.dirname(os.path.abspath(__file__)))
ids = [a for a in sys.argv[1:] if not a.startswith('--')]
claims = json.load(open(os.path.join(VERIF, 'claims.json')))
allp = sorted(p for p, c in claims.items() if c.get('claimed'))
root = os.path.join(VERIF, 'refactors')
for rid in sorted(x for x in os.listdir(root) if os.path.exists(os.path.join(root, x, 'patch.diff'))):
    if ids and rid not in ids:
        continue
    d = os.path.join(root, rid)
    target = tempfile.mkdtemp(prefix='rivia-refrun-'); os.rmdir(target)
    subprocess.run(['git', '-C', '/repo', 'worktree', 'add', '-q', '--detach', target, 'HEAD'], check=True)
    env = dict(os.environ, VERIF_REPO=target, VERIF_NO_KANI_CEX='1')
    res = {}
    try:
        a = subprocess.run(['git', '-C', target, 'apply', os.path.join(d, 'patch.diff')], capture_output=True, text=True)
        if a.returncode != 0:
            print('%-10s does not apply: %s' % (rid, a.stderr.strip()[:100])); continue
        r = subprocess.run(['./check', '--all'], cwd=VERIF, capture_output=True, text=True, env=env)
        for l in r.stdout.split('\n'):
            m = re.match(r'(OK|VIOLATION|UNDECIDED) property=(C\d+)(.*)', l)
            if m and (m.group(1) != 'OK' or m.group(2) not in res):
                cur = res.get(m.group(2))
                if cur is None or cur['verdict'] == 'OK' or (cur['verdict'] == 'UNDECIDED' and m.group(1) == 'VIOLATION'):
                    res[m.group(2)] = {'verdict': m.group(1), 'line': l[:300]}
        obl = sorted(set(re.findall(r'failed obligation (\S+)', r.stdout)))
    finally:
        subprocess.run(['git', '-C', '/repo', 'worktree', 'remove', '--force', target])
    viol = sorted(p for p, x in res.items() if x['verdict'] == 'VIOLATION')
    und = sorted(p for p, x in res.items() if x['verdict'] == 'UNDECIDED')
    rp = os.path.join(root, 'RESULTS.json')
    allr = json.load(open(rp)) if os.path.exists(rp) else {}
    allr[rid] = {'false_alarms': viol, 'undecided': und, 'failed_obligations': obl,
                 'detail': {p: x['line'] for p, x in res.items() if x['verdict'] != 'OK'}}
    json.dump(allr, open(rp, 'w'), indent=1, sort_keys=True)
    print('%-10s false_alarms=%s undecided=%s %s' % (rid, ','.join(viol) or '-', ','.join(und) or '-', ','.join(obl)), flush=True)
