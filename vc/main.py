#!/usr/bin/env python3
"""./check <PROPERTY> [--tier quick|thorough] [--replay FILE] [--keep]   -- see DESIGN.md section 3.2
   ./check --baseline           regenerate baseline_obligations.json (only when everything verifies)
   ./check --gen UNIT           write the generated Verus file for UNIT to ./_gen/ and print its path
   ./check --all [--tier ..]    run every claimed property
Exit: 0 all obligations discharged; 1 VIOLATION printed; 2 undecided / broken machinery (never an alarm).
"""
import concurrent.futures as cf
import hashlib
import json
import os
import re
import shutil
import subprocess
import sys
import tempfile
import time

HERE = os.path.dirname(os.path.abspath(__file__))
sys.path.insert(0, HERE)
VERIF = os.path.dirname(HERE)

import unit as U          # noqa: E402
import verus as V         # noqa: E402
from extract import LostAnchor  # noqa: E402

REPO = os.environ.get('VERIF_REPO', '/repo')
BASELINE = os.path.join(VERIF, 'baseline_obligations.json')
KNOWN = os.path.join(VERIF, 'known_findings.txt')
CHEATS = ['assume(', 'admit(', 'external_body', 'assume_specification', 'uninterp', 'verifier::truncate', 'external_type_specification', 'verifier::external']


def log(*a):
    print(*a, flush=True)


def read_known():
    res = []
    if not os.path.exists(KNOWN):
        return res
    for l in open(KNOWN, encoding='utf-8'):
        l = l.strip()
        if not l or l.startswith('#'):
            continue
        m = re.match(r'^(open|fixed):\s+property=(\S+)\s+(.*)$', l)
        if m:
            res.append({'state': m.group(1), 'property': m.group(2), 'rest': m.group(3)})
    return res


def scan_trusted(gen_text):
    tags = {}
    counts = {c: 0 for c in CHEATS}
    for l in gen_text.split('\n'):
        m = re.search(r'//\s*ASSUMED\[([^\]]+)\]\s*:?\s*(.*)$', l)
        if m:
            txt = m.group(2).strip()
            cur = tags.get(m.group(1))
            if cur is None:
                tags[m.group(1)] = txt
            elif txt and txt not in cur:
                tags[m.group(1)] = cur + ' || ' + txt      # one tag may label several assumed statements: keep them all
        code = l.split('//')[0]
        for c in CHEATS:
            if c in code:
                counts[c] += 1
    return tags, counts


def process_unit(u, pid, scratch, tier, keep_dir=None):
    """Generate + verify one unit.  Returns a result dict."""
    r = {'unit': u.name, 'status': 'ok', 'reason': None, 'obligations': [], 'violations': [], 'undecided': [],
         'vacuity': [], 'reach': [], 'rewrites': [], 'items': [], 'trusted': {}, 'cheats': {}, 'cmd': '', 'wall_s': 0.0,
         'gen_path': None, 'diagnostics': []}
    try:
        text, smap, info = u.generate(REPO, reach=(tier == 'thorough'))
    except LostAnchor as e:
        r['status'] = 'undecided'
        r['reason'] = 'lost anchor: %s' % e
        return r
    except (U.UnitError, OSError, KeyError, ValueError) as e:
        r['status'] = 'undecided'
        r['reason'] = 'unit error: %s: %s' % (type(e).__name__, e)
        return r
    d = os.path.join(scratch, u.name)
    os.makedirs(d, exist_ok=True)
    gp = os.path.join(d, u.name + '.rs')
    open(gp, 'w', encoding='utf-8').write(text)
    r['gen_path'] = gp
    r['gen_text'] = text
    r['rewrites'] = info['rewrites']
    r['items'] = info['items']
    r['trusted'], r['cheats'] = scan_trusted(text)
    # an assume/admit outside the prelude is an error of the machinery
    for n, l in enumerate(text.split('\n')):
        code = l.split('//')[0]
        if ('assume(' in code or 'admit(' in code) and smap[n].get('kind') not in ('prelude',):
            r['status'] = 'undecided'
            r['reason'] = 'assume/admit outside prelude at generated line %d' % (n + 1)
            return r
    rlimit = 60 if tier == 'thorough' else 30
    vr = V.run(gp, rlimit=rlimit)
    r['cmd'] = 'cd <scratch>/%s && %s' % (u.name, vr['cmd'])
    r['wall_s'] = vr['wall_s']
    r['diagnostics'] = vr['diagnostics']
    if vr['summary'] is None:
        r['status'] = 'undecided'
        r['reason'] = 'verus produced no JSON result (rc=%s): %s' % (vr['rc'], vr['raw_err'][:400])
        return r
    fidxq = V.fn_index_q(text)
    # a short name declared more than once outside the prelude (MemfsFile::write and the free fn write) is replaced by its qualified
    # name everywhere below, so that a failure is charged to the right item
    cnt = {}
    for (ln, nm, q) in fidxq:
        if smap[ln - 1].get('kind') != 'prelude':
            cnt[nm] = cnt.get(nm, 0) + 1
    amb = {nm for nm, c in cnt.items() if c > 1}
    key_of_line = {ln: (q if nm in amb else nm) for (ln, nm, q) in fidxq}
    fidx = [(ln, key_of_line[ln]) for (ln, nm, q) in fidxq]
    quals = {q for (ln, nm, q) in fidxq if nm in amb}
    item_by_fn = {}
    for (ln, nm, q) in fidxq:
        iid = smap[ln - 1].get('item')
        if iid:
            for i in info['items']:
                if i['id'] == iid and i['verus_fn'] == nm:
                    item_by_fn[key_of_line[ln]] = i
    for i in info['items']:
        item_by_fn.setdefault(i['verus_fn'], i)

    def key_of_fn(full):
        parts = full.split('::')
        q = '::'.join(parts[-2:]) if len(parts) >= 2 else parts[-1]
        return q if q in quals else parts[-1]
    # per item: the properties named by at least one clause tag of its contract/body.  A property listed on the item but on none
    # of its clauses depends on the WHOLE contract (it is used through a restated/assumed contract elsewhere): any failed clause counts.
    tagged = {}
    for m in smap:
        if m.get('item') and m.get('clause_props'):
            tagged.setdefault(m['item'], set()).update(m['clause_props'])
    vac_fns = {i['vacuity_fn']: i for i in info['items'] if i.get('vacuity_fn')}
    reach_fns = {i['reach_fn']: i for i in info['items'] if i.get('reach_fn')}

    # compile-level errors => undecided
    compile_errs = []
    per_fn_diags = {}
    for dg in vr['diagnostics']:
        if dg['level'] != 'error':
            continue
        cls = V.classify_message(dg['message'])
        if cls == 'summary':
            continue
        fns = []
        for sp in dg['spans']:
            f = V.enclosing_fn(fidx, sp['line'])
            if f:
                fns.append((f, sp))
        if cls == 'compile':
            compile_errs.append(dg)
            continue
        dg['_class'] = cls
        # attribute to the failed function: prefer spans inside functions that failed in the breakdown
        failed = {key_of_fn(f['function']) for f in vr['functions'] if not f['success']}
        cand = [f for f, _ in fns if f in failed] or [f for f, _ in fns]
        tgt = cand[0] if cand else None
        # clause: any span on a line carrying a clause tag
        clause, cprops = None, None
        for sp in dg['spans']:
            for ln in range(sp['line'], sp['line_end'] + 1):
                if 0 < ln <= len(smap):
                    m = smap[ln - 1]
                    if m.get('clause') and m.get('kind') in ('contract', 'unit', 'body') and (sp['primary'] or sp['line_end'] - sp['line'] < 3):
                        clause = m['clause'] if clause is None or m['clause'] in clause else clause + '+' + m['clause']
                        cprops = sorted(set((cprops or []) + (m.get('clause_props') or []))) or None
        dg['_fn'] = tgt
        dg['_clause'] = clause
        dg['_clause_props'] = cprops
        # real location: a span inside an item body
        for sp in dg['spans']:
            m = smap[sp['line'] - 1] if 0 < sp['line'] <= len(smap) else {}
            if m.get('kind') == 'body':
                dg['_real'] = '%s:~%d `%s`' % (m['real_file'], m['real_line'] + m['off'], sp['text'])
                break
        per_fn_diags.setdefault(tgt, []).append(dg)
    if compile_errs or vr['summary'].get('encountered-vir-error'):
        r['status'] = 'undecided'
        msgs = ['%s @gen:%s' % (d['message'], [s['line'] for s in d['spans']][:2]) for d in compile_errs[:6]]
        r['reason'] = 'generated file does not type-check (unsupported construct / changed identifiers?): ' + ' | '.join(msgs)
        return r
    if not vr['functions'] and vr['summary'].get('verified', 0) == 0:
        r['status'] = 'undecided'
        r['reason'] = 'zero obligations generated'
        return r

    # functions declared only inside prelude text are part of the trusted shim layer, not obligations of a property
    nonprelude = set()
    for (ln, nm) in fidx:
        if smap[ln - 1].get('kind') != 'prelude':
            nonprelude.add(nm)
    for f in vr['functions']:
        short = key_of_fn(f['function'])
        if short not in nonprelude and short not in u.obligations:
            if not f['success']:
                r['undecided'].append('prelude function %s does not verify (machinery error)' % short)
            continue
        ob = {'name': '%s::%s' % (u.name, short), 'fn': short, 'success': f['success'], 'ms': f['ms'], 'rlimit': f['rlimit'],
              'backend': 'verus/z3'}
        diags = per_fn_diags.get(short, [])
        vshort = short.split('::')[-1]
        if vshort in vac_fns:
            it = vac_fns[vshort]
            ob['kind'] = 'vacuity'
            ob['props'] = it['props']
            r['vacuity'].append({'item': it['id'], 'rejected': not f['success']})
            if f['success']:
                r['undecided'].append('VACUOUS: preconditions of %s::%s are contradictory' % (u.name, it['id']))
            continue
        if vshort in reach_fns:
            it = reach_fns[vshort]
            r['reach'].append({'item': it['id'], 'rejected': not f['success']})
            if f['success']:
                r['undecided'].append('VACUOUS: no exit of %s::%s is reachable under its assumptions' % (u.name, it['id']))
            continue
        if short in item_by_fn:
            it = item_by_fn[short]
            ob['kind'] = 'item'
            ob['props'] = it['props']
            ob['tagged_props'] = sorted(tagged.get(it['id'], set()))
            ob['real'] = '%s:%d' % (it['file'], it['line'])
        else:
            o = None
            for k, v in u.obligations.items():
                if short == k:
                    o = v
            ob['kind'] = 'lemma'
            ob['props'] = (o['props'] if o and o['props'] else list(u.props))
        ob['clauses_failed'] = []
        if not f['success']:
            und = [d for d in diags if d.get('_class') == 'undecided']
            ver = [d for d in diags if d.get('_class') == 'verification']
            if und and not ver:
                r['undecided'].append('%s: %s' % (ob['name'], und[0]['message']))
                ob['status'] = 'undecided'
            else:
                ob['status'] = 'failed'
                ob['diags'] = ver
        else:
            ob['status'] = 'discharged'
        r['obligations'].append(ob)
    # failed functions that never appear in the breakdown but have diagnostics (defensive)
    seen = {o['fn'] for o in r['obligations']}
    for fn, diags in per_fn_diags.items():
        if fn and fn not in seen and fn.split('::')[-1] not in vac_fns and fn.split('::')[-1] not in reach_fns:
            it = item_by_fn.get(fn)
            ver = [d for d in diags if d.get('_class') == 'verification']
            if ver:
                r['obligations'].append({'name': '%s::%s' % (u.name, fn), 'fn': fn, 'success': False, 'ms': 0, 'rlimit': 0,
                                         'backend': 'verus/z3', 'kind': 'item' if it else 'lemma',
                                         'props': it['props'] if it else list(u.props), 'status': 'failed', 'diags': ver,
                                         'clauses_failed': []})
            else:
                r['undecided'].append('%s::%s: %s' % (u.name, fn, diags[0]['message']))
    if r['undecided']:
        r['status'] = 'undecided'
        r['reason'] = '; '.join(r['undecided'][:4])
    return r


def relevant(ob, pid):
    return pid in ob.get('props', [])


def diag_relevant(dg, pid, ob):
    cp = dg.get('_clause_props')
    if cp:
        if pid in cp:
            return True
        # pid is served by this item only as a dependency (no clause of the item names it): every clause matters
        if ob.get('kind') == 'item' and pid in ob.get('props', []) and pid not in ob.get('tagged_props', [pid]):
            return True
        # safety-kind diagnostics are always charged to C12 when the function serves C12
        return pid == 'C12' and V.is_safety(dg['message']) and 'C12' in ob.get('props', [])
    return True


def run_property(pid, tier, keep=False, seed=0):
    t0 = time.time()
    units = [u for u in U.load_units() if pid in u.all_props()]
    claims = json.load(open(os.path.join(VERIF, 'claims.json')))
    claim = claims.get(pid, {})
    if not units:
        log('UNDECIDED property=%s no unit serves this property' % pid)
        return 2
    scratch = tempfile.mkdtemp(prefix='rivia-verif-%s-' % pid)
    results = []
    try:
        with cf.ThreadPoolExecutor(max_workers=min(14, len(units))) as ex:
            futs = [ex.submit(process_unit, u, pid, scratch, tier) for u in units]
            for f in futs:
                results.append(f.result())
        base = json.load(open(BASELINE)) if os.path.exists(BASELINE) else {}
        base_set = set(base.get('obligations', []))
        violations = []
        undecided = []
        obligations = []
        for r in results:
            if r['status'] == 'undecided':
                undecided.append('%s: %s' % (r['unit'], r['reason']))
            for ob in r['obligations']:
                if not relevant(ob, pid):
                    continue
                if ob['status'] == 'failed':
                    rel = [d for d in ob.get('diags', []) if diag_relevant(d, pid, ob)]
                    if not rel and ob.get('diags'):
                        # every failing clause is tagged for other properties only
                        ob = dict(ob)
                        ob['status'] = 'discharged-for-this-property'
                        obligations.append(ob)
                        continue
                    if ob['name'] not in base_set:
                        undecided.append('%s fails but is not in baseline_obligations.json (never discharged on the pinned tree)' % ob['name'])
                        continue
                    violations.append((r, ob, rel))
                obligations.append(ob)
        # Kani harnesses (complete ones count as obligations); run in thorough tier, or to get a counterexample
        kani_res = []
        import kani as K
        kunits = K.harness_units(pid)
        need_cex = bool(violations)
        if kunits and (tier == 'thorough' or (need_cex and not os.environ.get('VERIF_NO_KANI_CEX'))):
            kani_res = K.run_units(kunits, pid, REPO, only_failed_units=None)
            for kr in kani_res:
                if kr['status'] == 'undecided':
                    undecided.append('kani %s: %s' % (kr['harness'], kr['reason']))
                    continue
                ob = {'name': 'kani::%s' % kr['harness'], 'fn': kr['harness'], 'success': kr['status'] == 'ok', 'ms': int(kr['wall_s'] * 1000),
                      'backend': 'kani/cbmc', 'kind': 'kani-' + kr['completeness'], 'props': kr['props'],
                      'status': 'discharged' if kr['status'] == 'ok' else 'failed', 'bounded': kr['completeness'] != 'complete',
                      'bound': kr.get('bound'), 'cex': kr.get('cex')}
                if ob['status'] == 'failed':
                    if ob['name'] not in base_set:
                        undecided.append('%s fails but is not in baseline' % ob['name'])
                    else:
                        import witness as W0
                        violations.append(({'unit': 'kani', 'gen_text': kr.get('output', ''), 'cmd': kr['cmd'], 'rewrites': []}, ob,
                                           [{'message': kr.get('failed_checks', 'kani harness failed'), 'spans': [], 'rendered': kr.get('output', '')[-6000:], '_clause': kr['harness'], '_cex': W0.from_kani(kr, REPO) if kr.get('cex') else None}]))
                obligations.append(ob)

        # ---- thorough tier: audit the executable part of the assumed std contracts against the real std
        audit = None
        if tier == 'thorough':
            audit = run_audit(scratch)
            if audit['failures'] != 0:
                undecided.append('prelude assumption audit disagrees with real std: %s' % '; '.join(audit['lines'][:3]))

        # ---- report
        rc = 0
        replay_paths = []
        if violations:
            rc = 1
            os.makedirs(os.path.join(VERIF, 'replays'), exist_ok=True)
            import witness as W
            for (r, ob, diags) in violations:
                stamp = '%s-%s-%d' % (pid, re.sub(r'[^A-Za-z0-9_]+', '_', ob['name']), int(time.time()))
                rp = os.path.join(VERIF, 'replays', stamp + '.json')
                cex = None
                for d in diags:
                    if d.get('_cex'):
                        cex = d['_cex']
                if cex is None:
                    # ask kani results of the same run, then witness search
                    for kr in kani_res:
                        if kr.get('cex') and set(kr['props']) & {pid} and ob['fn'] in kr.get('items', [ob['fn']]):
                            cex = W.from_kani(kr, REPO)
                            break
                if cex is None and not os.environ.get('VERIF_NO_KANI_CEX'):
                    try:
                        cex = W.search(r['unit'], ob, REPO, seed)
                    except Exception as e:  # witness search is best effort only
                        cex = None
                        log('note: witness search failed: %s' % e)
                change = None
                if cex is None and r['unit'].startswith(('memfs_', 'entries_', 'entry_')) and not os.environ.get('VERIF_NO_KANI_CEX'):
                    try:
                        import fsdiff
                        change = fsdiff.find(REPO, ob['fn'])
                    except Exception as e:
                        log('note: behaviour-change search failed: %s' % e)
                genp = None
                if r.get('gen_text'):
                    genp = os.path.join(VERIF, 'replays', stamp + '.generated.rs')
                    open(genp, 'w', encoding='utf-8').write(r['gen_text'])
                doc = {
                    'property': pid, 'obligation': ob['name'], 'backend': ob['backend'], 'real_item': ob.get('real'),
                    'failed_clauses': [{'message': d['message'], 'clause': d.get('_clause'), 'real_location': d.get('_real'),
                                        'spans': d.get('spans'), 'verifier_output': d.get('rendered', '')} for d in diags],
                    'checker_cmd': r.get('cmd'), 'generated_file': genp, 'rewrites_applied': r.get('rewrites'),
                    'failing_input': cex, 'failing_input_found': cex is not None,
                    'behaviour_change_vs_HEAD': change,
                    'how_to_replay': (cex or {}).get('replay_cmd') if cex else 'cd /verif && ./check %s   (re-runs the verifier on the current /repo tree; the obligation above is the one that fails)' % pid,
                }
                json.dump(doc, open(rp, 'w'), indent=1)
                replay_paths.append(rp)
                for d in diags[:3]:
                    log('  failed obligation %s clause=%s: %s %s' % (ob['name'], d.get('_clause'), d['message'], d.get('_real') or ''))
                log('VIOLATION property=%s replay=%s%s' % (pid, rp, '' if cex else ' no-failing-input-found'))
        elif undecided:
            rc = 2
            for uu in undecided:
                log('UNDECIDED property=%s %s' % (pid, uu))
        known_printed = []
        for k in read_known():
            if k['property'] == pid and k['state'] == 'open':
                log('KNOWN-FINDING: property=%s %s' % (pid, k['rest']))
                known_printed.append(k['rest'])

        # ---- evidence
        proved = [o for o in obligations if o['status'].startswith('discharged') and not o.get('bounded')]
        bounded = [o for o in obligations if o.get('bounded')]
        counted = [o for o in obligations if not o.get('bounded')]
        trusted = {}
        cheats = {}
        rewrites = []
        funcs = []
        cmds = []
        vac = []
        reach = []
        for r in results:
            for k, v in r['trusted'].items():
                if k not in trusted:
                    trusted[k] = v
                else:
                    for part in v.split(' || '):
                        if part and part not in trusted[k]:
                            trusted[k] += ' || ' + part
            for k, v in r['cheats'].items():
                cheats[k] = cheats.get(k, 0) + v
            rewrites += [dict(x, unit=r['unit']) for x in r['rewrites']]
            for it in r['items']:
                if pid in it['props']:
                    funcs.append('%s:%d %s (unit %s)' % (it['file'], it['line'], it['fn'], r['unit']))
            if r['cmd']:
                cmds.append(r['cmd'])
            vac += [dict(v, unit=r['unit']) for v in r['vacuity']]
            reach += [dict(v, unit=r['unit']) for v in r['reach']]
        for kr in kani_res:
            cmds.append(kr['cmd'])
        samples = []
        for r in results:
            gl = (r.get('gen_text') or '').split('\n')
            for it in r['items']:
                if pid in it['props'] and len(samples) < 12:
                    # the contract text of the item as a sample obligation
                    pass
        for o in obligations[:40]:
            samples.append({'obligation': o['name'], 'kind': o.get('kind'), 'backend': o['backend'], 'status': o['status'], 'ms': o.get('ms'), 'real': o.get('real')})
        ev = {
            'property_id': pid, 'tier': tier, 'seed': seed, 'level': 'proof',
            'coverage': {
                'obligations': len(counted), 'discharged': len(proved),
                'checker_cmd': ' ;; '.join(cmds) if cmds else 'none',
                'trusted_base': sorted('%s: %s' % (k, v) for k, v in trusted.items()) + ['verus 0.2026.09.13 + z3', 'rustc type checker', 'the /verif extractor+splicer (rewrites logged below)'] + (['kani 0.68 / cbmc 6.11'] if kani_res else []),
                'obligation_unit': 'one obligation = one Verus function-level proof (exec fn body against its contract incl. all loop invariants, panic-freedom and termination obligations inside it, or one lemma) or one complete Kani harness; vacuity/reachability siblings are checked but not counted',
                'functions_under_contract': funcs,
                'per_function': [{'name': o['name'], 'backend': o['backend'], 'status': o['status'], 'ms': o.get('ms'), 'rlimit': o.get('rlimit')} for o in obligations],
                'solver_ms_total': sum(o.get('ms') or 0 for o in obligations),
                'bounded_checks': [{'name': o['name'], 'bound': o.get('bound'), 'status': o['status']} for o in bounded],
                'unverified_markers_in_generated_files': cheats,
                'rewrites_applied': rewrites,
                'vacuity_checks': {'count': len(vac), 'all_rejected': all(v['rejected'] for v in vac), 'items': vac},
                'reachability_checks': {'count': len(reach), 'all_rejected': all(v['rejected'] for v in reach)},
                'uncovered_clauses': claim.get('uncovered', []),
                'proved_clauses': claim.get('proved', []),
                'known_findings_printed': known_printed,
                'undecided': undecided,
                'assumption_audit': audit,
                'samples': samples,
                'units': [r['unit'] for r in results],
            },
            'assumptions': sorted('%s: %s' % (k, v) for k, v in trusted.items()) + claim.get('assumptions', []),
            'wall_s': round(time.time() - t0, 2),
            'violations': len(violations),
        }
        # evidence/<id>.json always describes a run against /repo itself; runs against another tree (VERIF_REPO) go to _gen/
        evdir = os.path.join(VERIF, 'evidence') if os.path.realpath(REPO) == '/repo' else os.path.join(VERIF, '_gen', 'evidence-other-tree')
        os.makedirs(evdir, exist_ok=True)
        json.dump(ev, open(os.path.join(evdir, pid + '.json'), 'w'), indent=1)
        if rc == 0:
            log('OK property=%s tier=%s obligations=%d discharged=%d bounded=%d units=%s wall=%.1fs' % (
                pid, tier, len(counted), len(proved), len(bounded), ','.join(r['unit'] for r in results), time.time() - t0))
        return rc
    finally:
        if keep:
            log('scratch kept: %s' % scratch)
        else:
            shutil.rmtree(scratch, ignore_errors=True)


def run_audit(scratch):
    """/verif/audit: executable re-statement of the ASSUMED[...] std contracts compared with real std on enumerated inputs."""
    import subprocess
    env = dict(os.environ, CARGO_TARGET_DIR=os.path.join(scratch, 'audit_target'), CARGO_NET_OFFLINE='true')
    t0 = time.time()
    try:
        p = subprocess.run(['cargo', 'run', '--offline', '-q', '--release'], cwd=os.path.join(VERIF, 'audit'), env=env,
                           capture_output=True, text=True, timeout=900)
    except subprocess.TimeoutExpired:
        return {'checks': 0, 'failures': -1, 'lines': ['timeout'], 'wall_s': time.time() - t0}
    m = re.search(r'AUDIT checks=(\d+) failures=(\d+)', p.stdout)
    if not m:
        return {'checks': 0, 'failures': -1, 'lines': (p.stdout + p.stderr).strip().split('\n')[-5:], 'wall_s': time.time() - t0}
    return {'checks': int(m.group(1)), 'failures': int(m.group(2)), 'lines': [l for l in p.stdout.split('\n') if l.startswith('PRELUDE-AUDIT-FAIL')],
            'wall_s': round(time.time() - t0, 1), 'what': 'std::path components/push/pop/join/parent/file_name/collect/as_path/canonical form, str byte/char/boundary/prefix/suffix/contains/split/find/trim_start_matches, Vec iterator nth/rev/last/count: prelude spec functions vs real std on all strings up to length 4-6 over small alphabets'}


def baseline():
    units = U.load_units()
    scratch = tempfile.mkdtemp(prefix='rivia-verif-base-')
    names = []
    bad = False
    try:
        with cf.ThreadPoolExecutor(max_workers=14) as ex:
            futs = [ex.submit(process_unit, u, None, scratch, 'quick') for u in units]
            for f in futs:
                r = f.result()
                if r['status'] != 'ok':
                    log('unit %s: %s %s' % (r['unit'], r['status'], r['reason']))
                    bad = True
                for ob in r['obligations']:
                    if ob['status'] == 'discharged':
                        names.append(ob['name'])
                    else:
                        log('NOT discharged: %s' % ob['name'])
                        for d in ob.get('diags', [])[:5]:
                            log('    %s clause=%s %s' % (d['message'], d.get('_clause'), d.get('_real') or [s['line'] for s in d['spans']]))
                        bad = True
        import kani as K
        for h in K.all_harnesses():
            names.append('kani::' + h['name'])
    finally:
        shutil.rmtree(scratch, ignore_errors=True)
    if bad and '--force' not in sys.argv:
        log('baseline NOT written (failures above)')
        return 2
    json.dump({'note': 'obligations discharged on the pinned tree (after the fix: commits); a failing obligation not listed here is reported as undecided, never as a violation',
               'obligations': sorted(set(names))}, open(BASELINE, 'w'), indent=1)
    log('baseline written: %d obligations' % len(set(names)))
    return 0


def gen(unit_name, reach=False):
    for u in U.load_units():
        if u.name == unit_name:
            text, smap, info = u.generate(REPO, reach=reach)
            d = os.path.join(VERIF, '_gen')
            os.makedirs(d, exist_ok=True)
            p = os.path.join(d, unit_name + '.rs')
            open(p, 'w').write(text)
            print(p)
            return 0
    print('no such unit')
    return 2


def main():
    a = sys.argv[1:]
    tier = os.environ.get('VERIF_TIER', 'quick')
    seed = int(os.environ.get('VERIF_SEED', '0') or 0)
    if '--tier' in a:
        tier = a[a.index('--tier') + 1]
    if not a:
        print(__doc__)
        return 2
    if a[0] == '--baseline':
        return baseline()
    if a[0] == '--unit':
        # developer view: verify one unit, print every failing obligation with its diagnostics
        scratch = tempfile.mkdtemp(prefix='rivia-verif-dev-')
        try:
            for u in U.load_units():
                if u.name == a[1]:
                    r = process_unit(u, None, scratch, tier)
                    print('unit %s: %s %s (%.1fs)' % (u.name, r['status'], r['reason'] or '', r['wall_s']))
                    ok = 0
                    for ob in r['obligations']:
                        if ob['status'] == 'discharged':
                            ok += 1
                            continue
                        print('  NOT DISCHARGED %s' % ob['name'])
                        for d in ob.get('diags', []):
                            print('     %s clause=%s %s' % (d['message'], d.get('_clause'), d.get('_real') or ''))
                            for sp in d['spans'][:3]:
                                print('        gen:%d %s' % (sp['line'], sp['text'][:150]))
                    print('  discharged %d/%d, vacuity %d (all rejected: %s)' % (ok, len(r['obligations']), len(r['vacuity']), all(v['rejected'] for v in r['vacuity'])))
                    if r['status'] == 'undecided':
                        for d in r['diagnostics']:
                            if d['level'] == 'error' and V.classify_message(d['message']) == 'compile':
                                print('  COMPILE: %s' % d['rendered'][:700])
                    return 0 if r['status'] == 'ok' and ok == len(r['obligations']) else 1
        finally:
            shutil.rmtree(scratch, ignore_errors=True)
        return 2
    if a[0] == '--gen':
        return gen(a[1], reach='--reach' in a)
    if a[0] == '--all':
        claims = json.load(open(os.path.join(VERIF, 'claims.json')))
        worst = 0
        for pid in sorted(claims):
            if claims[pid].get('claimed', True):
                worst = max(worst, run_property(pid, tier, seed=seed))
        return worst
    if '--replay' in a:
        rp = a[a.index('--replay') + 1]
        doc = json.load(open(rp))
        print(json.dumps({k: doc[k] for k in ('property', 'obligation', 'failing_input', 'how_to_replay')}, indent=1))
        cex = doc.get('failing_input') or {}
        if cex.get('replay_cmd'):
            return subprocess.call(cex['replay_cmd'], shell=True)
        return run_property(doc['property'], tier, seed=seed)
    return run_property(a[0], tier, keep='--keep' in a, seed=seed)


if __name__ == '__main__':
    sys.exit(main())
