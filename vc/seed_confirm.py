#!/usr/bin/env python3
"""Confirm a seeded fault in a scratch worktree and store it under /verif/seeded/<id>/.
usage: seed_confirm.py <id> <property> <change.diff> <demo.rs> <note.txt>
Checks: (1) demo exits 0 on the unchanged tree, (2) the diff applies, (3) the lib test-suite result equals the baseline
(224 pass, only sys::user::tests::test_user_ids fails), (4) demo exits non-zero with the change."""
import json, os, re, shutil, subprocess, sys, tempfile

sid, prop, diff, demo, note = sys.argv[1:6]
VERIF = os.path.dirname(os.path.dirname(os.path.abspath(__file__)))
wt = tempfile.mkdtemp(prefix='rivia-confirm-')
os.rmdir(wt)
env = dict(os.environ, CARGO_NET_OFFLINE='true', CARGO_TARGET_DIR=os.path.join(wt, 'target'))
ran = []


def sh(cmd, **kw):
    ran.append(cmd)
    return subprocess.run(cmd, shell=True, cwd=wt, env=env, capture_output=True, text=True, **kw)


res = {'id': sid, 'property': prop}
try:
    subprocess.run(['git', '-C', '/repo', 'worktree', 'add', '-q', '--detach', wt, 'HEAD'], check=True)
    os.makedirs(os.path.join(wt, 'examples'), exist_ok=True)
    shutil.copy(demo, os.path.join(wt, 'examples', 'demo.rs'))
    r0 = sh('cargo run --offline -q --example demo')
    res['demo_unchanged_rc'] = r0.returncode
    ra = sh('git apply %s' % os.path.abspath(diff))
    res['apply_rc'] = ra.returncode
    rt = sh('cargo test --offline --lib 2>&1 | tail -15')
    m = re.search(r'(\d+) passed; (\d+) failed', rt.stdout)
    res['tests'] = m.group(0) if m else rt.stdout[-300:]
    failed = re.findall(r'^\s+(\S+::\S+)$', rt.stdout, re.M)
    res['tests_failed'] = sorted(set(failed))
    r1 = sh('cargo run --offline -q --example demo')
    res['demo_changed_rc'] = r1.returncode
    res['demo_changed_tail'] = (r1.stdout + r1.stderr)[-400:]
    ok = (r0.returncode == 0 and ra.returncode == 0 and m and m.group(1) == '224' and m.group(2) == '1'
          and res['tests_failed'] == ['sys::user::tests::test_user_ids'] and r1.returncode != 0)
    res['confirmed'] = bool(ok)
finally:
    subprocess.run(['git', '-C', '/repo', 'worktree', 'remove', '--force', wt])
    shutil.rmtree(wt, ignore_errors=True)
if res.get('confirmed'):
    d = os.path.join(VERIF, 'seeded', sid)
    os.makedirs(d, exist_ok=True)
    shutil.copy(diff, os.path.join(d, 'patch.diff'))
    shutil.copy(demo, os.path.join(d, 'demo.rs'))
    meta = {'id': sid, 'breaks_property': prop, 'needs_to_manifest': open(note).read().strip(), 'source': 'independent sub-agent given only the property text and a scratch worktree',
            'confirmed_by': ran, 'confirmation': {k: res[k] for k in ('demo_unchanged_rc', 'tests', 'tests_failed', 'demo_changed_rc')},
            'base_commit': subprocess.run(['git', '-C', '/repo', 'rev-parse', '--short', 'HEAD'], capture_output=True, text=True).stdout.strip()}
    json.dump(meta, open(os.path.join(d, 'meta.json'), 'w'), indent=1)
print(json.dumps(res))
sys.exit(0 if res.get('confirmed') else 1)
