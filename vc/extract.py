"""Locate real Rust items in /repo's working tree and return their signature and body text.

The extractor is deliberately small: a lexer that masks comments / string / char literals (so that
brace matching and regex searches operate on code only) and a brace matcher.  Positions in the masked
text are identical to positions in the original text.
"""
import re


class LostAnchor(Exception):
    """The real item (or a rewrite/insert anchor) could not be found exactly as declared."""


def blank_comments(src):
    """The source with every comment replaced by spaces (newlines kept, string/char literals untouched): rule R0, comments are dropped."""
    return mask(src, only_comments=True)


def mask(src, only_comments=False):
    """Return a string of the same length where comments and the *contents* of string/char literals are
    replaced by spaces (newlines kept)."""
    out = list(src)
    n = len(src)
    i = 0

    def blank(a, b, comment=False):
        if only_comments and not comment:
            return
        for k in range(a, b):
            if out[k] != '\n':
                out[k] = ' '

    while i < n:
        c = src[i]
        if c == '/' and i + 1 < n and src[i + 1] == '/':
            j = src.find('\n', i)
            j = n if j < 0 else j
            blank(i, j, True)
            i = j
        elif c == '/' and i + 1 < n and src[i + 1] == '*':
            depth, j = 1, i + 2
            while j < n and depth:
                if src.startswith('/*', j):
                    depth += 1
                    j += 2
                elif src.startswith('*/', j):
                    depth -= 1
                    j += 2
                else:
                    j += 1
            blank(i, j, True)
            i = j
        elif c == '"' or (c in 'rb' and re.match(r'(?:br|r|b)#*"', src[i:i + 8]) and (i == 0 or not (src[i - 1].isalnum() or src[i - 1] == '_'))):
            m = re.match(r'(br|r|b)?(#*)"', src[i:i + 8])
            raw = m.group(1) in ('r', 'br')
            hashes = m.group(2)
            j = i + m.end()
            if raw:
                end = src.find('"' + hashes, j)
                end = n if end < 0 else end
                blank(j, end)
                i = end + 1 + len(hashes)
            else:
                while j < n and src[j] != '"':
                    j += 2 if src[j] == '\\' else 1
                blank(i + m.end(), j)
                i = j + 1
        elif c == "'":
            # char literal or lifetime
            if i + 1 < n and src[i + 1] == '\\':
                j = src.find("'", i + 3)
                j = n if j < 0 else j
                blank(i + 1, j)
                i = j + 1
            elif i + 2 < n and src[i + 2] == "'":
                blank(i + 1, i + 2)
                i += 3
            else:
                i += 1
        else:
            i += 1
    return ''.join(out)


def match_brace(masked, open_pos):
    """masked[open_pos] is '{', '(' or '['; return index of the matching closer."""
    pairs = {'{': '}', '(': ')', '[': ']'}
    o = masked[open_pos]
    c = pairs[o]
    depth = 0
    for k in range(open_pos, len(masked)):
        ch = masked[k]
        if ch == o:
            depth += 1
        elif ch == c:
            depth -= 1
            if depth == 0:
                return k
    raise LostAnchor('unbalanced %s at %d' % (o, open_pos))


def norm_ws(s):
    return re.sub(r'\s+', ' ', s).strip()


def depth_at(masked, start, pos):
    d = 0
    for ch in masked[start:pos]:
        if ch == '{':
            d += 1
        elif ch == '}':
            d -= 1
    return d


def find_block(src, masked, header, lo=0, hi=None):
    """Find `header {` (whitespace-normalised comparison of the text preceding the `{`), e.g. an impl
    header `impl io::Read for MemfsFile`, a `macro_rules! name`, or `mod x`.  Returns (open, close)."""
    hi = len(src) if hi is None else hi
    want = norm_ws(header)
    first = re.escape(want.split(' ')[0])
    hits = []
    for m in re.finditer(r'(?<![A-Za-z0-9_])' + first + r'(?![A-Za-z0-9_])', masked[lo:hi]):
        s = lo + m.start()
        b = masked.find('{', s, hi)
        if b < 0:
            continue
        semi = masked.find(';', s, b)
        if semi >= 0:
            continue
        if norm_ws(src[s:b]) == want:
            hits.append((b, match_brace(masked, b)))
    if len(hits) != 1:
        raise LostAnchor('block header %r found %d times' % (header, len(hits)))
    return hits[0]


def find_fn(src, masked, name, lo=0, hi=None, ordinal=None):
    """Find `fn name` in [lo,hi) at the shallowest depth it occurs; returns dict(sig, body, line,
    start, body_open, body_close).  sig excludes the leading attributes/doc comments."""
    hi = len(src) if hi is None else hi
    hits = []
    for m in re.finditer(r'(?<![A-Za-z0-9_])fn\s+' + re.escape(name) + r'(?![A-Za-z0-9_])', masked[lo:hi]):
        s = lo + m.start()
        hits.append((depth_at(masked, lo, s), s))
    if not hits:
        raise LostAnchor('fn %s not found' % name)
    mind = min(d for d, _ in hits)
    hits = [s for d, s in hits if d == mind]
    if ordinal is not None:
        if ordinal > len(hits):
            raise LostAnchor('fn %s: ordinal %d > %d' % (name, ordinal, len(hits)))
        hits = [hits[ordinal - 1]]
    if len(hits) != 1:
        raise LostAnchor('fn %s found %d times at depth %d' % (name, len(hits), mind))
    s = hits[0]
    # extend the signature start backwards over qualifiers (pub, pub(crate), const, unsafe, async)
    line_start = masked.rfind('\n', 0, s) + 1
    sig_start = line_start + (len(masked[line_start:s]) - len(masked[line_start:s].lstrip()))
    # find the body `{` : first `{` at paren/bracket/angle depth 0 after the fn keyword
    k = s
    pd = 0
    while k < hi:
        ch = masked[k]
        if ch in '([':
            pd += 1
        elif ch in ')]':
            pd -= 1
        elif ch == '{' and pd == 0:
            break
        elif ch == ';' and pd == 0:
            raise LostAnchor('fn %s has no body' % name)
        k += 1
    close = match_brace(masked, k)
    return {
        'sig': src[sig_start:k].rstrip(),
        'body': src[k:close + 1],
        'line': src.count('\n', 0, s) + 1,
        'start': sig_start,
        'body_open': k,
        'body_close': close,
    }


def locate(repo_root, file, fn, block=None, ordinal=None, _cache={}):
    """Locate fn `fn` in `file` (optionally inside the block with header `block`, e.g. an impl)."""
    path = repo_root.rstrip('/') + '/' + file
    try:
        src = open(path, encoding='utf-8').read()
    except OSError as e:
        raise LostAnchor('cannot read %s: %s' % (path, e))
    masked = mask(src)
    lo, hi = 0, len(src)
    if block:
        for hdr in block.split(' >> '):
            o, c = find_block(src, masked, hdr, lo, hi)
            lo, hi = o + 1, c
    r = find_fn(src, masked, fn, lo, hi, ordinal)
    r['file'] = file
    r['masked_body'] = masked[r['body_open']:r['body_close'] + 1]
    return r


def locate_closure(rec, ordinal=1):
    """R13: inside an already located fn record, the block body of the `ordinal`-th closure written `[move] |params| { .. }`.
    Returns a record like locate(): body = the closure's `{ .. }` block, sig = 'closure |params| in <fn sig>'."""
    mb = rec['masked_body']
    hits = list(re.finditer(r'(?:move\s+)?\|([^|]*)\|\s*(?:->\s*[^{;]+?)?\s*\{', mb))
    if len(hits) < ordinal:
        raise LostAnchor('closure #%d not found (%d closures with a block body)' % (ordinal, len(hits)))
    m = hits[ordinal - 1]
    o = m.end() - 1
    c = match_brace(mb, o)
    body = rec['body']
    return {'sig': 'closure |%s| in %s' % (norm_ws(m.group(1)), norm_ws(rec['sig'])), 'body': body[o:c + 1], 'masked_body': mb[o:c + 1],
            'line': rec['line'] + body.count('\n', 0, o), 'file': rec['file']}


def locate_struct(repo_root, file, name, kw='struct'):
    """Return the `{ ... }` field block of `struct name` / `enum name`."""
    path = repo_root.rstrip('/') + '/' + file
    try:
        src = open(path, encoding='utf-8').read()
    except OSError as e:
        raise LostAnchor('cannot read %s: %s' % (path, e))
    masked = mask(src)
    hits = [m for m in re.finditer(r'(?<![A-Za-z0-9_])' + kw + r'\s+' + re.escape(name) + r'(?![A-Za-z0-9_])[^;{(]*\{', masked)]
    if len(hits) != 1:
        raise LostAnchor('%s %s found %d times in %s' % (kw, name, len(hits), file))
    o = hits[0].end() - 1
    c = match_brace(masked, o)
    return {'body': src[o:c + 1], 'line': src.count('\n', 0, o) + 1, 'file': file}


def locate_macro(repo_root, file, name):
    """Return the text of `macro_rules! name { ... }` arms."""
    path = repo_root.rstrip('/') + '/' + file
    src = open(path, encoding='utf-8').read()
    masked = mask(src)
    o, c = find_block(src, masked, 'macro_rules! ' + name)
    # the transcriber of the (single) arm: `( matcher ) => { transcriber }`
    arrow = masked.find('=>', o, c)
    if arrow < 0 or masked.find('=>', arrow + 2, c) >= 0 and depth_at(masked, o, masked.find('=>', arrow + 2, c)) == 1:
        raise LostAnchor('macro %s: expected exactly one arm' % name)
    b = masked.find('{', arrow, c)
    e = match_brace(masked, b)
    matcher = src[masked.find('(', o):arrow].strip()
    return {'body': src[b:e + 1], 'masked_body': masked[b:e + 1], 'line': src.count('\n', 0, b) + 1, 'file': file,
            'sig': 'macro_rules! %s %s' % (name, norm_ws(matcher))}


if __name__ == '__main__':
    import sys
    r = locate(sys.argv[1], sys.argv[2], sys.argv[3], sys.argv[4] if len(sys.argv) > 4 else None)
    print(r['file'], r['line'])
    print(r['sig'])
    print(r['body'])
