"""Executable reference functions written from the property statements (NOT from the code), used ONLY to turn an obligation that the
verifier already failed into a concrete failing input (witness search).  They never decide a property."""
import itertools


def hexs(s):
    return s.encode('utf-8').hex()


def unhex(h):
    return bytes.fromhex(h).decode('utf-8', 'replace')


def go_clean(p):
    """Go's path.Clean (the six documented rules)."""
    if p == '':
        return '.'
    rooted = p.startswith('/')
    out = []
    for c in p.split('/'):
        if c == '' or c == '.':
            continue
        if c == '..':
            if out and out[-1] != '..':
                out.pop()
            elif not rooted:
                out.append('..')
        else:
            out.append(c)
    r = '/'.join(out)
    if rooted:
        return '/' + r
    return r or '.'


def comps(p):
    """std::path components of a unix path string (as strings; root is '/')."""
    out = []
    if p.startswith('/'):
        out.append('/')
    parts = [c for c in p.split('/') if c != '']
    for i, c in enumerate(parts):
        if c == '.' and not (i == 0 and not p.startswith('/')):
            continue
        out.append(c)
    return out


def render(cs):
    if not cs:
        return ''
    if cs[0] == '/':
        return '/' + '/'.join(cs[1:])
    return '/'.join(cs)


def mash(d, b):
    """dir followed by base with every leading separator removed (component level)."""
    dc, bc = comps(d), comps(b)
    if bc and bc[0] == '/':
        bc = bc[1:]
    if dc and bc and bc[0] == '.':
        bc = bc[1:]
    return render(dc + bc) if (dc or bc) else ''


def trim_prefix(s, p):
    return s[len(p):] if s.startswith(p) else s


def trim_suffix(s, t):
    return s[:len(s) - len(t)] if s.endswith(t) else s


def slice_ref(n, l, r):
    """IteratorExt::slice on 0..n: mutually inclusive positional bounds, negative from the end; nothing when out of range."""
    v = list(range(n))
    L = l if l >= 0 else n + l
    R = r if r >= 0 else n + r
    if L < 0 or R < 0 or L >= n or R < L:
        return [] if not (L < 0 and False) else []
    R = min(R, n - 1)
    return v[L:R + 1]


def drop_ref(n, k):
    v = list(range(n))
    if k >= 0:
        return v[k:]
    return v[:max(0, n + k)]


def relative_ref(p, b):
    """the navigation from base b to path p for clean absolute inputs: '..' per base component below the common prefix, then p's rest."""
    pc, bc = comps(p), comps(b)
    i = 0
    while i < len(pc) and i < len(bc) and pc[i] == bc[i]:
        i += 1
    out = ['..'] * (len(bc) - i) + pc[i:]
    return render(out)


def strings(alpha, maxlen):
    for n in range(maxlen + 1):
        for t in itertools.product(alpha, repeat=n):
            yield ''.join(t)


# ---- C08: reference traversal, written from the property statement, for trees WITHOUT followed links (links are leaves)
def parse_tree(lines):
    """lines of the driver's tree dump `path kind mode owner extra` -> {path: kind}"""
    t = {}
    for l in lines:
        f = l.split(' ')
        if len(f) >= 2 and f[0].startswith('/'):
            t[f[0]] = f[1]
    return t


def tree_from_script(ops):
    """{path: kind} built by a history of mkdir_p / write_all / mkfile on an empty filesystem (no links, parents created first):
    independent of the listing code under test, unlike the driver's tree dump."""
    t = {'/': 'd'}
    for op in ops:
        f = op.split(' ')
        if f[0] == 'mkdir_p':
            parts = [x for x in f[1].split('/') if x]
            for i in range(1, len(parts) + 1):
                t['/' + '/'.join(parts[:i])] = 'd'
        elif f[0] in ('write_all', 'mkfile'):
            t[f[1]] = 'f'
    return t


def children(tree, p):
    pre = p.rstrip('/') + '/'
    return [q for q in tree if q != p and q.startswith(pre) and '/' not in q[len(pre):]]


def walk_ref(tree, root, dirs=False, files=False, contents_first=False, sort=False, dirs_first=False, files_first=False, min_depth=0, max_depth=10**9, suffix=None):
    """The sequence entries(root) with these options must yield (follow = false).  Unsorted listings come back as a list whose
    sibling order is unspecified: compare with same_up_to_sibling_order."""
    def keep(p, depth):
        if depth < min_depth:
            return False
        k = tree[p]
        if files and k != 'f':
            return False
        if dirs and not files and k != 'd':
            return False
        if suffix is not None and not p.endswith(suffix):
            return False
        return True

    def name(p):
        return p.rsplit('/', 1)[1]

    def rec(p, depth):
        me = [p] if keep(p, depth) else []
        inner = []
        if tree[p] == 'd' and depth < max_depth:
            kids = children(tree, p)
            if sort or dirs_first or files_first:
                kids = sorted(kids, key=name)
                if dirs_first:
                    kids = [k for k in kids if tree[k] == 'd'] + [k for k in kids if tree[k] != 'd']
                elif files_first:
                    kids = [k for k in kids if tree[k] != 'd'] + [k for k in kids if tree[k] == 'd']
            for k in kids:
                inner += rec(k, depth + 1)
            return inner + me if contents_first else me + inner
        return me
    return rec(root, 0)
