"""Executable reference functions written from the property statements (NOT from the code), used ONLY to turn an obligation that the
verifier already failed into a concrete failing input (witness search).  They never decide a property."""
import itertools


def hexs(s):
    return s.encode('utf-8').hex()


def unhex(h):
    return bytes.fromhex(h).decode('utf-8', 'replace')


def go_clean(p):
    """Go's path.Clean (the six documented rules)."""
    if p == '':
        return '.'
    rooted = p.startswith('/')
    out = []
    for c in p.split('/'):
        if c == '' or c == '.':
            continue
        if c == '..':
            if out and out[-1] != '..':
                out.pop()
            elif not rooted:
                out.append('..')
        else:
            out.append(c)
    r = '/'.join(out)
    if rooted:
        return '/' + r
    return r or '.'


def comps(p):
    """std::path components of a unix path string (as strings; root is '/')."""
    out = []
    if p.startswith('/'):
        out.append('/')
    parts = [c for c in p.split('/') if c != '']
    for i, c in enumerate(parts):
        if c == '.' and not (i == 0 and not p.startswith('/')):
            continue
        out.append(c)
    return out


def render(cs):
    if not cs:
        return ''
    if cs[0] == '/':
        return '/' + '/'.join(cs[1:])
    return '/'.join(cs)


def mash(d, b):
    """dir followed by base with every leading separator removed (component level)."""
    dc, bc = comps(d), comps(b)
    if bc and bc[0] == '/':
        bc = bc[1:]
    if dc and bc and bc[0] == '.':
        bc = bc[1:]
    return render(dc + bc) if (dc or bc) else ''


def trim_prefix(s, p):
    return s[len(p):] if s.startswith(p) else s


def trim_suffix(s, t):
    return s[:len(s) - len(t)] if s.endswith(t) else s


def slice_ref(n, l, r):
    """IteratorExt::slice on 0..n: mutually inclusive positional bounds, negative from the end; nothing when out of range."""
    v = list(range(n))
    L = l if l >= 0 else n + l
    R = r if r >= 0 else n + r
    if L < 0 or R < 0 or L >= n or R < L:
        return [] if not (L < 0 and False) else []
    R = min(R, n - 1)
    return v[L:R + 1]


def drop_ref(n, k):
    v = list(range(n))
    if k >= 0:
        return v[k:]
    return v[:max(0, n + k)]


def relative_ref(p, b):
    """the navigation from base b to path p for clean absolute inputs: '..' per base component below the common prefix, then p's rest."""
    pc, bc = comps(p), comps(b)
    i = 0
    while i < len(pc) and i < len(bc) and pc[i] == bc[i]:
        i += 1
    out = ['..'] * (len(bc) - i) + pc[i:]
    return render(out)


def strings(alpha, maxlen):
    for n in range(maxlen + 1):
        for t in itertools.product(alpha, repeat=n):
            yield ''.join(t)
