#!/usr/bin/env python3
"""Apply every seeded fault under /verif/seeded/ to /repo (git apply), run the quick checks of the listed properties,
undo (git checkout -- .), and record which checks catch it.  usage: seed_run.py [id ...] [--props C01,C03] """
import json, os, re, subprocess, sys
VERIF = os.path.dirname(os.path.dirname(os.path.abspath(__file__)))
ids = [a for a in sys.argv[1:] if not a.startswith('--')]
props = None
full = '--full' in sys.argv
# --wt: apply in a scratch worktree of /repo (under /tmp) and point the checks at it through VERIF_REPO, so /repo stays untouched
use_wt = '--wt' in sys.argv
for a in sys.argv[1:]:
    if a.startswith('--props='):
        props = a.split('=')[1].split(',')
claims = json.load(open(os.path.join(VERIF, 'claims.json')))
allp = sorted(p for p, c in claims.items() if c.get('claimed'))
out = {}
st = subprocess.run(['git', '-C', '/repo', 'status', '--porcelain', '--untracked-files=no'], capture_output=True, text=True).stdout.strip()
if st and not use_wt:
    print('refusing: /repo has local modifications'); sys.exit(2)
for sid in sorted(x for x in os.listdir(os.path.join(VERIF, 'seeded')) if os.path.exists(os.path.join(VERIF, 'seeded', x, 'meta.json'))):
    if ids and sid not in ids:
        continue
    d = os.path.join(VERIF, 'seeded', sid)
    meta = json.load(open(os.path.join(d, 'meta.json')))
    target = '/repo'
    env = dict(os.environ)
    if '--cex' not in sys.argv:
        env['VERIF_NO_KANI_CEX'] = '1'     # the matrix only needs caught / not caught
    if use_wt:
        import tempfile
        target = tempfile.mkdtemp(prefix='rivia-seedrun-'); os.rmdir(target)
        subprocess.run(['git', '-C', '/repo', 'worktree', 'add', '-q', '--detach', target, 'HEAD'], check=True)
        env['VERIF_REPO'] = target
    try:
        ap = subprocess.run(['git', '-C', target, 'apply', os.path.join(d, 'patch.diff')], capture_output=True, text=True)
        if ap.returncode != 0:
            ap = subprocess.run(['git', '-C', target, 'apply', '-C1', '--recount', os.path.join(d, 'patch.diff')], capture_output=True, text=True)
        if ap.returncode != 0:
            # the code the fault was seeded in has since been changed in /repo (a later `fix:` commit): the fault no longer applies
            rp = os.path.join(VERIF, 'seeded', 'RESULTS.json')
            allr = json.load(open(rp)) if os.path.exists(rp) else {}
            prev = allr.get(sid, {})
            prev['stale'] = 'patch no longer applies to /repo HEAD (%s); last result kept' % subprocess.run(['git', '-C', '/repo', 'rev-parse', '--short', 'HEAD'], capture_output=True, text=True).stdout.strip()
            allr[sid] = prev
            json.dump(allr, open(rp, 'w'), indent=1, sort_keys=True)
            print('%-8s STALE: patch no longer applies' % sid, flush=True)
            continue
        res = {}
        plist = props or (allp if full else sorted(set([meta['breaks_property'], 'C12']) & set(allp)) or allp)
        for p in plist:
            r = subprocess.run(['./check', p], cwd=VERIF, capture_output=True, text=True, env=env)
            v = [l for l in r.stdout.split('\n') if l.startswith('VIOLATION')]
            u = [l for l in r.stdout.split('\n') if l.startswith('UNDECIDED')]
            res[p] = {'rc': r.returncode, 'violations': len(v), 'first': (v or u or [''])[0][:160],
                      'obligations': sorted(set(re.findall(r'failed obligation (\S+)', r.stdout)))}
    finally:
        if use_wt:
            subprocess.run(['git', '-C', '/repo', 'worktree', 'remove', '--force', target])
        else:
            subprocess.run(['git', '-C', '/repo', 'checkout', '--', '.'])
    caught = [p for p, x in res.items() if x['rc'] == 1]
    und = [p for p, x in res.items() if x['rc'] == 2]
    out[sid] = {'breaks': meta['breaks_property'], 'caught_by': caught, 'undecided': und, 'detail': {p: x for p, x in res.items() if x['rc'] != 0}}
    rp = os.path.join(VERIF, 'seeded', 'RESULTS.json')
    allr = json.load(open(rp)) if os.path.exists(rp) else {}
    allr[sid] = out[sid]
    json.dump(allr, open(rp, 'w'), indent=1, sort_keys=True)
    print('%-8s breaks=%s caught_by=%s undecided=%s %s' % (sid, meta['breaks_property'], ','.join(caught) or '-', ','.join(und) or '-',
          '; '.join('%s:%s' % (p, ','.join(x['obligations'])) for p, x in res.items() if x['rc'] == 1)), flush=True)

