#!/usr/bin/env python3
"""Apply every seeded fault under /verif/seeded/ to /repo (git apply), run the quick checks of the listed properties,
undo (git checkout -- .), and record which checks catch it.  usage: seed_run.py [id ...] [--props C01,C03] """
import json, os, re, subprocess, sys
VERIF = os.path.dirname(os.path.dirname(os.path.abspath(__file__)))
ids = [a for a in sys.argv[1:] if not a.startswith('--')]
props = None
full = '--full' in sys.argv
for a in sys.argv[1:]:
    if a.startswith('--props='):
        props = a.split('=')[1].split(',')
claims = json.load(open(os.path.join(VERIF, 'claims.json')))
allp = sorted(p for p, c in claims.items() if c.get('claimed'))
out = {}
st = subprocess.run(['git', '-C', '/repo', 'status', '--porcelain', '--untracked-files=no'], capture_output=True, text=True).stdout.strip()
if st:
    print('refusing: /repo has local modifications'); sys.exit(2)
for sid in sorted(x for x in os.listdir(os.path.join(VERIF, 'seeded')) if os.path.isdir(os.path.join(VERIF, 'seeded', x))):
    if ids and sid not in ids:
        continue
    d = os.path.join(VERIF, 'seeded', sid)
    meta = json.load(open(os.path.join(d, 'meta.json')))
    try:
        subprocess.run(['git', '-C', '/repo', 'apply', os.path.join(d, 'patch.diff')], check=True)
        res = {}
        plist = props or (allp if full else sorted(set([meta['breaks_property'], 'C12']) & set(allp)) or allp)
        for p in plist:
            r = subprocess.run(['./check', p], cwd=VERIF, capture_output=True, text=True)
            v = [l for l in r.stdout.split('\n') if l.startswith('VIOLATION')]
            u = [l for l in r.stdout.split('\n') if l.startswith('UNDECIDED')]
            res[p] = {'rc': r.returncode, 'violations': len(v), 'first': (v or u or [''])[0][:160],
                      'obligations': sorted(set(re.findall(r'failed obligation (\S+)', r.stdout)))}
    finally:
        subprocess.run(['git', '-C', '/repo', 'checkout', '--', '.'])
    caught = [p for p, x in res.items() if x['rc'] == 1]
    und = [p for p, x in res.items() if x['rc'] == 2]
    out[sid] = {'breaks': meta['breaks_property'], 'caught_by': caught, 'undecided': und, 'detail': {p: x for p, x in res.items() if x['rc'] != 0}}
    print('%-8s breaks=%s caught_by=%s undecided=%s %s' % (sid, meta['breaks_property'], ','.join(caught) or '-', ','.join(und) or '-',
          '; '.join('%s:%s' % (p, ','.join(x['obligations'])) for p, x in res.items() if x['rc'] == 1)), flush=True)
json.dump(out, open(os.path.join(VERIF, 'seeded', 'RESULTS.json'), 'w'), indent=1)
