"""Concrete failing inputs on the REAL code, produced only *after* a verifier has already failed an obligation.
 * from_kani(): decode a Kani concrete-playback vector list into named inputs and replay them through the driver
   (which reaches the same code through rivia's public API) so that the divergence is shown on the real crate.
 * search(): per-unit small-input enumeration against an executable reference (units/<unit>.witness.py), best effort.
The decision is always the verifier's; nothing here can turn a pass into a fail or vice versa.
"""
import importlib.util
import os
import re
import shutil
import subprocess
import tempfile

HERE = os.path.dirname(os.path.abspath(__file__))
VERIF = os.path.dirname(HERE)


def hexs(s):
    return (s.encode('utf-8') if isinstance(s, str) else bytes(s)).hex()


def unhex(h):
    return bytes.fromhex(h)


class Driver:
    """Builds /verif/driver against the tree under test in a scratch dir; run(lines) -> output lines."""

    def __init__(self, repo):
        self.repo = os.path.abspath(repo)
        self.dir = tempfile.mkdtemp(prefix='rivia-driver-')
        self.bin = None

    def build(self):
        d = self.dir
        os.makedirs(os.path.join(d, 'src'), exist_ok=True)
        shutil.copy(os.path.join(VERIF, 'driver', 'src', 'main.rs'), os.path.join(d, 'src', 'main.rs'))
        open(os.path.join(d, 'Cargo.toml'), 'w').write(open(os.path.join(VERIF, 'driver', 'Cargo.toml.in')).read().replace('@REPO@', self.repo))
        lock = os.path.join(self.repo, 'Cargo.lock')
        env = dict(os.environ, CARGO_NET_OFFLINE='true', CARGO_TARGET_DIR=os.path.join(d, 'target'))
        p = subprocess.run(['cargo', 'build', '--offline', '-q'], cwd=d, env=env, capture_output=True, text=True, timeout=900)
        if p.returncode != 0:
            raise RuntimeError('driver build failed: ' + p.stderr[-800:])
        self.bin = os.path.join(d, 'target', 'debug', 'verif-driver')
        return self

    def run(self, lines, env_extra=None, timeout=600):
        env = dict(os.environ)
        if env_extra is not None:
            env.update(env_extra)
        p = subprocess.run([self.bin], input='\n'.join(lines) + '\n', capture_output=True, text=True, env=env, timeout=timeout)
        return p.stdout.split('\n')[:len(lines)]

    def close(self):
        shutil.rmtree(self.dir, ignore_errors=True)


def replay_cmd(line):
    return "cd /verif && python3 vc/witness.py replay '%s'" % line.replace('\t', '\\t').replace("'", "'\\''")


# ---- Kani counterexamples -------------------------------------------------------------------------------------
def kani_values(cex_text):
    vals = []
    for m in re.finditer(r'vec!\[([0-9,\s]*)\]', cex_text.split('let concrete_vals')[1] if 'let concrete_vals' in cex_text else cex_text):
        inner = m.group(1).strip()
        if inner == '' and not vals:
            continue
        vals.append(bytes(int(x) for x in inner.split(',') if x.strip() != ''))
    return vals


def _u(b):
    return int.from_bytes(b, 'little', signed=False)


def _i(b):
    return int.from_bytes(b, 'little', signed=True)


def decode_memfs_file(kind, vals):
    # any_data(): n: usize, a: [u8;4]   then pos: u64, ...
    n = _u(vals[0]) % 5 if _u(vals[0]) <= 4 else 0
    data = b''.join(vals[1:5])[:n]
    pos = _u(vals[5])
    if kind == 'seek':
        k = _u(vals[6]) % 3
        u, i = _u(vals[7]), _i(vals[8])
        sk = ['start', 'current', 'end'][k]
        off = u if k == 0 else i
        return {'data': data.hex(), 'pos': pos, 'seek': '%s(%d)' % (sk, off)}, 'seek\t%s\t%d\t%s\t%d' % (data.hex(), pos, sk, off)
    if kind == 'read':
        nn = _u(vals[6])
        return {'data': data.hex(), 'pos': pos, 'buf_len': nn}, 'read\t%s\t%d\t%d' % (data.hex(), pos, nn)
    if kind == 'len':
        return {'data': data.hex(), 'pos': pos, 'buf_len': 1}, 'read\t%s\t%d\t1' % (data.hex(), pos)
    return None, None


def from_kani(kr, repo):
    """kr: a failed kani result with 'cex' text.  Returns a failing_input dict."""
    doc = {'from': 'kani::' + kr['harness'], 'failed_checks': kr.get('failed_checks'), 'concrete_playback': kr['cex']}
    try:
        vals = kani_values(kr['cex'])
        named, line = (None, None)
        if kr.get('unit') == 'memfs_file' and kr.get('replay'):
            named, line = decode_memfs_file(kr['replay'], vals)
        if line:
            doc['inputs'] = named
            d = Driver(repo).build()
            try:
                out = d.run([line])[0]
            finally:
                d.close()
            doc['real_code_result'] = out
            doc['reproduced_on_real_code'] = out.startswith('DIFF') or out.startswith('PANIC')
            doc['replay_cmd'] = replay_cmd(line)
    except Exception as e:  # best effort
        doc['replay_error'] = str(e)
    return doc


# ---- witness search -------------------------------------------------------------------------------------------
def search(unit, ob, repo, seed):
    p = os.path.join(VERIF, 'units', unit + '.witness.py')
    if not os.path.exists(p):
        return None
    spec = importlib.util.spec_from_file_location('w_' + unit, p)
    mod = importlib.util.module_from_spec(spec)
    spec.loader.exec_module(mod)
    d = Driver(repo).build()
    try:
        r = mod.find(d, ob['fn'], seed)
    finally:
        d.close()
    if r:
        r['replay_cmd'] = replay_cmd(r['driver_line'])
        if isinstance(r.get('expected'), str) and not r['driver_line'].startswith(('seek', 'read')):
            r['replay_cmd'] += ' --expect-hex %s' % (r['expected'].encode('utf-8').hex() or '""')
        r['replay_note'] = 'exit 1 = the real code (tree in $VERIF_REPO, default /repo) still disagrees with the expected value / std::io::Cursor / panics'
    return r


if __name__ == '__main__':
    import sys
    if sys.argv[1] == 'replay':
        d = Driver(os.environ.get('VERIF_REPO', '/repo')).build()
        try:
            out = d.run([sys.argv[2].replace('\\t', '\t')])[0]
        finally:
            d.close()
        print(out)
        bad = out.startswith(('DIFF', 'PANIC'))
        if '--expect-hex' in sys.argv:
            exp = sys.argv[sys.argv.index('--expect-hex') + 1]
            f = out.split('\t')
            got = f[1] if out.startswith('OK') and len(f) > 1 else ('' if out.startswith('OK') else None)
            if sys.argv[2].startswith('fs') and got is not None:
                # a history: the expectation is about the result of its LAST call, `name=OK(payload)`
                last = got.split(';')[-1]
                got = (last[last.index('=OK(') + 4:-1] if '=OK(' in last else last).encode('utf-8').hex()
            bad = bad or got is None or got != exp
        sys.exit(1 if bad else 0)
