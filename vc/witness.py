"""Best-effort search for a concrete failing input on the real code *after* the verifier has failed."""
def search(unit, ob, repo, seed):
    return None
