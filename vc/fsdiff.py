"""Behaviour-change search for the Memfs units: runs enumerated histories through the replay driver on the tree under test and on a
clean export of its HEAD commit and reports the first history whose observable outcome differs.  This is evidence attached to a
replay file AFTER the verifier failed an obligation; it decides nothing, and a difference from HEAD is not by itself a property
violation (the VIOLATION line keeps its `no-failing-input-found` suffix)."""
import os, shutil, subprocess, tempfile
import witness as W

SETUPS = [
    'mkdir_p /a/b;write_all /a/b/f 6869;write_all /a/g 78;mkdir_m /e 200;write_all /w 6f6c64;mkdir_p /t/a/i;write_all /t/a/i/k 6b;mkdir_p /t/b',
    'mkdir_p /a/b;write_all /a/b/f 6869;symlink /l /a/b/f;symlink /ld /a/b;symlink /a/rel b/f;symlink /dang /nope;mkdir_p /t',
    'mkdir_p /a/a/a;write_all /a/a/f 31;write_all /f 32;mkdir_p /d;set_cwd /a',
]
SRC = ['/a', '/a/b', '/a/b/f', '/a/g', '/w', '/l', '/ld', '/e', '/t', '/t/a', '/', '/nope', 'b', '../w', '/a/a', '/f', '/d']
DST = ['/c', '/t', '/a/b', '/w', '/a', '/e', '/zz/q', '/t/a', '/t/b', '/', '/a/b/f', '/f', '/d', 'x', '/a/a']


def ops_for(fn):
    f = fn.lower()
    ops = []
    two = lambda name: ['%s %s %s' % (name, s, d) for s in SRC for d in DST]
    one = lambda name, extra='': ['%s %s%s' % (name, s, extra) for s in SRC]
    if 'copy' in f or f in ('_add', '_mkdir_m', 'entry_clone', 'clone', 'file_clone', '_clone_file'):
        ops += two('copy') + ['copy_mode %s %s 700' % (s, d) for s in SRC[:6] for d in DST[:6]] + ['copy_dirs %s %s 700' % (s, d) for s in SRC[:3] for d in DST[:3]] \
            + ['copy_files %s %s 600' % (s, d) for s in SRC[:3] for d in DST[:3]] + ['copy_follow %s %s' % (s, d) for s in ('/l', '/ld', '/a') for d in ('/c', '/t')]
    if 'move' in f or f in ('entry_add', 'add', 'entry_remove'):
        ops += two('move_p')
    if 'remove' in f:
        ops += one('remove') + one('remove_all')
    if 'chmod' in f or 'mode' in f:
        ops += one('chmod', ' 700') + one('chmod', ' 444') + one('chmod_files', ' 600') + one('chmod_dirs', ' 711') + one('chmod_nr', ' 700') \
            + ['chmod_sym %s %s' % (s, e) for s in ('/', '/a', '/w', '/l') for e in ('f:u+x', 'd:go-rx', 'a:a=r', 'f:u+x,d:g-r', 'f:', 'u+x')]
    if 'chown' in f or 'owner' in f:
        ops += one('chown', ' 5 7') + one('chown_nr', ' 5 7')
    if 'symlink' in f or 'link' in f or 'relative' in f:
        ops += ['symlink %s %s' % (l, t) for l in ('/n', '/a/n', '/t/a/n', 'n') for t in ('/a/b/f', '/a/b', 'b/f', '../w', '/nope', '/a/x/../b', '.')] + one('readlink') + one('readlink_abs')
    if 'mk' in f or f in ('_add', 'opts_build', 'build'):
        ops += one('mkdir_p') + one('mkfile') + ['mkdir_m %s 700' % s for s in ('/n/m', '/a/b/n', '/w/x', '/l/x')] + ['mkfile %s' % s for s in ('/n', '/a/n', '/w/x', '/nope/x', '/ld/x')]
    if 'write' in f or 'append' in f or 'read' in f or 'sync' in f or 'flush' in f or 'drop' in f or 'line' in f:
        ops += ['write_all %s %s' % (s, d) for s in SRC + ['/n', '/a/n'] for d in ('', '7a')] + ['append_all %s 7a' % s for s in SRC + ['/n']] + one('read_all') + one('read_lines')
    if 'cwd' in f or 'abs' in f:
        ops += one('set_cwd') + one('abs') + ['abs %s' % s for s in ('~', '~/x', '$HOME/y', 'file:///q', '..', '../../..', './a/./b/..')]
    if 'dir' in f or 'file' in f or 'path' in f or 'entries' in f or 'exists' in f or 'clone_entr' in f:
        ops += one('is_dir') + one('is_file') + one('is_symlink') + one('exists') + one('paths') + one('all_paths') + one('dirs') + one('files')
    if f in ('process', 'next', 'into_iter', 'cache', 'sort', 'dirs_first', 'files_first', '_split', '_sort', 'follow', 'new', 'memfs_entries', 'lister_new', 'lister_next', '_clone_entries'):
        ops += ['entries %s %s' % (s, fl) for s in ('/', '/a', '/t', '/l', '/ld', '/a/b/f') for fl in ('s', 's,c', 's,c,f', 's,c,d', 's,c,m1', 's,F', 's,F,c', 'D', 'I,c', 's,m1,M1', 's,pf', 's,c,pb', 's,F,m1', 's,M0')]
    if not ops:
        ops = two('copy')[:60] + two('move_p')[:60] + one('remove_all') + one('chmod', ' 700')
    return ops


def export_head(repo):
    d = tempfile.mkdtemp(prefix='rivia-head-')
    p = subprocess.run('git -C %s archive HEAD | tar -x -C %s' % (repo, d), shell=True, capture_output=True, text=True)
    if p.returncode != 0:
        shutil.rmtree(d, ignore_errors=True)
        return None
    return d


def find(repo, fn, limit=4000):
    st = subprocess.run(['git', '-C', repo, 'status', '--porcelain', '--untracked-files=no', '--', 'src'], capture_output=True, text=True)
    if st.returncode != 0 or not st.stdout.strip():
        return None          # no uncommitted change under src/: nothing to compare with
    head = export_head(repo)
    if head is None:
        return None
    d1 = d0 = None
    try:
        d1 = W.Driver(repo).build()
        d0 = W.Driver(head).build()
        scripts = [s + ';' + o for o in ops_for(fn) for s in SETUPS][:limit]
        lines = ['fs\t' + s.encode('utf-8').hex() for s in scripts]
        o1 = d1.run(lines, timeout=900)
        o0 = d0.run(lines, timeout=900)
        for s, a, b in zip(scripts, o0, o1):
            if a != b:
                return {'history': s.split(';'), 'driver_line': 'fs\t' + s.encode('utf-8').hex(), 'outcome_on_HEAD': a[:3000], 'outcome_on_this_tree': b[:3000],
                        'kind': 'behaviour change relative to the committed tree (HEAD), found by enumeration; not by itself a property violation',
                        'replay_cmd': W.replay_cmd('fs\t' + s.encode('utf-8').hex())}
        return None
    finally:
        for d in (d1, d0):
            if d is not None:
                d.close()
        shutil.rmtree(head, ignore_errors=True)


if __name__ == '__main__':
    import sys, json
    print(json.dumps(find(sys.argv[1], sys.argv[2]), indent=1))
