use vstd::prelude::*;
verus! {

pub struct MemfsFile {
    pub pos: u64,
    pub data: Vec<u8>,
}

impl MemfsFile {
    pub fn len(&self) -> (r: u64)
        requires self.pos <= self.data.len(),
        ensures r == self.data.len() - self.pos,
    {
        self.data.len() as u64 - self.pos
    }
}

#[derive(PartialEq, Eq, Clone, Copy)]
pub enum State { Target, Group, Perms }

pub enum Err { A, B }

fn _pop(chars: &mut Vec<char>) -> (r: Result<char, Err>)
    ensures
        old(chars).len() > 0 ==> r is Ok && final(chars)@ == old(chars)@.drop_last() && r->Ok_0 == old(chars)@.last(),
        old(chars).len() == 0 ==> r is Err && final(chars)@ == old(chars)@,
{
    if !chars.is_empty() {
        Ok(chars.pop().unwrap())
    } else {
        Err(Err::A)
    }
}

fn loops(chars: &mut Vec<char>) -> (r: Result<u32, Err>)
{
    let mut mode: u32 = 0;
    let mut state = State::Target;
    while let Some(mut c) = chars.pop()
        decreases chars.len()
    {
        match state {
            State::Target => {
                loop
                    decreases chars.len()
                {
                    if c != 'd' && c != ':' { return Err(Err::B); }
                    if c == ':' { state = State::Group; break; }
                    c = _pop(chars)?;
                }
            },
            x if x == State::Group && mode == 0 => { mode |= 0o700; continue; },
            _ => { mode = mode & !0o444u32; }
        }
    }
    Ok(mode)
}

} // verus!
fn main() {}
