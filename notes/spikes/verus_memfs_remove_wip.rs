use vstd::prelude::*;
verus! {

pub type Name = Seq<char>;
pub type PathV = Seq<Name>;

// ------------------------------------------------------------------ errors (payload dropped)
pub enum ErrKind { Empty, DoesNotExist, IsNotDir, IsNotFile, IsNotSymlink, ExistsAlready, ParentNotFound, DirContainsFiles, Other }
pub struct RvError { pub kind: ErrKind }
pub type RvResult<T> = Result<T, RvError>;
pub struct PathError { pub kind: ErrKind }
impl PathError {
    pub fn is_not_dir<T>(_p: T) -> (r: PathError) ensures r.kind == ErrKind::IsNotDir { PathError { kind: ErrKind::IsNotDir } }
    pub fn is_not_file<T>(_p: T) -> (r: PathError) ensures r.kind == ErrKind::IsNotFile { PathError { kind: ErrKind::IsNotFile } }
    pub fn is_not_symlink<T>(_p: T) -> (r: PathError) ensures r.kind == ErrKind::IsNotSymlink { PathError { kind: ErrKind::IsNotSymlink } }
    pub fn does_not_exist<T>(_p: T) -> (r: PathError) ensures r.kind == ErrKind::DoesNotExist { PathError { kind: ErrKind::DoesNotExist } }
    pub fn exists_already<T>(_p: T) -> (r: PathError) ensures r.kind == ErrKind::ExistsAlready { PathError { kind: ErrKind::ExistsAlready } }
    pub fn dir_contains_files<T>(_p: T) -> (r: PathError) ensures r.kind == ErrKind::DirContainsFiles { PathError { kind: ErrKind::DirContainsFiles } }
    pub fn into(self) -> (r: RvError) ensures r.kind == self.kind { RvError { kind: self.kind } }
}

// ------------------------------------------------------------------ path shim
#[verifier::external_body]
pub struct PathBuf { x: u8 }
#[verifier::external_body]
pub struct NameStr { x: u8 }   // String holding a child name
impl NameStr { pub uninterp spec fn view(&self) -> Name; }

impl PathBuf {
    pub uninterp spec fn view(&self) -> PathV;      // meaningful when abs_clean
    pub uninterp spec fn abs_clean(&self) -> bool;

    #[verifier::external_body]
    pub fn clone(&self) -> (r: PathBuf) ensures r@ == self@, r.abs_clean() == self.abs_clean() { unimplemented!() }
    #[verifier::external_body]
    pub fn is_root(&self) -> (r: bool) requires self.abs_clean() ensures r == (self@.len() == 0) { unimplemented!() }
    #[verifier::external_body]
    pub fn dir(&self) -> (r: RvResult<PathBuf>)
        requires self.abs_clean()
        ensures self@.len() == 0 ==> r is Err,
                self@.len() > 0 ==> r is Ok && r->Ok_0@ == self@.drop_last() && r->Ok_0.abs_clean(),
    { unimplemented!() }
    #[verifier::external_body]
    pub fn base(&self) -> (r: RvResult<NameStr>)
        requires self.abs_clean()
        ensures r is Ok, self@.len() > 0 ==> r->Ok_0@ == self@.last(),
    { unimplemented!() }
}

// ------------------------------------------------------------------ entry
pub struct NameSet { pub g: Ghost<Set<Name>> }
impl NameSet {
    pub closed spec fn view(&self) -> Set<Name> { self.g@ }
    #[verifier::external_body]
    pub fn insert(&mut self, n: NameStr) -> (b: bool) ensures final(self)@ == old(self)@.insert(n@), b == !old(self)@.contains(n@) { unimplemented!() }
    #[verifier::external_body]
    pub fn remove(&mut self, n: &NameStr) -> (b: bool) ensures final(self)@ == old(self)@.remove(n@) { unimplemented!() }
    #[verifier::external_body]
    pub fn is_empty(&self) -> (b: bool) ensures b == (self@ =~= Set::<Name>::empty()) { unimplemented!() }
}

pub struct MemfsEntry {
    pub path: PathBuf,
    pub dir: bool,
    pub file: bool,
    pub link: bool,
    pub mode: u32,
    pub files: Option<NameSet>,
}

impl MemfsEntry {
    pub fn path_buf(&self) -> (r: PathBuf) ensures r@ == self.path@, r.abs_clean() == self.path.abs_clean() { self.path.clone() }
    pub fn is_dir(&self) -> (r: bool) ensures r == self.dir { self.dir }
    pub fn is_file(&self) -> (r: bool) ensures r == self.file { self.file }
    pub fn is_symlink(&self) -> (r: bool) ensures r == self.link { self.link }

    pub open spec fn ev(&self) -> EntryV {
        EntryV { path: self.path@, dir: self.dir, file: self.file, link: self.link, mode: self.mode,
                 kids: match self.files { Some(s) => Some(s@), None => None } }
    }
}

pub struct EntryV { pub path: PathV, pub dir: bool, pub file: bool, pub link: bool, pub mode: u32, pub kids: Option<Set<Name>> }

// ------------------------------------------------------------------ guard
#[verifier::external_body]
pub struct MemfsGuard { x: u8 }
#[verifier::external_body]
pub struct MemfsFile { x: u8 }
impl MemfsFile {
    pub uninterp spec fn data(&self) -> Seq<u8>;
    #[verifier::external_body]
    pub fn default() -> (r: MemfsFile) ensures r.data() == Seq::<u8>::empty() { unimplemented!() }
}

pub struct St { pub entries: Map<PathV, EntryV>, pub files: Map<PathV, Seq<u8>>, pub cwd: PathV }

impl MemfsGuard {
    pub uninterp spec fn st(&self) -> St;

    #[verifier::external_body]
    pub fn get_entry(&self, path: &PathBuf) -> (r: Option<&MemfsEntry>)
        requires path.abs_clean()
        ensures r is Some <==> self.st().entries.contains_key(path@),
                r is Some ==> r->Some_0.ev() == self.st().entries[path@],
    { unimplemented!() }

    #[verifier::external_body]
    pub fn get_entry_mut(&mut self, path: &PathBuf) -> (r: Option<&mut MemfsEntry>)
        requires path.abs_clean()
        ensures r is Some <==> old(self).st().entries.contains_key(path@),
                r is Some ==> r->Some_0.ev() == old(self).st().entries[path@],
                r is None ==> final(self).st() == old(self).st(),
                r is Some ==> final(self).st() == (St { entries: old(self).st().entries.insert(path@, final(r->Some_0).ev()), ..old(self).st() }),
    { unimplemented!() }

    #[verifier::external_body]
    pub fn insert_file(&mut self, path: PathBuf, file: MemfsFile)
        requires path.abs_clean()
        ensures final(self).st() == (St { files: old(self).st().files.insert(path@, file.data()), ..old(self).st() })
    { unimplemented!() }

    #[verifier::external_body]
    pub fn insert_entry(&mut self, path: PathBuf, entry: MemfsEntry)
        requires path.abs_clean()
        ensures final(self).st() == (St { entries: old(self).st().entries.insert(path@, entry.ev()), ..old(self).st() })
    { unimplemented!() }

    #[verifier::external_body]
    pub fn remove_entry(&mut self, path: &PathBuf) -> (r: Option<MemfsEntry>)
        requires path.abs_clean()
        ensures final(self).st() == (St { entries: old(self).st().entries.remove(path@), ..old(self).st() })
    { unimplemented!() }

    #[verifier::external_body]
    pub fn remove_file(&mut self, path: &PathBuf) -> (r: Option<MemfsFile>)
        requires path.abs_clean()
        ensures final(self).st() == (St { files: old(self).st().files.remove(path@), ..old(self).st() })
    { unimplemented!() }
}

// ------------------------------------------------------------------ well-formedness (C03)
pub open spec fn root() -> PathV { Seq::<Name>::empty() }

pub open spec fn entry_ok(s: St, p: PathV) -> bool {
    let e = s.entries[p];
    &&& e.path == p
    &&& (e.dir != e.file)
    &&& (e.kids is Some <==> e.dir)
    &&& (p.len() > 0 ==> {
            let d = p.drop_last();
            &&& s.entries.contains_key(d)
            &&& s.entries[d].dir && !s.entries[d].link
            &&& s.entries[d].kids is Some
            &&& s.entries[d].kids->Some_0.contains(p.last())
        })
}
pub open spec fn kids_ok(s: St, p: PathV, n: Name) -> bool {
    (s.entries.contains_key(p) && s.entries[p].kids is Some && s.entries[p].kids->Some_0.contains(n)) ==> s.entries.contains_key(p.push(n))
}
pub open spec fn file_ok(s: St, p: PathV) -> bool {
    s.files.contains_key(p) <==> (s.entries.contains_key(p) && s.entries[p].file && !s.entries[p].link)
}
pub open spec fn wf(s: St) -> bool {
    &&& s.entries.contains_key(root())
    &&& s.entries[root()].dir && !s.entries[root()].link
    &&& forall|p: PathV| s.entries.contains_key(p) ==> #[trigger] entry_ok(s, p)
    &&& forall|p: PathV, n: Name| #[trigger] kids_ok(s, p, n)
    &&& forall|p: PathV| #[trigger] file_ok(s, p)
}

impl MemfsEntry {
    pub fn add(&mut self, name: NameStr) -> (r: RvResult<bool>)
        ensures
            !old(self).dir ==> r is Err && *final(self) == *old(self),
            old(self).dir ==> r is Ok && final(self).ev() == (EntryV { kids: Some(match old(self).ev().kids { Some(k) => k.insert(name@), None => Set::<Name>::empty().insert(name@) }), ..old(self).ev() })
                && (r->Ok_0 == match old(self).ev().kids { Some(k) => !k.contains(name@), None => true }),
    {
        // Ensure this is a valid directory
        if !self.dir {
            return Err(PathError::is_not_dir(&self.path).into());
        }

        // Insert the new entry returning success
        if let Some(ref mut files) = self.files {
            return Ok(files.insert(name));
        } else {
            let mut files = NameSet { g: Ghost(Set::empty()) };
            files.insert(name);
            self.files = Some(files);
        }

        Ok(true)
    }
}

pub fn _add(guard: &mut MemfsGuard, entry: MemfsEntry) -> (r: RvResult<PathBuf>)
    requires
        wf(old(guard).st()), entry.path.abs_clean(),
        entry.dir != entry.file, (entry.files is Some <==> entry.dir),
        entry.files is Some ==> entry.files->Some_0@ =~= Set::<Name>::empty(),
    ensures
        r is Err ==> final(guard).st() == old(guard).st(),
        wf(final(guard).st()) || (entry.path@.len() > 0 && old(guard).st().entries.contains_key(entry.path@.drop_last()) && old(guard).st().entries[entry.path@.drop_last()].link),
{
        let path = entry.path_buf();

        // Skip creation of root as `new` will take care of that
        if path.is_root() {
            return Ok(path);
        }

        // Validate path components
        let dir = path.dir()?;
        if let Some(entry) = guard.get_entry(&dir) {
            if !entry.is_dir() {
                return Err(PathError::is_not_dir(dir).into());
            }
        } else {
            return Err(PathError::does_not_exist(dir).into());
        }

        // Validate the path itself
        if let Some(x) = guard.get_entry(&path) {
            if entry.is_file() && !x.is_file() {
                return Err(PathError::is_not_file(&path).into());
            } else if entry.is_symlink() && !x.is_symlink() {
                return Err(PathError::is_not_symlink(&path).into());
            } else if entry.is_dir() && !x.is_dir() {
                return Err(PathError::is_not_dir(&path).into());
            }
        } else {
            let ghost s0 = guard.st();
            let ghost p = path@;
            let ghost d = dir@;
            proof {
                assert(d.push(p.last()) =~= p);
                assert(kids_ok(s0, d, p.last()));
                assert(entry_ok(s0, d));
            }
            // Add the new file to the data system if not a link
            if !entry.is_symlink() && entry.is_file() {
                guard.insert_file(path.clone(), MemfsFile::default());
            }

            // Add the new file/link/dir to the file system
            guard.insert_entry(path.clone(), entry);

            // Update the parent directory
            if let Some(parent) = guard.get_entry_mut(&dir) {
                if !parent.add(path.base()?)? {
                    return Err(PathError::exists_already(path).into());
                }
            }
            proof {
                let s2 = guard.st();
                if !s0.entries[d].link {
                    assert forall|q: PathV| s2.entries.contains_key(q) implies #[trigger] entry_ok(s2, q) by {
                        if q == p { } else if q == d { assert(entry_ok(s0, d)); } else { assert(entry_ok(s0, q)); }
                    }
                    assert forall|q: PathV, n: Name| #[trigger] kids_ok(s2, q, n) by {
                        assert(kids_ok(s0, q, n));
                        if q == d && n == p.last() { } 
                    }
                    assert forall|q: PathV| #[trigger] file_ok(s2, q) by { assert(file_ok(s0, q)); }
                    assert(entry_ok(s0, root()));
                }
            }
        }

        Ok(path)
}


impl MemfsEntry {
    pub fn remove(&mut self, name: NameStr) -> (r: RvResult<()>)
        ensures
            !old(self).dir ==> r is Err && *final(self) == *old(self),
            old(self).dir ==> r is Ok && final(self).ev() == (EntryV { kids: match old(self).ev().kids { Some(k) => Some(k.remove(name@)), None => None }, ..old(self).ev() }),
    {
        // Ensure this is a valid directory
        if !self.dir {
            return Err(PathError::is_not_dir(&self.path).into());
        }

        // Remove the entry
        if let Some(ref mut files) = self.files {
            files.remove(&name);
        }

        Ok(())
    }
}

pub open spec fn spec_remove(s: St, p: PathV) -> St {
    if !s.entries.contains_key(p) || p.len() == 0 { s } else {
        let d = p.drop_last();
        let pe = s.entries[d];
        St {
            entries: s.entries.insert(d, EntryV { kids: Some(pe.kids->Some_0.remove(p.last())), ..pe }).remove(p),
            files: s.files.remove(p),
            cwd: s.cwd,
        }
    }
}

pub fn remove(guard: &mut MemfsGuard, path: PathBuf) -> (r: RvResult<()>)
    requires wf(old(guard).st()), path.abs_clean(),
    ensures
        r is Err ==> final(guard).st() == old(guard).st(),
        wf(final(guard).st()),
        // documented: a directory containing files is an error
        (old(guard).st().entries.contains_key(path@) && old(guard).st().entries[path@].kids is Some
            && !(old(guard).st().entries[path@].kids->Some_0 =~= Set::<Name>::empty())) ==> (r is Err && r->Err_0.kind == ErrKind::DirContainsFiles),
        r is Ok ==> final(guard).st().entries =~= spec_remove(old(guard).st(), path@).entries,
        r is Ok ==> final(guard).st().files =~= spec_remove(old(guard).st(), path@).files,
{
        let ghost s0 = guard.st();
        let ghost p = path@;
        // First check if the target contains files
        if let Some(entry) = guard.get_entry(&path) {
            if let Some(ref files) = entry.files {
                if !files.is_empty() {
                    return Err(PathError::dir_contains_files(path).into());
                }
            }
        }

        // Next remove the file from its parent
        let dir = path.dir()?;
        if let Some(entry) = guard.get_entry_mut(&dir) {
            entry.remove(path.base()?)?;
        }

        // Next remove its data file if it exists
        if let Some(entry) = guard.get_entry(&path) {
            if entry.is_file() {
                guard.remove_file(&path);
            }
        }

        // Finally remove the entry from the filesystem
        guard.remove_entry(&path);
        Ok(())
}

} // verus!
fn main() {}
