use vstd::prelude::*;
verus! {
pub enum VfsError { InvalidChmod, InvalidChmodTarget, InvalidChmodGroup, InvalidChmodOp, InvalidChmodPermissions }
pub struct RvError { pub kind: VfsError }
pub type RvResult<T> = Result<T, RvError>;
impl VfsError { pub fn into_rv(self) -> (r: RvError) ensures r.kind == self { RvError { kind: self } } }

#[verifier::external_body]
pub struct VfsEntry { x: u8 }
impl VfsEntry {
    pub uninterp spec fn mode_spec(&self) -> u32;
    pub uninterp spec fn dir_spec(&self) -> bool;
    pub uninterp spec fn file_spec(&self) -> bool;
    pub uninterp spec fn link_spec(&self) -> bool;
    #[verifier::external_body] pub fn mode(&self) -> (r: u32) ensures r == self.mode_spec() { unimplemented!() }
    #[verifier::external_body] pub fn is_dir(&self) -> (r: bool) ensures r == self.dir_spec() { unimplemented!() }
    #[verifier::external_body] pub fn is_file(&self) -> (r: bool) ensures r == self.file_spec() { unimplemented!() }
    #[verifier::external_body] pub fn is_symlink(&self) -> (r: bool) ensures r == self.link_spec() { unimplemented!() }
}
#[verifier::external_body]
pub fn rev_chars(s: &str) -> (r: Vec<char>) ensures r@ == s@.reverse() { unimplemented!() }

#[derive(PartialEq, Eq, Structural, Clone, Copy)]
enum State { Target, Group, Perms }

fn _pop(chars: &mut Vec<char>, sym: &str) -> (r: RvResult<char>)
    ensures
        old(chars).len() > 0 ==> r is Ok && final(chars)@ == old(chars)@.drop_last() && r->Ok_0 == old(chars)@.last(),
        old(chars).len() == 0 ==> r is Err && final(chars)@ == old(chars)@,
{
    if !chars.is_empty() {
        Ok(chars.pop().unwrap())
    } else {
        Err(VfsError::InvalidChmod.into_rv())
    }
}

pub fn mode(entry: &VfsEntry, octal: u32, sym: &str) -> (r: RvResult<u32>)
    ensures
        octal != 0 ==> r is Ok && r->Ok_0 == octal,
        octal == 0 && sym@.len() == 0 ==> r is Ok && r->Ok_0 == 0,
        octal == 0 && sym@.len() > 0 && r is Ok ==> r->Ok_0 & !0o777u32 == entry.mode_spec() & !0o777u32,
{
    // Octal mode takes priority
    if octal != 0 {
        return Ok(octal);
    }

    // No octal and no symbolic form given
    if sym.is_empty() {
        return Ok(0);
    }

    // Start from the entry's mode and apply symbolic manipulations
    let mut mode = entry.mode();
    let mut group = 0;
    let mut op = '0';
    let mut chars: Vec<char> = rev_chars(sym);

    let mut state = State::Target;
    while let Some(mut c) = chars.pop()
        invariant octal == 0, sym@.len() > 0, mode & !0o777u32 == entry.mode_spec() & !0o777u32, group & !0o777u32 == 0,
        decreases chars.len(), (if state == State::Perms { 1int } else { 0int })
    {
        match state {
            State::Target => {
                group = 0; // reset group for next chmod
                op = '0'; // reset op for next chmod

                loop
                    invariant octal == 0, sym@.len() > 0, mode & !0o777u32 == entry.mode_spec() & !0o777u32, group & !0o777u32 == 0,
                    decreases chars.len()
                {
                    if c != 'd' && c != 'f' && c != 'a' && c != ':' {
                        return Err(VfsError::InvalidChmodTarget.into_rv());
                    }
                    if entry.is_symlink() || (c == 'd' && !entry.is_dir()) || (c == 'f' && !entry.is_file()) {
                        return Ok(mode); // target mismatch so just return the original mode
                    } else if c == ':' {
                        state = State::Group;
                        break;
                    }
                    c = _pop(&mut chars, sym)?;
                }
            },
            State::Group => {
                loop
                    invariant octal == 0, sym@.len() > 0, mode & !0o777u32 == entry.mode_spec() & !0o777u32, group & !0o777u32 == 0,
                    decreases chars.len()
                {
                    match c {
                        'u' => group |= 0o0700,
                        'g' => group |= 0o0070,
                        'o' => group |= 0o0007,
                        'a' => group |= 0o0777,
                        '-' | '+' | '=' => {
                            op = c;
                            state = State::Perms;
                            break;
                        },
                        _ => return Err(VfsError::InvalidChmodGroup.into_rv()),
                    }
                    c = _pop(&mut chars, sym)?;
                }
                if group == 0 {
                    return Err(VfsError::InvalidChmodGroup.into_rv());
                }
                if op == '0' {
                    return Err(VfsError::InvalidChmodOp.into_rv());
                }
            },
            State::Perms => {
                let mut perm = 0;
                while state == State::Perms
                    invariant octal == 0, sym@.len() > 0, mode & !0o777u32 == entry.mode_spec() & !0o777u32, group & !0o777u32 == 0, perm & !0o777u32 == 0,
                    decreases chars.len(), (if state == State::Perms { 1int } else { 0int })
                {
                    match c {
                        'r' | 'w' | 'x' => {
                            // Accumulate current permission
                            match c {
                                'r' => perm |= 0o0444,
                                'w' => perm |= 0o0222,
                                _ => perm |= 0o0111,
                            }

                            // Get next permission or break if done
                            if !chars.is_empty() {
                                c = chars.pop().unwrap();
                            } else {
                                break;
                            }
                        },
                        ',' => {
                            state = State::Target;
                        },
                        _ => return Err(VfsError::InvalidChmodPermissions.into_rv()),
                    }
                }
                if perm == 0 {
                    return Err(VfsError::InvalidChmodPermissions.into_rv());
                }

                // Process permission
                match op {
                    '-' => mode &= !(group & perm),
                    '+' => mode |= group & perm,
                    _ => mode = (!group & mode) | (group & perm),
                }
            },
        }
    }

    Ok(mode)
}
} // verus!
fn main() {}
