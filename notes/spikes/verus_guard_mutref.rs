use vstd::prelude::*;
verus! {

// ---------- abstract path shim
#[verifier::external_body]
#[verifier::accept_recursive_types(T)]
pub struct Dummy<T> { t: T }

#[verifier::external_body]
pub struct PathBuf { inner: std::path::PathBuf }

pub type PathV = Seq<Seq<char>>;

impl View for PathBuf {
    type V = PathV;
    uninterp spec fn view(&self) -> PathV;
}

impl PathBuf {
    #[verifier::external_body]
    pub fn dir(&self) -> (r: Result<PathBuf, RvError>)
        ensures self@.len() > 0 ==> r is Ok && r->Ok_0@ == self@.drop_last(),
                self@.len() == 0 ==> r is Err,
    { unimplemented!() }

    #[verifier::external_body]
    pub fn clone(&self) -> (r: PathBuf) ensures r@ == self@ { unimplemented!() }
}

#[verifier::external_body]
pub struct RvError { e: Box<dyn std::error::Error> }

pub struct MemfsEntry {
    pub path: PathBuf,
    pub dir: bool,
    pub file: bool,
    pub link: bool,
    pub mode: u32,
}

impl MemfsEntry {
    pub fn is_dir(&self) -> (r: bool) ensures r == self.dir { self.dir }
    pub fn set_mode(&mut self, m: u32) ensures final(self).mode == m, final(self).dir == old(self).dir,
        final(self).path@ == old(self).path@, final(self).file == old(self).file, final(self).link == old(self).link
    { self.mode = m; }
}

#[verifier::external_body]
pub struct MemfsGuard { g: u8 }

pub struct EntryV { pub dir: bool, pub file: bool, pub link: bool, pub mode: u32 }

impl MemfsGuard {
    pub uninterp spec fn entries(&self) -> Map<PathV, EntryV>;

    #[verifier::external_body]
    pub fn get_entry(&self, path: &PathBuf) -> (r: Option<&MemfsEntry>)
        ensures
            r is Some <==> self.entries().contains_key(path@),
            r is Some ==> r->Some_0.dir == self.entries()[path@].dir && r->Some_0.path@ == path@,
    { unimplemented!() }

    #[verifier::external_body]
    pub fn get_entry_mut(&mut self, path: &PathBuf) -> (r: Option<&mut MemfsEntry>)
        ensures
            r is Some <==> old(self).entries().contains_key(path@),
            r is Some ==> r->Some_0.dir == old(self).entries()[path@].dir,
            r is None ==> final(self).entries() == old(self).entries(),
            r is Some ==> final(self).entries() == old(self).entries().insert(path@, EntryV{ dir: final(r->Some_0).dir, file: final(r->Some_0).file, link: final(r->Some_0).link, mode: final(r->Some_0).mode }),
    { unimplemented!() }
}

fn chmod_one(guard: &mut MemfsGuard, p: &PathBuf, m: u32) -> (r: Result<(), RvError>)
    ensures
        old(guard).entries().contains_key(p@) ==> final(guard).entries()[p@].mode == m,
        forall|q: PathV| q != p@ ==> (final(guard).entries().contains_key(q) <==> old(guard).entries().contains_key(q)),
{
    let d = p.dir()?;
    if let Some(e) = guard.get_entry(&d) {
        if !e.is_dir() { return Ok(()); }
    }
    if let Some(entry) = guard.get_entry_mut(p) {
        entry.set_mode(m);
    }
    Ok(())
}

} // verus!
fn main() {}
