use vstd::prelude::*;
use std::collections::HashSet;
use std::collections::HashMap;
verus! {

broadcast use vstd::std_specs::hash::group_hash_axioms;

fn hs(files: &mut HashSet<String>, name: String) -> (b: bool)
    ensures final(files)@ == old(files)@.insert(name), b == !old(files)@.contains(name)
{
    files.insert(name)
}

fn lit(x: &str) -> (b: bool)
    ensures b == (x@ == "XDG_CONFIG_HOME"@)
{
    x == "XDG_CONFIG_HOME"
}

pub uninterp spec fn env(name: Seq<char>) -> Option<Seq<char>>;

#[verifier::external_body]
fn env_var(name: &str) -> (r: Result<String, ()>)
    ensures match env(name@) { Some(v) => r is Ok && r->Ok_0@ == v, None => r is Err }
{ unimplemented!() }

fn cfg() -> (r: Option<String>)
    ensures match env("XDG_CONFIG_HOME"@) { Some(v) => r is Some && r->Some_0@ == v, None => r is None }
{
    match env_var("XDG_CONFIG_HOME") {
        Ok(x) => Some(x),
        Err(_) => None,
    }
}

} // verus!
fn main() {}
