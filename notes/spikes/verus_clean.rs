use vstd::prelude::*;
verus! {

#[derive(PartialEq, Eq, Structural, Clone, Copy)]
pub struct Name(pub u64);

#[derive(PartialEq, Eq, Structural, Clone, Copy)]
pub enum Component { RootDir, CurDir, ParentDir, Normal(Name) }

pub type Comps = Seq<Component>;

// well-formedness of what std::path::Path::components() yields (documented normalisation)
pub open spec fn std_comps(s: Comps) -> bool {
    forall|i: int| 0 < i < s.len() ==> s[i] != Component::RootDir && s[i] != Component::CurDir
}

#[verifier::external_body]
pub struct Components { x: u8 }
impl Components {
    pub uninterp spec fn rest(&self) -> Comps;
    #[verifier::external_body]
    pub fn next(&mut self) -> (r: Option<Component>)
        ensures old(self).rest().len() == 0 ==> r is None && final(self).rest() == old(self).rest(),
                old(self).rest().len() > 0 ==> r == Some(old(self).rest()[0]) && final(self).rest() == old(self).rest().skip(1),
    { unimplemented!() }
    #[verifier::external_body]
    pub fn last(self) -> (r: Option<Component>)
        ensures self.rest().len() == 0 ==> r is None,
                self.rest().len() > 0 ==> r == Some(self.rest().last()),
    { unimplemented!() }
}

#[verifier::external_body]
pub struct PathBuf { x: u8 }

pub open spec fn push_spec(s: Comps, c: Component) -> Comps {
    if c == Component::RootDir { seq![Component::RootDir] }
    else if c == Component::CurDir && s.len() > 0 { s }
    else { s.push(c) }
}
pub open spec fn pop_spec(s: Comps) -> Comps {
    if s.len() > 0 && s.last() != Component::RootDir { s.drop_last() } else { s }
}

impl PathBuf {
    pub uninterp spec fn comps(&self) -> Comps;
    #[verifier::external_body]
    pub fn new() -> (r: PathBuf) ensures r.comps() == Seq::<Component>::empty() { unimplemented!() }
    #[verifier::external_body]
    pub fn components(&self) -> (r: Components) ensures r.rest() == self.comps() { unimplemented!() }
    #[verifier::external_body]
    pub fn push(&mut self, c: Component) ensures final(self).comps() == push_spec(old(self).comps(), c) { unimplemented!() }
    #[verifier::external_body]
    pub fn push_dot(&mut self) ensures final(self).comps() == push_spec(old(self).comps(), Component::CurDir) { unimplemented!() }
    #[verifier::external_body]
    pub fn pop(&mut self) -> (b: bool) ensures final(self).comps() == pop_spec(old(self).comps()) { unimplemented!() }
}

#[verifier::external_body]
pub fn is_empty(p: &PathBuf) -> (b: bool) ensures b == (p.comps().len() == 0) { unimplemented!() }

pub trait OptionExt {
    fn has(&self, c: Component) -> (b: bool);
}
impl OptionExt for Option<Component> {
    fn has(&self, c: Component) -> (b: bool)
        ensures b == (*self == Some(c))
    {
        match self { Some(y) => c == *y, None => false }
    }
}

// ---- the specification: Go's path.Clean on component level (stack semantics)
pub open spec fn step(st: Comps, c: Component) -> Comps {
    match c {
        Component::CurDir => st,
        Component::ParentDir =>
            if st.len() == 0 { st.push(c) }
            else if st.last() == Component::RootDir { st }
            else if st.last() == Component::ParentDir { st.push(c) }
            else { st.drop_last() },
        _ => push_spec(st, c),
    }
}
pub open spec fn fold(st: Comps, s: Comps) -> Comps
    decreases s.len()
{
    if s.len() == 0 { st } else { fold(step(st, s[0]), s.skip(1)) }
}
pub open spec fn spec_clean(s: Comps) -> Comps {
    let r = fold(Seq::empty(), s);
    if r.len() == 0 { seq![Component::CurDir] } else { r }
}

pub open spec fn stack_ok(st: Comps) -> bool {
    forall|i: int| 0 <= i < st.len() ==> (st[i] != Component::CurDir && (i > 0 ==> st[i] != Component::RootDir))
}

pub fn clean(path: &PathBuf) -> (out: PathBuf)
    requires std_comps(path.comps()),
    ensures out.comps() == spec_clean(path.comps()),
{
    let mut cnt: usize = 0;
    let mut prev: Option<Component> = None;
    let mut path_buf = PathBuf::new();
    let mut it = path.components();
    let ghost all = path.comps();
    let ghost mut k: int = 0;
    loop
        invariant
            0 <= k <= all.len(),
            it.rest() == all.skip(k),
            all == path.comps(), std_comps(all),
            cnt == path_buf.comps().len(),
            k == 0 ==> path_buf.comps().len() == 0,
            prev == (if path_buf.comps().len() == 0 { None } else { Some(path_buf.comps().last()) }),
            stack_ok(path_buf.comps()),
            fold(path_buf.comps(), it.rest()) == fold(Seq::empty(), all),
        ensures
            it.rest().len() == 0,
        decreases all.len() - k
    {
        let component = match it.next() { Some(c) => c, None => break };
        proof { k = k + 1; }
        match component {
            // 2. Eliminate . path name at begining of path for simplicity
            x if x == Component::CurDir && cnt == 0 => continue,

            // 5. Leave .. begining non rooted path
            x if x == Component::ParentDir && cnt > 0 && !prev.has(Component::ParentDir) => {
                match prev.unwrap() {
                    // 4. Eliminate .. elements that begin a root path
                    Component::RootDir => {},

                    // 3. Eliminate inner .. path name elements
                    Component::Normal(_) => {
                        cnt -= 1;
                        path_buf.pop();
                        prev = path_buf.components().last();
                    },
                    _ => {},
                }
                continue;
            },

            // Normal
            _ => {
                assume(cnt < usize::MAX);
                cnt += 1;
                path_buf.push(component);
                prev = Some(component);
            },
        };
    }

    // Ensure if empty the current dir is returned
    if is_empty(&path_buf) {
        path_buf.push_dot();
    }
    path_buf
}

} // verus!
fn main() {}
