use vstd::prelude::*;
verus! {

// Shim: a double-ended, cloneable iterator over a ghost sequence (assumed contract of std iterators
// such as vec::IntoIter / path::Components).
#[verifier::external_body]
#[verifier::reject_recursive_types(T)]
pub struct DeIter<T> { v: std::collections::VecDeque<T> }

impl<T> DeIter<T> {
    pub uninterp spec fn rest(&self) -> Seq<T>;

    // models `(self.clone()).count()`
    #[verifier::external_body]
    pub fn clone_count(&self) -> (n: usize)
        ensures n == self.rest().len()
    { unimplemented!() }

    // models Iterator::nth
    #[verifier::external_body]
    pub fn nth(&mut self, n: usize) -> (r: Option<T>)
        ensures
            n < old(self).rest().len() ==> r == Some(old(self).rest()[n as int]) && final(self).rest() == old(self).rest().skip(n as int + 1),
            n >= old(self).rest().len() ==> r is None && final(self).rest() == Seq::<T>::empty(),
    { unimplemented!() }

    // models `(&mut self).rev().nth(n)`
    #[verifier::external_body]
    pub fn rev_nth(&mut self, n: usize) -> (r: Option<T>)
        ensures
            n < old(self).rest().len() ==> final(self).rest() == old(self).rest().take(old(self).rest().len() - n as int - 1),
            n >= old(self).rest().len() ==> r is None && final(self).rest() == Seq::<T>::empty(),
    { unimplemented!() }
}

pub assume_specification [isize::unsigned_abs] (x: isize) -> (r: usize)
    ensures r as int == (if x < 0 { -(x as int) } else { x as int });
pub assume_specification [isize::abs] (x: isize) -> (r: isize)
    requires x > isize::MIN
    ensures r as int == (if x < 0 { -(x as int) } else { x as int });

pub open spec fn norm_l(len: int, left: int) -> int { if left < 0 { len + left } else { left } }
pub open spec fn norm_r(len: int, right: int) -> int { if right < 0 { len + right } else if right >= len { len - 1 } else { right } }

pub open spec fn spec_slice<T>(s: Seq<T>, left: int, right: int) -> Seq<T> {
    let len = s.len() as int;
    let lo = norm_l(len, left);
    let hi = norm_r(len, right);
    if 0 <= lo && lo <= hi && hi < len { s.subrange(lo, hi + 1) } else { Seq::empty() }
}

fn slice<T>(mut this: DeIter<T>, left: isize, right: isize) -> (r: DeIter<T>)
    requires right != 0, left >= -(this.rest().len() as int), this.rest().len() < isize::MAX, right > isize::MIN,
    ensures r.rest() =~= spec_slice(this.rest(), left as int, right as int)
{
        // Convert left to postive notation and trim
        let (mut l, mut r): (usize, usize) = (left as usize, 0);
        let len = (this.clone_count()) as isize;
        if left < 0 {
            l = (len + left) as usize;
        }
        if l > 0 {
            this.nth(l - 1);
        }

        // Convert right to negative notation and trim.
        // Offset to have inclusive behavior.
        if right > 0 && right < len {
            r = (right - len + 1).unsigned_abs();
        } else if right < 0 && right.abs() <= len {
            r = (right.abs() - 1).unsigned_abs();
        } else if right < 0 {
            r = len as usize;
        }
        if r > 0 {
            this.rev_nth(r - 1);
        }

        // Get first or last
        if left == 0 && right == 0 {
            let i = len - 2;
            if i > 0 {
                this.rev_nth(i as usize);
            }
        }

        this
}

} // verus!
fn main() {}
