use rivia::prelude::*;
fn main() {
    let vfs = Memfs::new();
    vfs.mkdir_p("/d").unwrap();
    vfs.mkfile("/f").unwrap();
    vfs.symlink("/lf", "/f").unwrap();
    vfs.symlink("/ld", "/d").unwrap();
    println!("is_file(/lf)={} is_dir(/ld)={} is_symlink(/lf)={}", vfs.is_file("/lf"), vfs.is_dir("/ld"), vfs.is_symlink("/lf"));
    println!("mkfile under link: {:?}", vfs.mkfile("/ld/x"));
    println!("exists /ld/x {} exists /d/x {}", vfs.exists("/ld/x"), vfs.exists("/d/x"));
    println!("{}", vfs);
    // slice
    println!("slice(0,0) len2: {:?}", vec![0,1].into_iter().slice(0,0).collect::<Vec<_>>());
    println!("slice(1,0) len3: {:?}", vec![0,1,2].into_iter().slice(1,0).collect::<Vec<_>>());
    println!("mash: {:?}", sys::mash("/foo", "//bar"));
    println!("trim_prefix: {:?}", std::panic::catch_unwind(|| sys::trim_prefix("éa/b", "é")));
    println!("trim_suffix: {:?}", std::panic::catch_unwind(|| sys::trim_suffix("a/bé", "é")));
    println!("expand foo$: {:?}", sys::expand("foo$"));
    println!("clean: {:?}", sys::clean("a/../../b"));
    // move_p failure
    let v = Memfs::new();
    v.mkfile("/a").unwrap();
    println!("move_p /a /nodir/b: {:?}", v.move_p("/a", "/nodir/b").map_err(|e| e.to_string()));
    println!("{}", v);
    // seek
    let v = Memfs::new();
    v.write_all("/f", "hello").unwrap();
    let mut r = v.read("/f").unwrap();
    println!("seek -1: {:?}", r.seek(SeekFrom::Current(-1)).map_err(|e| e.to_string()));
    let mut r = v.read("/f").unwrap();
    println!("seek 10: {:?}", r.seek(SeekFrom::Start(10)).map_err(|e| e.to_string()));
    let mut b=[0u8;2];
    println!("read after: {:?}", std::panic::catch_unwind(std::panic::AssertUnwindSafe(|| r.read(&mut b).map_err(|e| e.to_string()))));
}
