use vstd::prelude::*;
verus! {

#[verifier::external_body] pub struct Memfs { x: u8 }
#[verifier::external_body] pub struct Stdfs { x: u8 }
#[verifier::external_body] pub struct PathBuf { x: u8 }
#[verifier::external_body] pub struct RvError { x: u8 }
pub type RvResult<T> = Result<T, RvError>;

pub uninterp spec fn memfs_mkfile_m<T>(s: &Memfs, path: T, mode: u32, r: RvResult<PathBuf>) -> bool;
pub uninterp spec fn stdfs_mkfile_m<T>(s: &Stdfs, path: T, mode: u32, r: RvResult<PathBuf>) -> bool;
pub uninterp spec fn memfs_mkfile<T>(s: &Memfs, path: T, r: RvResult<PathBuf>) -> bool;

impl Memfs {
    #[verifier::external_body]
    pub fn mkfile_m<T>(&self, path: T, mode: u32) -> (r: RvResult<PathBuf>)
        ensures memfs_mkfile_m(self, path, mode, r) { unimplemented!() }
    #[verifier::external_body]
    pub fn mkfile<T>(&self, path: T) -> (r: RvResult<PathBuf>)
        ensures memfs_mkfile(self, path, r) { unimplemented!() }
}
impl Stdfs {
    #[verifier::external_body]
    pub fn mkfile_m<T>(&self, path: T, mode: u32) -> (r: RvResult<PathBuf>)
        ensures stdfs_mkfile_m(self, path, mode, r) { unimplemented!() }
}

pub enum Vfs { Stdfs(Stdfs), Memfs(Memfs) }

impl Vfs {
    fn mkfile_m<T>(&self, path: T, mode: u32) -> (r: RvResult<PathBuf>)
        ensures match self {
            Vfs::Stdfs(x) => stdfs_mkfile_m(x, path, mode, r),
            Vfs::Memfs(x) => memfs_mkfile_m(x, path, mode, r),
        }
    {
        match self {
            Vfs::Stdfs(x) => x.mkfile_m(path, mode),
            Vfs::Memfs(x) => x.mkfile_m(path, mode),
        }
    }
    fn mkfile_m_bad<T>(&self, path: T, mode: u32) -> (r: RvResult<PathBuf>)
        ensures match self {
            Vfs::Stdfs(x) => stdfs_mkfile_m(x, path, mode, r),
            Vfs::Memfs(x) => memfs_mkfile_m(x, path, mode, r),
        }
    {
        match self {
            Vfs::Stdfs(x) => x.mkfile_m(path, mode),
            Vfs::Memfs(x) => x.mkfile(path),
        }
    }
}
} // verus!
fn main() {}
