//@ requires base
// ---- rivia error types, reduced to their *kind* (R5: formatted message / payload / backtrace dropped)
// ASSUMED[errors-kind]: errors/*.rs constructors build the variant named like the constructor; `.into()`/`?` wrap it in RvError keeping the variant (From impls in errors/mod.rs)
#[derive(PartialEq, Eq, Structural, Clone, Copy)]
pub enum ErrKind {
    // PathError
    DirContainsFiles, DirDoesNotMatchParent, DoesNotExist, Empty, ExistsAlready, ExtensionNotFound, FailedToString,
    FileNameNotFound, InvalidExpansion, IsNotDir, IsNotExec, IsNotFile, IsNotSymlink, IsNotFileOrSymlinkToFile,
    LinkLooping, MultipleHomeSymbols, ParentNotFound,
    // IterError
    ItemNotFound, MultipleItemsFound, MutuallyExclusiveIndicies,
    // StringError
    StringFailedToString,
    // VfsError
    InvalidChmod, InvalidChmodGroup, InvalidChmodOp, InvalidChmodPermissions, InvalidChmodTarget, Unavailable, WrongProvider,
    // std errors carried through RvError
    Io, Var, Utf8, Other,
}
pub struct RvError { pub kind: ErrKind }
pub type RvResult<T> = Result<T, RvError>;

pub struct PathError { pub kind: ErrKind }
impl PathError {
    pub fn dir_contains_files<T>(_p: T) -> (r: PathError) ensures r.kind == ErrKind::DirContainsFiles { PathError { kind: ErrKind::DirContainsFiles } }
    pub fn does_not_exist<T>(_p: T) -> (r: PathError) ensures r.kind == ErrKind::DoesNotExist { PathError { kind: ErrKind::DoesNotExist } }
    pub fn exists_already<T>(_p: T) -> (r: PathError) ensures r.kind == ErrKind::ExistsAlready { PathError { kind: ErrKind::ExistsAlready } }
    pub fn extension_not_found<T>(_p: T) -> (r: PathError) ensures r.kind == ErrKind::ExtensionNotFound { PathError { kind: ErrKind::ExtensionNotFound } }
    pub fn failed_to_string<T>(_p: T) -> (r: PathError) ensures r.kind == ErrKind::FailedToString { PathError { kind: ErrKind::FailedToString } }
    pub fn filename_not_found<T>(_p: T) -> (r: PathError) ensures r.kind == ErrKind::FileNameNotFound { PathError { kind: ErrKind::FileNameNotFound } }
    pub fn invalid_expansion<T>(_p: T) -> (r: PathError) ensures r.kind == ErrKind::InvalidExpansion { PathError { kind: ErrKind::InvalidExpansion } }
    pub fn is_not_dir<T>(_p: T) -> (r: PathError) ensures r.kind == ErrKind::IsNotDir { PathError { kind: ErrKind::IsNotDir } }
    pub fn is_not_exec<T>(_p: T) -> (r: PathError) ensures r.kind == ErrKind::IsNotExec { PathError { kind: ErrKind::IsNotExec } }
    pub fn is_not_file<T>(_p: T) -> (r: PathError) ensures r.kind == ErrKind::IsNotFile { PathError { kind: ErrKind::IsNotFile } }
    pub fn is_not_symlink<T>(_p: T) -> (r: PathError) ensures r.kind == ErrKind::IsNotSymlink { PathError { kind: ErrKind::IsNotSymlink } }
    pub fn is_not_file_or_symlink_to_file<T>(_p: T) -> (r: PathError) ensures r.kind == ErrKind::IsNotFileOrSymlinkToFile { PathError { kind: ErrKind::IsNotFileOrSymlinkToFile } }
    pub fn link_looping<T>(_p: T) -> (r: PathError) ensures r.kind == ErrKind::LinkLooping { PathError { kind: ErrKind::LinkLooping } }
    pub fn multiple_home_symbols<T>(_p: T) -> (r: PathError) ensures r.kind == ErrKind::MultipleHomeSymbols { PathError { kind: ErrKind::MultipleHomeSymbols } }
    pub fn parent_not_found<T>(_p: T) -> (r: PathError) ensures r.kind == ErrKind::ParentNotFound { PathError { kind: ErrKind::ParentNotFound } }
    // enum-variant spellings used directly in the code (`PathError::Empty.into()`, `PathError::ParentNotFound(p).into()`)
    pub fn Empty_() -> (r: PathError) ensures r.kind == ErrKind::Empty { PathError { kind: ErrKind::Empty } }
    pub fn into(self) -> (r: RvError) ensures r.kind == self.kind { RvError { kind: self.kind } }
}
pub struct IterError { pub kind: ErrKind }
impl IterError {
    pub fn item_not_found() -> (r: IterError) ensures r.kind == ErrKind::ItemNotFound { IterError { kind: ErrKind::ItemNotFound } }
    pub fn multiple_items_found() -> (r: IterError) ensures r.kind == ErrKind::MultipleItemsFound { IterError { kind: ErrKind::MultipleItemsFound } }
    pub fn mutually_exclusive_indicies() -> (r: IterError) ensures r.kind == ErrKind::MutuallyExclusiveIndicies { IterError { kind: ErrKind::MutuallyExclusiveIndicies } }
    pub fn into(self) -> (r: RvError) ensures r.kind == self.kind { RvError { kind: self.kind } }
}

pub struct VfsError { pub kind: ErrKind }
impl VfsError {
    // R5: enum-variant constructors with the message payload dropped
    pub fn InvalidChmod_() -> (r: VfsError) ensures r.kind == ErrKind::InvalidChmod { VfsError { kind: ErrKind::InvalidChmod } }
    pub fn InvalidChmodGroup_() -> (r: VfsError) ensures r.kind == ErrKind::InvalidChmodGroup { VfsError { kind: ErrKind::InvalidChmodGroup } }
    pub fn InvalidChmodOp_() -> (r: VfsError) ensures r.kind == ErrKind::InvalidChmodOp { VfsError { kind: ErrKind::InvalidChmodOp } }
    pub fn InvalidChmodPermissions_() -> (r: VfsError) ensures r.kind == ErrKind::InvalidChmodPermissions { VfsError { kind: ErrKind::InvalidChmodPermissions } }
    pub fn InvalidChmodTarget_() -> (r: VfsError) ensures r.kind == ErrKind::InvalidChmodTarget { VfsError { kind: ErrKind::InvalidChmodTarget } }
    pub fn into(self) -> (r: RvError) ensures r.kind == self.kind { RvError { kind: self.kind } }
}
