//@ requires base
// ---- std::io / std::cmp shims
pub mod io {
    use vstd::prelude::*;
    pub enum ErrorKind { NotFound, InvalidInput, Other }
    // ASSUMED[io-error]: io::Error::new(kind, msg) builds an error of that kind (message dropped, R5)
    pub struct Error { pub kind: ErrorKind }
    pub struct Msg {}
    impl Error {
        pub fn new<M>(kind: ErrorKind, _m: M) -> (r: Error) ensures r.kind == kind { Error { kind } }
    }
    pub type Result<T> = core::result::Result<T, Error>;
    pub enum SeekFrom { Start(u64), End(i64), Current(i64) }
}
pub mod cmp {
    use vstd::prelude::*;
    pub trait IntLike: Sized + Copy { spec fn as_i(self) -> int; }
    impl IntLike for usize { open spec fn as_i(self) -> int { self as int } }
    impl IntLike for u64 { open spec fn as_i(self) -> int { self as int } }
    impl IntLike for u32 { open spec fn as_i(self) -> int { self as int } }
    impl IntLike for isize { open spec fn as_i(self) -> int { self as int } }
    // ASSUMED[cmp-min]: std::cmp::min / max on the primitive integer types
    #[verifier::external_body]
    pub fn min<T: IntLike>(a: T, b: T) -> (r: T) ensures r == (if a.as_i() <= b.as_i() { a } else { b }) { unimplemented!() }
    #[verifier::external_body]
    pub fn max<T: IntLike>(a: T, b: T) -> (r: T) ensures r == (if a.as_i() >= b.as_i() { a } else { b }) { unimplemented!() }
}
