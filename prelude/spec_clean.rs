//@ requires base errors iter strs path_comps
// ---- the specification: Go's path.Clean at component level (stack semantics), written from the property statement
//  rule 2 drop `.`                       -> CurDir never enters the stack
//  rule 3 inner `..` cancels a Normal    -> pop
//  rule 4 `..` directly under the root   -> dropped
//  rule 5 leading `..` of a relative path is kept
//  rules 1 and 6 (repeated / trailing separators) are performed by Path::components (ASSUMED[path-components])
//  empty result -> `.`
pub open spec fn step(st: Comps, c: Component) -> Comps {
    match c {
        Component::CurDir => st,
        Component::ParentDir =>
            if st.len() == 0 { st.push(c) }
            else if st.last() == Component::RootDir { st }
            else if st.last() == Component::ParentDir { st.push(c) }
            else { st.drop_last() },
        Component::RootDir => seq![Component::RootDir],
        Component::Normal(_) => st.push(c),
    }
}
pub open spec fn fold(st: Comps, s: Comps) -> Comps
    decreases s.len()
{
    if s.len() == 0 { st } else { fold(step(st, s[0]), s.skip(1)) }
}
pub open spec fn spec_clean(s: Comps) -> Comps {
    let r = fold(Seq::empty(), s);
    if r.len() == 0 { seq![Component::CurDir] } else { r }
}
// shape of the stack: no CurDir, RootDir only at the bottom
pub open spec fn stack_ok(st: Comps) -> bool {
    forall|i: int| 0 <= i < st.len() ==> (st[i] != Component::CurDir && (i > 0 ==> st[i] != Component::RootDir))
}
pub open spec fn last_opt(st: Comps) -> Option<Component> { if st.len() == 0 { None } else { Some(st.last()) } }


// ---- consequences of the specification (induction over the fold; spec-level lemmas)
pub open spec fn is_normal(c: Component) -> bool { c is Normal }
// normal form: optional RootDir, then (only for relative paths) leading `..`s, then Normal names only
pub open spec fn clean_form(st: Comps) -> bool {
    &&& stack_ok(st)
    &&& forall|i: int| 0 < i < st.len() && #[trigger] st[i] == Component::ParentDir ==> st[i - 1] == Component::ParentDir
}

pub proof fn lemma_step_form(st: Comps, c: Component)
    requires clean_form(st), st.len() > 0 ==> c != Component::RootDir
    ensures clean_form(step(st, c))
{
    let r = step(st, c);
    assert forall|i: int| 0 <= i < r.len() implies (r[i] != Component::CurDir && (i > 0 ==> r[i] != Component::RootDir)) by { }
    assert forall|i: int| 0 < i < r.len() && #[trigger] r[i] == Component::ParentDir implies r[i - 1] == Component::ParentDir by { }
}

pub proof fn lemma_fold_form(st: Comps, s: Comps)
    requires clean_form(st), forall|i: int| 0 <= i < s.len() && (i > 0 || st.len() > 0) ==> s[i] != Component::RootDir
    ensures clean_form(fold(st, s))
    decreases s.len()
{
    if s.len() > 0 {
        lemma_step_form(st, s[0]);
        let st2 = step(st, s[0]);
        let s2 = s.skip(1);
        assert forall|i: int| 0 <= i < s2.len() && (i > 0 || st2.len() > 0) implies s2[i] != Component::RootDir by { assert(s2[i] == s[i + 1]); }
        lemma_fold_form(st2, s2);
    }
}

// (a) the result is in clean normal form and never empty
pub proof fn lemma_clean_normal_form(s: Comps)
    requires std_comps(s)
    ensures clean_form(spec_clean(s)) || spec_clean(s) == seq![Component::CurDir], spec_clean(s).len() > 0     //@ clause clean.never_empty [C14]
{
    lemma_fold_form(Seq::empty(), s);
}

// (b) cleaning a clean path changes nothing (idempotence): a stack in clean form is a fixpoint of the fold
pub proof fn lemma_fold_fix(st: Comps, s: Comps)
    requires clean_form(st + s), stack_ok(st + s)
    ensures fold(st, s) == st + s
    decreases s.len()
{
    if s.len() == 0 {
        assert(st + s =~= st);
    } else {
        let c = s[0];
        let w = st + s;
        assert(w[st.len() as int] == c);
        assert(c != Component::CurDir);
        if c == Component::ParentDir {
            if st.len() > 0 {
                assert(w[st.len() as int - 1] == Component::ParentDir);
                assert(st.last() == Component::ParentDir);
            }
        }
        if c == Component::RootDir {
            assert(st.len() == 0);
            assert(step(st, c) =~= st.push(c));
        }
        assert(step(st, c) == st.push(c));
        assert(st.push(c) + s.skip(1) =~= st + s);
        lemma_fold_fix(st.push(c), s.skip(1));
    }
}

pub proof fn lemma_clean_idempotent(s: Comps)
    requires std_comps(s)
    ensures spec_clean(spec_clean(s)) == spec_clean(s)     //@ clause clean.idempotent [C14]
{
    lemma_clean_normal_form(s);
    let r = spec_clean(s);
    if r == seq![Component::CurDir] {
        assert(fold(Seq::empty(), r) == fold(step(Seq::empty(), r[0]), r.skip(1)));
        assert(r.skip(1) =~= Seq::<Component>::empty());
        assert(fold(Seq::<Component>::empty(), Seq::<Component>::empty()) == Seq::<Component>::empty());
    } else {
        assert(Seq::<Component>::empty() + r =~= r);
        lemma_fold_fix(Seq::empty(), r);
    }
}

// (c) absoluteness is preserved: the result starts with RootDir iff the input does
pub proof fn lemma_fold_abs(st: Comps, s: Comps)
    requires forall|i: int| 0 <= i < s.len() && (i > 0 || st.len() > 0) ==> s[i] != Component::RootDir,
             st.len() > 0
    ensures fold(st, s).len() > 0 ==> (is_abs(fold(st, s)) == is_abs(st)), is_abs(st) ==> is_abs(fold(st, s))
    decreases s.len()
{
    if s.len() > 0 {
        let st2 = step(st, s[0]);
        let s2 = s.skip(1);
        assert forall|i: int| 0 <= i < s2.len() && (i > 0 || st2.len() > 0) implies s2[i] != Component::RootDir by { assert(s2[i] == s[i + 1]); }
        if st2.len() > 0 {
            assert(st2[0] == st[0]);
            assert(is_abs(st2) == is_abs(st));
            lemma_fold_abs(st2, s2);
            assert(fold(st, s) == fold(st2, s2));
        } else {
            // st had one non-root Normal element that was cancelled: the rest is folded from an empty relative stack
            assert(st.len() == 1 && st2 =~= st.drop_last());
            assert(!is_abs(st));
            assert forall|i: int| 0 <= i < s2.len() implies s2[i] != Component::RootDir by { assert(s2[i] == s[i + 1]); }
            lemma_fold_rel(s2);
            assert(st2 =~= Seq::<Component>::empty());
            assert(fold(st, s) == fold(st2, s2));
        }
    }
}
pub proof fn lemma_fold_rel(s: Comps)
    requires forall|i: int| 0 <= i < s.len() ==> s[i] != Component::RootDir
    ensures !is_abs(fold(Seq::empty(), s))
    decreases s.len()
{
    if s.len() > 0 {
        let st2 = step(Seq::empty(), s[0]);
        let s2 = s.skip(1);
        assert forall|i: int| 0 <= i < s2.len() implies s2[i] != Component::RootDir by { assert(s2[i] == s[i + 1]); }
        if st2.len() == 0 { lemma_fold_rel(s2); } else {
            assert(!is_abs(st2));
            assert forall|i: int| 0 <= i < s2.len() && (i > 0 || st2.len() > 0) implies s2[i] != Component::RootDir by { }
            lemma_fold_abs(st2, s2);
        }
    }
}
pub proof fn lemma_clean_preserves_absoluteness(s: Comps)
    requires std_comps(s)
    ensures is_abs(spec_clean(s)) == is_abs(s)      //@ clause clean.preserves_absoluteness [C14]
{
    if s.len() == 0 { } else if s[0] == Component::RootDir {
        let st2 = step(Seq::empty(), s[0]);
        let s2 = s.skip(1);
        assert forall|i: int| 0 <= i < s2.len() && (i > 0 || st2.len() > 0) implies s2[i] != Component::RootDir by { assert(s2[i] == s[i + 1]); }
        lemma_fold_abs(st2, s2);
    } else {
        assert forall|i: int| 0 <= i < s.len() implies s[i] != Component::RootDir by { }
        lemma_fold_rel(s);
    }
}
