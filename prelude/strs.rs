//@ requires base
// ---- string shim: String / &str are seen as Seq<char>; byte lengths through an abstract UTF-8 width per character
// ASSUMED[str-utf8]: len() is the UTF-8 byte length = sum of the widths (1..=4) of the characters; chars().count() is the
//   number of characters; slicing `s[a..b]` panics unless a <= b <= len() and both are character boundaries, else yields the
//   characters in between; starts_with / ends_with / contains compare character sequences (std docs of str).
pub uninterp spec fn char_len(c: char) -> nat;
#[verifier::external_body]
pub proof fn ax_char_len(c: char) ensures 1 <= char_len(c) <= 4 { }
pub open spec fn byte_len(s: Seq<char>) -> nat decreases s.len() {
    if s.len() == 0 { 0 } else { byte_len(s.drop_last()) + char_len(s.last()) }
}
// n is a character boundary of s: some prefix of s is exactly n bytes long
pub open spec fn is_boundary(s: Seq<char>, n: int) -> bool { exists|k: int| 0 <= k <= s.len() && #[trigger] byte_len(s.take(k)) == n }
pub open spec fn is_prefix(p: Seq<char>, s: Seq<char>) -> bool { p.len() <= s.len() && s.take(p.len() as int) == p }
pub open spec fn is_suffix(t: Seq<char>, s: Seq<char>) -> bool { t.len() <= s.len() && s.skip(s.len() - t.len()) == t }

pub proof fn lemma_byte_len_add(a: Seq<char>, b: Seq<char>)
    ensures byte_len(a + b) == byte_len(a) + byte_len(b)
    decreases b.len()
{
    if b.len() == 0 { assert(a + b =~= a); } else {
        assert((a + b).drop_last() =~= a + b.drop_last());
        assert((a + b).last() == b.last());
        lemma_byte_len_add(a, b.drop_last());
    }
}
pub proof fn lemma_byte_len_mono(s: Seq<char>, i: int, j: int)
    requires 0 <= i <= j <= s.len()
    ensures byte_len(s.take(i)) <= byte_len(s.take(j)), i < j ==> byte_len(s.take(i)) < byte_len(s.take(j)), byte_len(s.take(j)) >= j
    decreases j
{
    if j == 0 { assert(s.take(0) =~= Seq::<char>::empty()); }
    else {
        assert(s.take(j).drop_last() =~= s.take(j - 1));
        ax_char_len(s.take(j).last());
        if i < j { lemma_byte_len_mono(s, i, j - 1); } else { lemma_byte_len_mono(s, j - 1, j - 1); }
    }
}
// the prefix of s that is n bytes long is unique
pub proof fn lemma_boundary_unique(s: Seq<char>, i: int, j: int)
    requires 0 <= i <= s.len(), 0 <= j <= s.len(), byte_len(s.take(i)) == byte_len(s.take(j))
    ensures i == j
{
    if i < j { lemma_byte_len_mono(s, i, j); } else if j < i { lemma_byte_len_mono(s, j, i); }
}

pub open spec fn strip_trailing(s: Seq<char>, c: char) -> Seq<char> decreases s.len() { if s.len() > 0 && s.last() == c { strip_trailing(s.drop_last(), c) } else { s } }
pub trait StrPat: Sized { spec fn pat(&self) -> Seq<char>; }
impl<'a> StrPat for &'a Str { open spec fn pat(&self) -> Seq<char> { (**self)@ } }
impl StrPat for char { open spec fn pat(&self) -> Seq<char> { seq![*self] } }
impl StrPat for &'static str { open spec fn pat(&self) -> Seq<char> { (*self)@ } }
// R1: an owned String or a &str/&String where std takes `impl Into<PathBuf>` / `AsRef<OsStr>`
pub trait StrArg: Sized { spec fn sv(&self) -> Seq<char>; }
impl<'a> StrArg for &'a Str { open spec fn sv(&self) -> Seq<char> { (**self)@ } }
impl StrArg for Str { open spec fn sv(&self) -> Seq<char> { self@ } }
#[verifier::external_body]
pub struct Str { s: String }     // R1: String, &str, &String share one view
pub open spec fn occurs_at(pat: Seq<char>, s: Seq<char>, k: int) -> bool { 0 <= k && k + pat.len() <= s.len() && s.subrange(k, k + pat.len()) == pat }
impl Str {
    pub uninterp spec fn view(&self) -> Seq<char>;
    // StringExt::trim_suffix (rivia): removes exactly one trailing occurrence or nothing (proved on the real body in unit core_string)
    #[verifier::external_body]
    pub fn trim_suffix<P: StrPat>(&self, t: P) -> (r: Str)
        ensures is_suffix(t.pat(), self@) ==> r@ == self@.take(self@.len() - t.pat().len()), !is_suffix(t.pat(), self@) ==> r@ == self@
    { unimplemented!() }
    #[verifier::external_body]
    pub fn new() -> (r: Str) ensures r@ == Seq::<char>::empty() { unimplemented!() }
    #[verifier::external_body]
    pub fn len(&self) -> (n: usize) ensures n == byte_len(self@) { unimplemented!() }
    // R4: `self.chars().count()`
    // str::trim_end_matches(c): every trailing repetition of the character is removed
    #[verifier::external_body]
    pub fn trim_end_matches(&self, c: char) -> (r: Str) ensures r@ == strip_trailing(self@, c) { unimplemented!() }
    #[verifier::external_body]
    pub fn chars_count(&self) -> (n: usize) ensures n == self@.len() { unimplemented!() }
    // other unit counts of a string (bytes, UTF-16 code units): left unspecified except for bytes
    #[verifier::external_body]
    pub fn bytes_count(&self) -> (n: usize) ensures n == byte_len(self@) { unimplemented!() }
    #[verifier::external_body]
    pub fn encode_utf16_count(&self) -> (n: usize) { unimplemented!() }
    // StringExt::size (rivia): contract proved against the real body in unit core_string
    #[verifier::external_body]
    pub fn size(&self) -> (n: usize) ensures n == self@.len() { unimplemented!() }
    #[verifier::external_body]
    pub fn is_empty(&self) -> (b: bool) ensures b == (self@.len() == 0) { unimplemented!() }
    // std's Pattern argument: a &String / &str or a char
    #[verifier::external_body]
    pub fn starts_with<P: StrPat>(&self, p: P) -> (b: bool) ensures b == is_prefix(p.pat(), self@) { unimplemented!() }
    #[verifier::external_body]
    pub fn ends_with<P: StrPat>(&self, t: P) -> (b: bool) ensures b == is_suffix(t.pat(), self@) { unimplemented!() }
    // str::find / str::rfind (ASSUMED[str-find]): byte offset of the first / last occurrence of the pattern, None when there is none
    #[verifier::external_body]
    pub fn find<P: StrPat>(&self, p: P) -> (r: Option<usize>)
        ensures
            r is None <==> !(exists|k: int| occurs_at(p.pat(), self@, k)),
            r is Some ==> exists|k: int| #[trigger] occurs_at(p.pat(), self@, k) && byte_len(self@.take(k)) == r->Some_0 && forall|j: int| 0 <= j < k ==> !occurs_at(p.pat(), self@, j),
    { unimplemented!() }
    #[verifier::external_body]
    pub fn rfind<P: StrPat>(&self, p: P) -> (r: Option<usize>)
        ensures
            r is None <==> !(exists|k: int| occurs_at(p.pat(), self@, k)),
            r is Some ==> exists|k: int| #[trigger] occurs_at(p.pat(), self@, k) && byte_len(self@.take(k)) == r->Some_0 && forall|j: int| k < j ==> !occurs_at(p.pat(), self@, j),
    { unimplemented!() }
    #[verifier::external_body]
    pub fn push(&mut self, c: char) ensures final(self)@ == old(self)@.push(c) { unimplemented!() }
    #[verifier::external_body]
    pub fn push_str(&mut self, t: &Str) ensures final(self)@ == old(self)@ + t@ { unimplemented!() }
    #[verifier::external_body]
    pub fn contains(&self, t: &Str) -> (b: bool) ensures b == (exists|i: int| 0 <= i && i + t@.len() <= self@.len() && #[trigger] self@.subrange(i, i + t@.len()) == t@) { unimplemented!() }
    // R7: `&s[..n]` -- preconditions are Rust's panic conditions
    #[verifier::external_body]
    pub fn slice_to(&self, n: usize) -> (r: Str)
        requires n <= byte_len(self@), is_boundary(self@, n as int)
        ensures exists|k: int| 0 <= k <= self@.len() && #[trigger] byte_len(self@.take(k)) == n && r@ == self@.take(k)
    { unimplemented!() }
    // R7: `&s[n..]`
    #[verifier::external_body]
    pub fn slice_from(&self, n: usize) -> (r: Str)
        requires n <= byte_len(self@), is_boundary(self@, n as int)
        ensures exists|k: int| 0 <= k <= self@.len() && #[trigger] byte_len(self@.take(k)) == n && r@ == self@.skip(k)
    { unimplemented!() }
    #[verifier::external_body]
    pub fn to_owned(&self) -> (r: Str) ensures r@ == self@ { unimplemented!() }
    #[verifier::external_body]
    pub fn to_string(&self) -> (r: Str) ensures r@ == self@ { unimplemented!() }
    #[verifier::external_body]
    pub fn clone(&self) -> (r: Str) ensures r@ == self@ { unimplemented!() }
    #[verifier::external_body]
    pub fn into(self) -> (r: Str) ensures r@ == self@ { unimplemented!() }
    #[verifier::external_body]
    pub fn as_ref(&self) -> (r: &Str) ensures r@ == self@ { unimplemented!() }
    #[verifier::external_body]
    pub fn as_str(&self) -> (r: &Str) ensures r@ == self@ { unimplemented!() }
    // ASSUMED[str-lowercase]: to_lowercase maps every character to its lowercase form(s); only the empty string lowercases to empty
    #[verifier::external_body]
    pub fn to_lowercase(&self) -> (r: Str) ensures r@ == lower(self@), (lower(self@).len() == 0) == (self@.len() == 0) { unimplemented!() }
    // further std str methods: uninterpreted functions of the text (only that they are functions of it is assumed)
    #[verifier::external_body] pub fn trim(&self) -> (r: Str) ensures r@ == str_trim(self@) { unimplemented!() }
    #[verifier::external_body] pub fn trim_start(&self) -> (r: Str) ensures r@ == str_trim_start(self@) { unimplemented!() }
    #[verifier::external_body] pub fn trim_end(&self) -> (r: Str) ensures r@ == str_trim_end(self@) { unimplemented!() }
    #[verifier::external_body] pub fn to_uppercase(&self) -> (r: Str) ensures r@ == upper(self@) { unimplemented!() }
    #[verifier::external_body] pub fn to_ascii_lowercase(&self) -> (r: Str) ensures r@ == ascii_lower(self@) { unimplemented!() }
    #[verifier::external_body] pub fn eq_ignore_ascii_case(&self, o: &Str) -> (b: bool) ensures b == (ascii_lower(self@) == ascii_lower(o@)) { unimplemented!() }
    // R1: comparison with a string literal, `x == "lit"`
    #[verifier::external_body]
    pub fn eq_lit(&self, lit: &'static str) -> (b: bool) ensures b == (self@ == lit@) { unimplemented!() }
    #[verifier::external_body]
    pub fn lit(lit: &'static str) -> (r: Str) ensures r@ == lit@ { unimplemented!() }
    #[verifier::external_body]
    pub fn eq(&self, o: &Str) -> (b: bool) ensures b == (self@ == o@) { unimplemented!() }
}
pub uninterp spec fn lower(s: Seq<char>) -> Seq<char>;
pub uninterp spec fn upper(s: Seq<char>) -> Seq<char>;
pub uninterp spec fn ascii_lower(s: Seq<char>) -> Seq<char>;
pub uninterp spec fn str_trim(s: Seq<char>) -> Seq<char>;
pub uninterp spec fn str_trim_start(s: Seq<char>) -> Seq<char>;
pub uninterp spec fn str_trim_end(s: Seq<char>) -> Seq<char>;
