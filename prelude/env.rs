//@ requires base errors strs
// ---- process environment
// ASSUMED[env]: std::env::var(k) returns Ok(v) iff the variable is set to valid unicode v, for an environment `env` that is
// arbitrary (uninterpreted) and stable during one call; everything proved over it holds for every environment
pub uninterp spec fn env(k: Seq<char>) -> Option<Seq<char>>;
// R8: `env::var(k)` / `std::env::var(k)?` -- the VarError is carried as RvError kind Var
#[verifier::external_body]
pub fn env_var(k: &'static str) -> (r: RvResult<Str>)
    ensures r is Ok == env(k@) is Some, r is Ok ==> r->Ok_0@ == env(k@)->Some_0, r is Err ==> r->Err_0.kind == ErrKind::Var
{ unimplemented!() }
#[verifier::external_body]
pub fn env_var_s(k: &Str) -> (r: RvResult<Str>)
    ensures r is Ok == env(k@) is Some, r is Ok ==> r->Ok_0@ == env(k@)->Some_0, r is Err ==> r->Err_0.kind == ErrKind::Var
{ unimplemented!() }
