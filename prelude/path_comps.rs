//@ requires base errors iter strs
// ---- std::path shim at component level (L2 units: clean, relative, mash, trim_*, abs)
// A path is seen as the component sequence Path::components() yields.
// ASSUMED[path-components]: Path::components() normalises repeated separators, interior `.` and a trailing separator away;
//   RootDir / CurDir can only be the first component; a Normal name is non-empty, contains no separator and is neither `.` nor `..`;
//   PathBuf equality is component-wise; collecting components back into a PathBuf round-trips them (std docs of Path::components).
#[derive(PartialEq, Eq, Structural, Clone, Copy)]
pub struct Name(pub u64);      // identity of an OsStr name; its characters are name_chars(n)
pub uninterp spec fn name_chars(n: Name) -> Seq<char>;

#[derive(PartialEq, Eq, Structural, Clone, Copy)]
pub enum Component { RootDir, CurDir, ParentDir, Normal(Name) }
pub type Comps = Seq<Component>;

pub open spec fn std_comps(s: Comps) -> bool {
    forall|i: int| 0 < i < s.len() ==> s[i] != Component::RootDir && s[i] != Component::CurDir
}

pub type Components = DeIter<Component>;

#[verifier::external_body]
pub struct PathBuf { x: std::path::PathBuf }
pub type Path = PathBuf;   // R1

// ASSUMED[pathbuf-ops]: PathBuf::push(c) for a single component c: an absolute component replaces the path, `.` pushed onto a
// non-empty path is normalised away by components(), anything else is appended.  pop() removes the last component unless the
// path is empty or just the root.
pub open spec fn same_path(a: &PathBuf, b: &PathBuf) -> bool { a.comps() == b.comps() && a.pstr() == b.pstr() && a.utf8_ok() == b.utf8_ok() && a.canonical() == b.canonical() }
pub open spec fn push_spec(s: Comps, c: Component) -> Comps {
    if c == Component::RootDir { seq![Component::RootDir] }
    else if c == Component::CurDir && s.len() > 0 { s }
    else { s.push(c) }
}
pub open spec fn pop_spec(s: Comps) -> Comps {
    if s.len() > 0 && s.last() != Component::RootDir { s.drop_last() } else { s }
}
pub open spec fn is_abs(s: Comps) -> bool { s.len() > 0 && s[0] == Component::RootDir }
// Path::join(p): `p` absolute replaces; otherwise components are appended (interior CurDir of p normalised away)
pub open spec fn join_spec(a: Comps, b: Comps) -> Comps {
    if is_abs(b) { b } else if a.len() == 0 { b } else if b.len() > 0 && b[0] == Component::CurDir { a + b.skip(1) } else { a + b }
}

impl PathBuf {
    pub uninterp spec fn comps(&self) -> Comps;
    // canonical(): the path's *string* is exactly the rendering of comps() -- one separator between components, no trailing
    // separator, no `.` that components() would normalise away.  (PathBuf == is component-wise, so `../.` == `..`; the string differs.)
    pub uninterp spec fn canonical(&self) -> bool;
    #[verifier::external_body]
    pub proof fn ax_std(&self) ensures std_comps(self.comps()) { }

    #[verifier::external_body]
    pub fn new() -> (r: PathBuf) ensures r.comps() == Seq::<Component>::empty(), r.canonical() { unimplemented!() }
    #[verifier::external_body]
    pub fn clone(&self) -> (r: PathBuf) ensures same_path(&r, self) { unimplemented!() }
    #[verifier::external_body]
    pub fn to_path_buf(&self) -> (r: PathBuf) ensures same_path(&r, self) { unimplemented!() }
    #[verifier::external_body]
    pub fn to_owned(&self) -> (r: PathBuf) ensures same_path(&r, self) { unimplemented!() }
    #[verifier::external_body]
    pub fn as_ref(&self) -> (r: &PathBuf) ensures same_path(r, self) { unimplemented!() }
    #[verifier::external_body]
    pub fn as_path(&self) -> (r: &PathBuf) ensures same_path(r, self) { unimplemented!() }
    #[verifier::external_body]
    pub fn into(self) -> (r: PathBuf) ensures same_path(&r, &self) { unimplemented!() }
    #[verifier::external_body]
    pub fn components(&self) -> (r: Components) ensures r.rest() == self.comps(), std_comps(self.comps()) { unimplemented!() }
    #[verifier::external_body]
    pub fn push(&mut self, c: Component)
        ensures final(self).comps() == push_spec(old(self).comps(), c),
                final(self).canonical() == (old(self).canonical() && !(c == Component::CurDir && old(self).comps().len() > 0))   // pushing "." onto a non-empty path leaves a redundant "/." in the string
    { unimplemented!() }
    #[verifier::external_body]
    pub fn pop(&mut self) -> (b: bool) ensures final(self).comps() == pop_spec(old(self).comps()), old(self).canonical() ==> final(self).canonical() { unimplemented!() }
    // Path::file_name(): the last component if it is a normal name
    #[verifier::external_body]
    pub fn file_name(&self) -> (r: Option<Name>)
        ensures (self.comps().len() > 0 && self.comps().last() is Normal) ==> r == Some(self.comps().last()->Normal_0),
                !(self.comps().len() > 0 && self.comps().last() is Normal) ==> r is None,
    { unimplemented!() }
    #[verifier::external_body]
    pub fn is_absolute(&self) -> (b: bool) ensures b == is_abs(self.comps()) { unimplemented!() }
    #[verifier::external_body]
    pub fn join(&self, p: PathBuf) -> (r: PathBuf) ensures r.comps() == join_spec(self.comps(), p.comps()) { unimplemented!() }
    // `a == b` / `a != b` on paths (R1: operators on shim types become method calls)
    #[verifier::external_body]
    pub fn eq(&self, o: &PathBuf) -> (b: bool) ensures b == (self.comps() == o.comps()) { unimplemented!() }
    #[verifier::external_body]
    pub fn ne(&self, o: &PathBuf) -> (b: bool) ensures b == (self.comps() != o.comps()) { unimplemented!() }
    // Path::parent(): None for an empty path or a lone root, else all but the last component
    #[verifier::external_body]
    pub fn parent(&self) -> (r: Option<&PathBuf>)
        ensures (self.comps().len() == 0 || self.comps() == seq![Component::RootDir]) ==> r is None,
                !(self.comps().len() == 0 || self.comps() == seq![Component::RootDir]) ==> r is Some && r->Some_0.comps() == self.comps().drop_last(),
    { unimplemented!() }
}
impl DeIter<Component> {
    // Components::as_path(): the path made of the components not yet consumed
    #[verifier::external_body]
    pub fn as_path(&self) -> (r: &PathBuf) ensures r.comps() == self.rest(), r.canonical() { unimplemented!() }
}
// R4: `comps.iter().collect::<PathBuf>()` / `path.components().collect::<PathBuf>()`: pushes each component in order
pub open spec fn collect_spec(acc: Comps, s: Comps) -> Comps decreases s.len() {
    if s.len() == 0 { acc } else { collect_spec(push_spec(acc, s[0]), s.skip(1)) }
}
#[verifier::external_body]
pub fn collect_path(v: &Vec<Component>) -> (r: PathBuf) ensures r.comps() == collect_spec(Seq::empty(), v@) { unimplemented!() }

// ---- string view of a path (used by the string-level helpers trim_prefix / trim_suffix / concat / has* / ext)
// ASSUMED[path-str]: a PathBuf built from a string holds exactly that string; to_str() is Some (the same string) iff the path is
// valid UTF-8; comps() is std's parse of that string (parse is std's, uninterpreted here)
pub uninterp spec fn parse(s: Seq<char>) -> Comps;
impl PathBuf {
    pub uninterp spec fn pstr(&self) -> Seq<char>;
    pub uninterp spec fn utf8_ok(&self) -> bool;
    #[verifier::external_body]
    pub proof fn ax_parse(&self) ensures self.utf8_ok() ==> self.comps() == parse(self.pstr()) { }
    // Path::to_string_lossy: the text itself when it is UTF-8 (ASSUMED[path-str]); otherwise unspecified here
    #[verifier::external_body]
    pub fn to_string_lossy(&self) -> (r: Str) ensures self.utf8_ok() ==> r@ == self.pstr() { unimplemented!() }
    #[verifier::external_body]
    pub fn to_str(&self) -> (r: Option<&Str>) ensures r is Some == self.utf8_ok(), r is Some ==> r->Some_0@ == self.pstr() { unimplemented!() }
    // R1: PathBuf::from(&str / String)
    #[verifier::external_body]
    pub fn from_s<S: StrArg>(s: S) -> (r: PathBuf) ensures r.pstr() == s.sv(), r.utf8_ok(), r.comps() == parse(s.sv()) { unimplemented!() }
}

// ToStringExt for Component / OsStr: the string of a single component (RootDir is "/", CurDir ".", ParentDir "..", a name its characters)
pub uninterp spec fn name_utf8(n: Name) -> bool;
pub open spec fn comp_str(c: Component) -> Seq<char> {
    match c { Component::RootDir => seq!['/'], Component::CurDir => seq!['.'], Component::ParentDir => seq!['.', '.'], Component::Normal(n) => name_chars(n) }
}
impl Component {
    // ASSUMED[component-to-string]: ToStringExt for Component pushes the component onto an empty PathBuf and renders it (src/core/string.rs)
    #[verifier::external_body]
    pub fn to_string(&self) -> (r: RvResult<Str>)
        ensures r is Ok == (match *self { Component::Normal(n) => name_utf8(n), _ => true }), r is Ok ==> r->Ok_0@ == comp_str(*self)
    { unimplemented!() }
}

// ---- lemmas about collect_spec (counted as obligations in unit path_helpers)
pub proof fn lemma_collect_snoc(acc: Comps, s: Comps, c: Component)
    ensures collect_spec(acc, s.push(c)) == push_spec(collect_spec(acc, s), c)
    decreases s.len()
{
    if s.len() == 0 {
        assert(s.push(c).skip(1) =~= Seq::<Component>::empty());
        assert(collect_spec(push_spec(acc, c), Seq::<Component>::empty()) == push_spec(acc, c));
    } else {
        assert(s.push(c).skip(1) =~= s.skip(1).push(c));
        lemma_collect_snoc(push_spec(acc, s[0]), s.skip(1), c);
    }
}
// pushing components that are neither RootDir nor CurDir appends them
pub proof fn lemma_collect_plain(acc: Comps, s: Comps)
    requires forall|i: int| 0 <= i < s.len() ==> s[i] != Component::RootDir && (s[i] != Component::CurDir || (i == 0 && acc.len() == 0))
    ensures collect_spec(acc, s) == acc + s
    decreases s.len()
{
    if s.len() == 0 { assert(acc + s =~= acc); } else {
        let a2 = push_spec(acc, s[0]);
        assert(a2 == acc.push(s[0]));
        assert forall|i: int| 0 <= i < s.skip(1).len() implies s.skip(1)[i] != Component::RootDir && (s.skip(1)[i] != Component::CurDir || (i == 0 && a2.len() == 0)) by { assert(s.skip(1)[i] == s[i + 1]); }
        lemma_collect_plain(a2, s.skip(1));
        assert(a2 + s.skip(1) =~= acc + s);
    }
}
// re-collecting a component sequence std produced gives the same sequence
pub proof fn lemma_collect_std(s: Comps)
    requires std_comps(s)
    ensures collect_spec(Seq::empty(), s) == s
{
    if s.len() > 0 {
        let a2 = push_spec(Seq::empty(), s[0]);
        assert(a2 =~= seq![s[0]]);
        assert forall|i: int| 0 <= i < s.skip(1).len() implies s.skip(1)[i] != Component::RootDir && (s.skip(1)[i] != Component::CurDir || (i == 0 && a2.len() == 0)) by { assert(s.skip(1)[i] == s[i + 1]); }
        lemma_collect_plain(a2, s.skip(1));
        assert(a2 + s.skip(1) =~= s);
    }
}

// R1: the second argument of trim_prefix / trim_suffix is any `AsRef<Path>`: a path, a String or a string literal
pub trait PathLike: Sized {
    spec fn lp(&self) -> Seq<char>;
    spec fn lu(&self) -> bool;
    fn as_ref(&self) -> (r: &PathBuf) ensures r.pstr() == self.lp(), r.utf8_ok() == self.lu();
}
impl<'a> PathLike for &'a PathBuf {
    open spec fn lp(&self) -> Seq<char> { (**self).pstr() }
    open spec fn lu(&self) -> bool { (**self).utf8_ok() }
    #[verifier::external_body] fn as_ref(&self) -> (r: &PathBuf) { unimplemented!() }
}
impl PathLike for Str {
    open spec fn lp(&self) -> Seq<char> { self@ }
    open spec fn lu(&self) -> bool { true }
    #[verifier::external_body] fn as_ref(&self) -> (r: &PathBuf) { unimplemented!() }
}
impl<'a> PathLike for &'a Str {
    open spec fn lp(&self) -> Seq<char> { (**self)@ }
    open spec fn lu(&self) -> bool { true }
    #[verifier::external_body] fn as_ref(&self) -> (r: &PathBuf) { unimplemented!() }
}
impl PathLike for &'static str {
    open spec fn lp(&self) -> Seq<char> { (*self)@ }
    open spec fn lu(&self) -> bool { true }
    #[verifier::external_body] fn as_ref(&self) -> (r: &PathBuf) { unimplemented!() }
}
