//@ requires base errors iter
// ---- std::path shim used by the Memfs (L4) units: a path is seen through
//   comps()     : its component sequence (what Path::components() yields)
//   abs_clean() : "absolute and in clean normal form" = RootDir followed by Normal names only
//   view()      : for abs_clean paths, the names below the root (root = empty sequence)
// ASSUMED[path-components]: PathBuf equality / hashing is component-wise (std docs), so a HashMap<PathBuf,_> is keyed by comps(); for abs_clean keys by view()
pub type Name = Seq<char>;
pub type PathV = Seq<Name>;
pub ghost enum Comp { RootDir, CurDir, ParentDir, Normal(Name) }
pub type Comps = Seq<Comp>;
pub open spec fn abs_comps(v: PathV) -> Comps { seq![Comp::RootDir] + v.map_values(|n: Name| Comp::Normal(n)) }
pub open spec fn root() -> PathV { Seq::<Name>::empty() }
// subtree vocabulary: a is a component prefix of p
pub open spec fn in_sub(a: PathV, p: PathV) -> bool { a.len() <= p.len() && p.take(a.len() as int) == a }

#[verifier::external_body]
pub struct PathBuf { x: std::path::PathBuf }
pub type Path = PathBuf;   // R1: &Path and &PathBuf are the same view

#[verifier::external_body]
pub struct NameStr { x: String }   // a String holding one component name (result of base(), HashSet<String> element)
impl NameStr {
    pub uninterp spec fn view(&self) -> Name;
    #[verifier::external_body]
    pub fn clone(&self) -> (r: NameStr) ensures r@ == self@ { unimplemented!() }
    #[verifier::external_body]
    pub fn into(self) -> (r: NameStr) ensures r@ == self@ { unimplemented!() }
}

impl PathBuf {
    pub uninterp spec fn comps(&self) -> Comps;
    pub uninterp spec fn view(&self) -> PathV;
    pub uninterp spec fn abs_clean(&self) -> bool;

    // ASSUMED[path-abs-view]: for an absolute clean path the component sequence is RootDir followed by its names
    #[verifier::external_body]
    pub proof fn ax_abs(&self) ensures self.abs_clean() <==> self.comps() == abs_comps(self@) { }
    // same assumption read the other way: a component sequence of that shape IS an absolute clean path with exactly those names
    #[verifier::external_body]
    pub proof fn ax_abs_of(&self, v: PathV) ensures self.comps() == abs_comps(v) ==> self.abs_clean() && self@ == v { }
    #[verifier::external_body]
    pub proof fn ax_eq(&self, o: &PathBuf) ensures self.comps() == o.comps() ==> (self.abs_clean() == o.abs_clean() && self@ == o@) { }

    #[verifier::external_body]
    pub fn new() -> (r: PathBuf) ensures r.comps() == Seq::<Comp>::empty(), !r.abs_clean() { unimplemented!() }
    #[verifier::external_body]
    pub fn clone(&self) -> (r: PathBuf) ensures r@ == self@, r.abs_clean() == self.abs_clean(), r.comps() == self.comps() { unimplemented!() }
    #[verifier::external_body]
    pub fn to_path_buf(&self) -> (r: PathBuf) ensures r@ == self@, r.abs_clean() == self.abs_clean(), r.comps() == self.comps() { unimplemented!() }
    // R1: as_ref()/into()/to_owned() between Path, &Path, PathBuf are representation preserving
    #[verifier::external_body]
    pub fn as_ref(&self) -> (r: &PathBuf) ensures r@ == self@, r.abs_clean() == self.abs_clean(), r.comps() == self.comps() { unimplemented!() }
    #[verifier::external_body]
    pub fn into(self) -> (r: PathBuf) ensures r@ == self@, r.abs_clean() == self.abs_clean(), r.comps() == self.comps() { unimplemented!() }
    #[verifier::external_body]
    pub fn eq(&self, o: &PathBuf) -> (b: bool) ensures b == (self.comps() == o.comps()) { unimplemented!() }
    // R8: `x == PathBuf::from(Component::RootDir.to_string()?)`
    #[verifier::external_body]
    pub fn is_root(&self) -> (r: bool) ensures r == (self.comps() == seq![Comp::RootDir]), self.abs_clean() ==> r == (self@.len() == 0) { unimplemented!() }
    // PathExt::dir / base on absolute clean paths (contracts proved against the real bodies in unit path_helpers, comps level)
    #[verifier::external_body]
    pub fn dir(&self) -> (r: RvResult<PathBuf>)
        ensures self.abs_clean() && self@.len() == 0 ==> r is Err && r->Err_0.kind == ErrKind::ParentNotFound,
                self.abs_clean() && self@.len() > 0 ==> r is Ok && r->Ok_0@ == self@.drop_last() && r->Ok_0.abs_clean() && r->Ok_0.comps() == abs_comps(self@.drop_last()),
    { unimplemented!() }
    // Path::starts_with is component-wise; `!=` on paths
    #[verifier::external_body]
    pub fn starts_with(&self, o: &PathBuf) -> (b: bool) ensures (self.abs_clean() && o.abs_clean()) ==> b == in_sub(o@, self@) { unimplemented!() }
    #[verifier::external_body]
    pub fn ne(&self, o: &PathBuf) -> (b: bool) ensures (self.abs_clean() && o.abs_clean()) ==> b == (self@ != o@) { unimplemented!() }
    // Path::file_name on an absolute clean path: the last name, None for the root
    #[verifier::external_body]
    pub fn file_name(&self) -> (r: Option<NameStr>)
        ensures self.abs_clean() && self@.len() == 0 ==> r is None,
                self.abs_clean() && self@.len() > 0 ==> r is Some && r->Some_0@ == self@.last(),
    { unimplemented!() }
    #[verifier::external_body]
    pub fn has_root(&self) -> (b: bool) ensures self.abs_clean() ==> b { unimplemented!() }
    #[verifier::external_body]
    pub fn is_relative(&self) -> (b: bool) ensures self.abs_clean() ==> !b { unimplemented!() }
    // std Path::parent on an absolute clean path: None for the root, otherwise the path without its last name
    #[verifier::external_body]
    pub fn parent(&self) -> (r: Option<&PathBuf>)
        ensures self.abs_clean() && self@.len() == 0 ==> r is None,
                self.abs_clean() && self@.len() > 0 ==> r is Some && r->Some_0@ == self@.drop_last() && r->Some_0.abs_clean() && r->Some_0.comps() == abs_comps(self@.drop_last()),
    { unimplemented!() }
    #[verifier::external_body]
    pub fn base(&self) -> (r: RvResult<NameStr>)
        ensures self.abs_clean() && self@.len() > 0 ==> r is Ok && r->Ok_0@ == self@.last(),
                self.abs_clean() && self@.len() == 0 ==> r is Ok,
    { unimplemented!() }
    // PathExt::has_prefix / has_suffix compare the TEXT of the paths (unit path_helpers); at the component level used here they are unspecified
    #[verifier::external_body] pub fn has_prefix<T: PathArg>(&self, p: T) -> (b: bool) { unimplemented!() }
    #[verifier::external_body] pub fn has_suffix<T: PathArg>(&self, p: T) -> (b: bool) { unimplemented!() }
    // PathExt::name: the final component without its extension (unit path_helpers); equal to base() only when there is no extension,
    // which nothing here decides, so the result is unspecified
    #[verifier::external_body]
    pub fn name(&self) -> (r: RvResult<NameStr>) { unimplemented!() }
    #[verifier::external_body]
    pub fn mash_name(&self, n: &NameStr) -> (r: PathBuf)
        ensures self.abs_clean() ==> r.abs_clean() && r@ == self@.push(n@)
    { unimplemented!() }
}

// R1: the generic path parameters `T: AsRef<Path>` / `T: Into<PathBuf>` are instantiated by PathBuf and &PathBuf;
// as_ref()/into() are representation preserving (std: AsRef<Path> for PathBuf/&Path, From<&Path> for PathBuf)
pub trait PathArg: Sized {
    spec fn pc(&self) -> Comps;
    spec fn pv(&self) -> PathV;
    spec fn pok(&self) -> bool;
    fn into(self) -> (r: PathBuf) ensures r.comps() == self.pc(), r@ == self.pv(), r.abs_clean() == self.pok();
    fn as_ref(&self) -> (r: &PathBuf) ensures r.comps() == self.pc(), r@ == self.pv(), r.abs_clean() == self.pok();
}
impl PathArg for PathBuf {
    open spec fn pc(&self) -> Comps { self.comps() }
    open spec fn pv(&self) -> PathV { self@ }
    open spec fn pok(&self) -> bool { self.abs_clean() }
    #[verifier::external_body]
    fn into(self) -> (r: PathBuf) { unimplemented!() }
    #[verifier::external_body]
    fn as_ref(&self) -> (r: &PathBuf) { unimplemented!() }
}
impl<'a> PathArg for &'a PathBuf {
    open spec fn pc(&self) -> Comps { (**self).comps() }
    open spec fn pv(&self) -> PathV { (**self)@ }
    open spec fn pok(&self) -> bool { (**self).abs_clean() }
    #[verifier::external_body]
    fn into(self) -> (r: PathBuf) { unimplemented!() }
    #[verifier::external_body]
    fn as_ref(&self) -> (r: &PathBuf) { unimplemented!() }
}

impl<'a, 'b> PathArg for &'a &'b PathBuf {
    open spec fn pc(&self) -> Comps { (***self).comps() }
    open spec fn pv(&self) -> PathV { (***self)@ }
    open spec fn pok(&self) -> bool { (***self).abs_clean() }
    #[verifier::external_body]
    fn into(self) -> (r: PathBuf) { unimplemented!() }
    #[verifier::external_body]
    fn as_ref(&self) -> (r: &PathBuf) { unimplemented!() }
}

// a string literal where a path is expected (`x.trim_prefix("/")`): its components are whatever the literal parses to
pub uninterp spec fn lit_comps(s: Seq<char>) -> Comps;
impl PathArg for &'static str {
    open spec fn pc(&self) -> Comps { lit_comps((*self)@) }
    open spec fn pv(&self) -> PathV { arbitrary() }
    open spec fn pok(&self) -> bool { false }
    #[verifier::external_body]
    fn into(self) -> (r: PathBuf) { unimplemented!() }
    #[verifier::external_body]
    fn as_ref(&self) -> (r: &PathBuf) { unimplemented!() }
}

// exec view of std::path::Component<'_> and the iteration / push operations used by Memfs::_mkdir_m
#[verifier::external_body]
pub struct Component { x: u8 }
impl Component { pub uninterp spec fn view(&self) -> Comp; }
impl PathBuf {
    // ASSUMED[path-components]: components() yields comps() in order
    #[verifier::external_body]
    pub fn components(&self) -> (r: DeIter<Component>)
        ensures r.rest().len() == self.comps().len(), forall|i: int| 0 <= i < r.rest().len() ==> (#[trigger] r.rest()[i])@ == self.comps()[i]
    { unimplemented!() }
    // ASSUMED[pathbuf-ops]: push of RootDir onto an empty path gives "/", push of a Normal name onto an absolute clean path appends it
    #[verifier::external_body]
    pub fn push(&mut self, c: Component)
        ensures (old(self).comps().len() == 0 && c@ == Comp::RootDir) ==> final(self).abs_clean() && final(self)@ == root() && final(self).comps() == abs_comps(root()),
                (old(self).abs_clean() && c@ is Normal) ==> final(self).abs_clean() && final(self)@ == old(self)@.push(c@->Normal_0) && final(self).comps() == abs_comps(final(self)@),
    { unimplemented!() }
}
