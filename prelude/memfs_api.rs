//@ requires base errors iter path_abs memfs_state
// ---- contracts of the Memfs / MemfsEntry functions proved in unit memfs_ops, restated as assumed shims for the units that verify
// the worklist mutators (move_p, remove_all, ...).  ASSUMED[memfs_ops-contracts]: each is discharged against the real body there.
pub uninterp spec fn spec_abs(cwd: PathV, arg: Comps) -> Option<PathV>;
#[verifier::external_body]
pub fn _abs<T: PathArg>(guard: &MemfsGuard, path: T) -> (r: RvResult<PathBuf>)
    requires guard.st().cwd_ok
    ensures r is Ok <==> spec_abs(guard.st().cwd, path.pc()) is Some,
            r is Ok ==> r->Ok_0.abs_clean() && r->Ok_0@ == spec_abs(guard.st().cwd, path.pc())->Some_0 && r->Ok_0.comps() == abs_comps(r->Ok_0@),
{ unimplemented!() }
#[verifier::external_body]
pub fn _is_dir(guard: &MemfsGuard, path: &PathBuf) -> (r: bool)
    requires guard.st().cwd_ok, path.abs_clean()
    ensures r == (guard.st().entries.contains_key(path@) && guard.st().entries[path@].dir)     // abs of an absolute clean path is itself (C05)
{ unimplemented!() }
pub open spec fn add_kid(e: EntryV, n: Name) -> EntryV { EntryV { kids: Some(match e.kids { Some(k) => k.insert(n), None => Set::<Name>::empty().insert(n) }), ..e } }
pub open spec fn del_kid(e: EntryV, n: Name) -> EntryV { EntryV { kids: match e.kids { Some(k) => Some(k.remove(n)), None => None }, ..e } }
impl MemfsEntry {
    #[verifier::external_body] pub fn is_dir(&self) -> (r: bool) ensures r == self.dir { unimplemented!() }
    #[verifier::external_body] pub fn is_file(&self) -> (r: bool) ensures r == self.file { unimplemented!() }
    #[verifier::external_body] pub fn is_symlink(&self) -> (r: bool) ensures r == self.link { unimplemented!() }
    #[verifier::external_body] pub fn path(&self) -> (r: &PathBuf) ensures r@ == self.path@, r.abs_clean() == self.path.abs_clean(), r.comps() == self.path.comps() { unimplemented!() }
    #[verifier::external_body] pub fn clone(&self) -> (r: MemfsEntry) ensures r.ev() == self.ev() { unimplemented!() }
    #[verifier::external_body]
    pub fn add(&mut self, entry: NameStr) -> (r: RvResult<bool>)
        ensures !old(self).dir ==> r is Err && r->Err_0.kind == ErrKind::IsNotDir && final(self).ev() == old(self).ev(),
                old(self).dir ==> r is Ok && final(self).ev() == add_kid(old(self).ev(), entry@)
    { unimplemented!() }
    #[verifier::external_body]
    pub fn remove(&mut self, entry: NameStr) -> (r: RvResult<()>)
        ensures !old(self).dir ==> r is Err && r->Err_0.kind == ErrKind::IsNotDir && final(self).ev() == old(self).ev(),
                old(self).dir ==> r is Ok && final(self).ev() == del_kid(old(self).ev(), entry@)
    { unimplemented!() }
}
// iteration over a HashSet<String> of child names: some order, every element exactly once (ASSUMED[hashmap])
impl NameSet {
    #[verifier::external_body]
    pub fn iter(&self) -> (r: DeIter<NameStr>)
        ensures r.rest().no_duplicates_by_view(), forall|n: Name| self@.contains(n) <==> exists|i: int| 0 <= i < r.rest().len() && (#[trigger] r.rest()[i])@ == n,
                self@.finite()
    { unimplemented!() }
}
pub trait NoDupView { spec fn no_duplicates_by_view(self) -> bool; }
impl NoDupView for Seq<NameStr> {
    open spec fn no_duplicates_by_view(self) -> bool { forall|i: int, j: int| 0 <= i < j < self.len() ==> (#[trigger] self[i])@ != (#[trigger] self[j])@ }
}
impl PathBuf {
    // relative remainder of an absolute clean path below an absolute clean prefix (trim_prefix: unit path_helpers at string level)
    pub uninterp spec fn rel_names(&self) -> Seq<Name>;
    pub uninterp spec fn is_rel(&self) -> bool;
    // ASSUMED[trim-prefix-abs]: for absolute clean paths where prefix is a component prefix of self, trim_prefix yields the remaining names
    #[verifier::external_body]
    pub fn trim_prefix<T: PathArg>(&self, prefix: T) -> (r: PathBuf)
        ensures (self.abs_clean() && prefix.pok() && in_sub(prefix.pv(), self@)) ==> r.is_rel() && r.rel_names() == self@.skip(prefix.pv().len() as int)
    { unimplemented!() }
    // mash of an absolute clean dir with such a remainder (mash: unit path_helpers)
    #[verifier::external_body]
    pub fn mash(&self, p: PathBuf) -> (r: PathBuf)
        ensures (self.abs_clean() && p.is_rel()) ==> r.abs_clean() && r@ == self@ + p.rel_names() && r.comps() == abs_comps(r@)
    { unimplemented!() }
}
