//@ requires base
// ---- std iterator shim: a double-ended, cloneable iterator seen as the sequence of items it has yet to yield.
// ASSUMED[iter-std]: Iterator::{next,nth,last,count}, DoubleEndedIterator::{next_back, rev().nth(k)} and Clone behave as
// documented in std for finite iterators such as vec::IntoIter, path::Components, str::Split: rest() is the remaining items.
#[verifier::external_body]
#[verifier::reject_recursive_types(T)]
pub struct DeIter<T> { v: std::collections::VecDeque<T> }

impl<T> DeIter<T> {
    pub uninterp spec fn rest(&self) -> Seq<T>;

    #[verifier::external_body]
    pub fn next(&mut self) -> (r: Option<T>)
        ensures old(self).rest().len() == 0 ==> r is None && final(self).rest() == old(self).rest(),
                old(self).rest().len() > 0 ==> r == Some(old(self).rest()[0]) && final(self).rest() == old(self).rest().skip(1),
    { unimplemented!() }
    #[verifier::external_body]
    pub fn next_back(&mut self) -> (r: Option<T>)
        ensures old(self).rest().len() == 0 ==> r is None && final(self).rest() == old(self).rest(),
                old(self).rest().len() > 0 ==> r == Some(old(self).rest().last()) && final(self).rest() == old(self).rest().drop_last(),
    { unimplemented!() }
    // Iterator::nth(n): consumes n+1 items (all of them if fewer remain)
    #[verifier::external_body]
    pub fn nth(&mut self, n: usize) -> (r: Option<T>)
        ensures
            n < old(self).rest().len() ==> r == Some(old(self).rest()[n as int]) && final(self).rest() == old(self).rest().skip(n as int + 1),
            n >= old(self).rest().len() ==> r is None && final(self).rest() == Seq::<T>::empty(),
    { unimplemented!() }
    // R4: `(&mut self).rev().nth(n)`: consumes n+1 items from the back
    #[verifier::external_body]
    pub fn rev_nth(&mut self, n: usize) -> (r: Option<T>)
        ensures
            n < old(self).rest().len() ==> r == Some(old(self).rest()[old(self).rest().len() - 1 - n as int]) && final(self).rest() == old(self).rest().take(old(self).rest().len() - n as int - 1),
            n >= old(self).rest().len() ==> r is None && final(self).rest() == Seq::<T>::empty(),
    { unimplemented!() }
    #[verifier::external_body]
    pub fn last(self) -> (r: Option<T>)
        ensures self.rest().len() == 0 ==> r is None,
                self.rest().len() > 0 ==> r == Some(self.rest().last()),
    { unimplemented!() }
    // R4: `(self.clone()).count()`
    #[verifier::external_body]
    pub fn clone_count(&self) -> (n: usize) ensures n == self.rest().len() { unimplemented!() }
    #[verifier::external_body]
    pub fn count(self) -> (n: usize) ensures n == self.rest().len() { unimplemented!() }
    #[verifier::external_body]
    pub fn clone(&self) -> (r: Self) ensures r.rest() == self.rest() { unimplemented!() }
}
