//@ requires base errors
// ---- std iterator shim: a double-ended, cloneable iterator seen as the sequence of items it has yet to yield.
// ASSUMED[iter-std]: Iterator::{next,nth,last,count}, DoubleEndedIterator::{next_back, rev().nth(k)} and Clone behave as
// documented in std for finite iterators such as vec::IntoIter, path::Components, str::Split: rest() is the remaining items.
#[verifier::external_body]
#[verifier::reject_recursive_types(T)]
pub struct DeIter<T> { v: std::collections::VecDeque<T> }

impl<T> DeIter<T> {
    // Iterator::size_hint: the lower bound never exceeds the real length, the upper bound (if any) is never below it
    #[verifier::external_body]
    pub fn size_hint(&self) -> (r: (usize, Option<usize>)) ensures r.0 <= self.rest().len(), r.1 is Some ==> self.rest().len() <= r.1->Some_0 { unimplemented!() }
    pub uninterp spec fn rest(&self) -> Seq<T>;

    #[verifier::external_body]
    pub fn next(&mut self) -> (r: Option<T>)
        ensures old(self).rest().len() == 0 ==> r is None && final(self).rest() == old(self).rest(),
                old(self).rest().len() > 0 ==> r == Some(old(self).rest()[0]) && final(self).rest() == old(self).rest().skip(1),
    { unimplemented!() }
    #[verifier::external_body]
    pub fn next_back(&mut self) -> (r: Option<T>)
        ensures old(self).rest().len() == 0 ==> r is None && final(self).rest() == old(self).rest(),
                old(self).rest().len() > 0 ==> r == Some(old(self).rest().last()) && final(self).rest() == old(self).rest().drop_last(),
    { unimplemented!() }
    // Iterator::nth(n): consumes n+1 items (all of them if fewer remain)
    #[verifier::external_body]
    pub fn nth(&mut self, n: usize) -> (r: Option<T>)
        ensures
            n < old(self).rest().len() ==> r == Some(old(self).rest()[n as int]) && final(self).rest() == old(self).rest().skip(n as int + 1),
            n >= old(self).rest().len() ==> r is None && final(self).rest() == Seq::<T>::empty(),
    { unimplemented!() }
    // R4: `(&mut self).rev().nth(n)`: consumes n+1 items from the back
    #[verifier::external_body]
    pub fn rev_nth(&mut self, n: usize) -> (r: Option<T>)
        ensures
            n < old(self).rest().len() ==> r == Some(old(self).rest()[old(self).rest().len() - 1 - n as int]) && final(self).rest() == old(self).rest().take(old(self).rest().len() - n as int - 1),
            n >= old(self).rest().len() ==> r is None && final(self).rest() == Seq::<T>::empty(),
    { unimplemented!() }
    #[verifier::external_body]
    pub fn last(self) -> (r: Option<T>)
        ensures self.rest().len() == 0 ==> r is None,
                self.rest().len() > 0 ==> r == Some(self.rest().last()),
    { unimplemented!() }
    // R4: `(self.clone()).count()`
    #[verifier::external_body]
    pub fn clone_count(&self) -> (n: usize) ensures n == self.rest().len() { unimplemented!() }
    #[verifier::external_body]
    pub fn count(self) -> (n: usize) ensures n == self.rest().len() { unimplemented!() }
    #[verifier::external_body]
    pub fn clone(&self) -> (r: Self) ensures r.rest() == self.rest() { unimplemented!() }
}

// ---- plain list semantics of rivia's IteratorExt (spec functions shared by unit core_iter, which proves the real bodies
// against them, and by the units that call these helpers)
pub open spec fn min_i(a: int, b: int) -> int { if a <= b { a } else { b } }
pub open spec fn max_i(a: int, b: int) -> int { if a >= b { a } else { b } }

// drop(n): n > 0 removes the first n items, n < 0 the last |n| (all of them if fewer), n == 0 nothing
pub open spec fn spec_drop<T>(s: Seq<T>, n: int) -> Seq<T> {
    if n > 0 { s.skip(min_i(n, s.len() as int)) } else if n < 0 { s.take(max_i(s.len() - (-n), 0)) } else { s }
}
// slice(l, r): inclusive index range, negative indices count from the end, right bound beyond the end clamped,
// nothing when the range is empty or out of bounds (property C19; stated for l >= -len)
pub open spec fn norm_l(len: int, left: int) -> int { if left < 0 { len + left } else { left } }
pub open spec fn norm_r(len: int, right: int) -> int { if right < 0 { len + right } else if right >= len { len - 1 } else { right } }
pub open spec fn spec_slice<T>(s: Seq<T>, left: int, right: int) -> Seq<T> {
    let len = s.len() as int;
    let lo = norm_l(len, left);
    let hi = norm_r(len, right);
    if 0 <= lo && lo <= hi && hi < len { s.subrange(lo, hi + 1) } else { Seq::empty() }
}


impl<T> DeIter<T> {
    // rivia IteratorExt::{drop, first_result, last_result, some}: contracts proved against the real bodies in unit core_iter
    #[verifier::external_body]
    pub fn drop(self, n: isize) -> (r: Self) ensures r.rest() == spec_drop(self.rest(), n as int) { unimplemented!() }
    #[verifier::external_body]
    pub fn first_result(self) -> (r: RvResult<T>)
        ensures self.rest().len() == 0 ==> r is Err && r->Err_0.kind == ErrKind::ItemNotFound,
                self.rest().len() > 0 ==> r is Ok && r->Ok_0 == self.rest()[0],
    { unimplemented!() }
    #[verifier::external_body]
    pub fn last_result(self) -> (r: RvResult<T>)
        ensures self.rest().len() == 0 ==> r is Err && r->Err_0.kind == ErrKind::ItemNotFound,
                self.rest().len() > 0 ==> r is Ok && r->Ok_0 == self.rest().last(),
    { unimplemented!() }
    #[verifier::external_body]
    pub fn some(self) -> (r: bool) ensures r == (self.rest().len() > 0) { unimplemented!() }
}
