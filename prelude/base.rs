// ASSUMED[usize-64]: the target has 64-bit usize/isize (x86_64 / aarch64 Linux, the only targets rivia's nix dependency is built for here)
global size_of usize == 8;
