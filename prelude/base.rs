// ASSUMED[usize-64]: the target has 64-bit usize/isize (x86_64 / aarch64 Linux, the only targets rivia's nix dependency is built for here)
global size_of usize == 8;
// ASSUMED[std-result-option]: Result::unwrap_or / Result::ok / Result::is_err as documented in std (not specified by this vstd)
pub assume_specification<T, E>[ Result::<T, E>::unwrap_or ](r: Result<T, E>, d: T) -> (o: T)
    ensures o == (match r { Ok(v) => v, Err(_) => d });
pub assume_specification<T>[ Option::<T>::or ](a: Option<T>, b: Option<T>) -> (r: Option<T>)
    ensures r == (match a { Some(x) => Some(x), None => b });
pub assume_specification<T>[ Option::<T>::xor ](a: Option<T>, b: Option<T>) -> (r: Option<T>)
    ensures r == (match (a, b) { (Some(x), None) => Some(x), (None, Some(y)) => Some(y), _ => None });
