//@ requires base errors iter path_abs
// ---- abstract state of one Memfs instance and the MemfsGuard shim (L4)
// The unit that includes this prelude extracts the real `struct MemfsEntry` and `struct MemfsFile` from /repo.
pub struct EntryV {
    pub path: PathV, pub path_ok: bool, pub alt: Comps, pub rel: Comps,
    pub dir: bool, pub file: bool, pub link: bool, pub mode: u32, pub uid: u32, pub gid: u32,
    pub follow: bool, pub cached: bool, pub kids: Option<Set<Name>>,
}
pub struct FileV { pub data: Seq<u8>, pub pos: u64 }
pub struct St { pub entries: Map<PathV, EntryV>, pub files: Map<PathV, FileV>, pub cwd: PathV, pub cwd_ok: bool }

// HashSet<String> of child names.  ASSUMED[hashmap]: HashSet<String> is a finite set keyed by string equality
#[verifier::external_body]
pub struct NameSet { x: std::collections::HashSet<String> }
impl NameSet {
    pub uninterp spec fn view(&self) -> Set<Name>;
    #[verifier::external_body]
    pub fn new() -> (r: NameSet) ensures r@ == Set::<Name>::empty() { unimplemented!() }
    #[verifier::external_body]
    pub fn insert(&mut self, n: NameStr) -> (b: bool) ensures final(self)@ == old(self)@.insert(n@), b == !old(self)@.contains(n@) { unimplemented!() }
    #[verifier::external_body]
    pub fn remove(&mut self, n: &NameStr) -> (b: bool) ensures final(self)@ == old(self)@.remove(n@), b == old(self)@.contains(n@) { unimplemented!() }
    #[verifier::external_body]
    pub fn is_empty(&self) -> (b: bool) ensures b == (self@ == Set::<Name>::empty()) { unimplemented!() }
    #[verifier::external_body]
    pub fn clone(&self) -> (r: NameSet) ensures r@ == self@ { unimplemented!() }
}

pub open spec fn kids_of(f: Option<NameSet>) -> Option<Set<Name>> { match f { Some(s) => Some(s@), None => None } }

impl MemfsEntry {
    pub open spec fn ev(&self) -> EntryV {
        EntryV { path: self.path@, path_ok: self.path.abs_clean(), alt: self.alt.comps(), rel: self.rel.comps(),
                 dir: self.dir, file: self.file, link: self.link, mode: self.mode, uid: self.uid, gid: self.gid,
                 follow: self.follow, cached: self.cached, kids: kids_of(self.files) }
    }
}
impl MemfsFile {
    pub open spec fn fv(&self) -> FileV { FileV { data: self.data@, pos: self.pos } }
    // ASSUMED[derive-default]: #[derive(Default)] on MemfsFile gives pos 0, empty data, no path, no fs
    #[verifier::external_body]
    pub fn default() -> (r: MemfsFile) ensures r.pos == 0, r.data@ == Seq::<u8>::empty(), r.path is None, r.fs is None { unimplemented!() }
}

// The shared filesystem handle (Arc<RwLock<MemfsInner>>).  Its state is only reachable through a guard.
#[verifier::external_body]
pub struct Memfs { x: u8 }
impl Memfs {
    #[verifier::external_body]
    pub fn clone(&self) -> (r: Memfs) { unimplemented!() }
}

// ASSUMED[guard]: MemfsGuard methods (memfs/vfs.rs:31-107, thin matches over HashMap get/insert/remove/contains_key) act on the
// entries/files maps as finite maps keyed by path; the guard used by a mutating method is the Write variant (R11)
#[verifier::external_body]
pub struct MemfsGuard { x: u8 }
impl MemfsGuard {
    pub uninterp spec fn st(&self) -> St;
    // ASSUMED[hashmap]: a HashMap has finitely many keys
    #[verifier::external_body]
    pub proof fn ax_finite(&self) ensures self.st().entries.dom().finite(), self.st().files.dom().finite() { }

    #[verifier::external_body]
    pub fn contains_entry(&self, path: &PathBuf) -> (b: bool)
        requires path.abs_clean() ensures b == self.st().entries.contains_key(path@) { unimplemented!() }
    #[verifier::external_body]
    pub fn contains_file(&self, path: &PathBuf) -> (b: bool)
        requires path.abs_clean() ensures b == self.st().files.contains_key(path@) { unimplemented!() }
    #[verifier::external_body]
    pub fn cwd(&self) -> (r: PathBuf) ensures r.abs_clean() == self.st().cwd_ok, r@ == self.st().cwd { unimplemented!() }
    #[verifier::external_body]
    pub fn root(&self) -> (r: PathBuf) ensures r.abs_clean(), r@ == root() { unimplemented!() }
    #[verifier::external_body]
    pub fn get_entry(&self, path: &PathBuf) -> (r: Option<&MemfsEntry>)
        requires path.abs_clean()
        ensures r is Some <==> self.st().entries.contains_key(path@),
                r is Some ==> r->Some_0.ev() == self.st().entries[path@],
    { unimplemented!() }
    #[verifier::external_body]
    pub fn get_entry_mut(&mut self, path: &PathBuf) -> (r: Option<&mut MemfsEntry>)
        requires path.abs_clean()
        ensures r is Some <==> old(self).st().entries.contains_key(path@),
                r is Some ==> r->Some_0.ev() == old(self).st().entries[path@],
                r is None ==> final(self).st() == old(self).st(),
                r is Some ==> final(self).st() == (St { entries: old(self).st().entries.insert(path@, final(r->Some_0).ev()), ..old(self).st() }),
    { unimplemented!() }
    #[verifier::external_body]
    pub fn get_file(&self, path: &PathBuf) -> (r: Option<&MemfsFile>)
        requires path.abs_clean()
        ensures r is Some <==> self.st().files.contains_key(path@),
                r is Some ==> r->Some_0.fv() == self.st().files[path@],
    { unimplemented!() }
    #[verifier::external_body]
    pub fn get_file_mut(&mut self, path: &PathBuf) -> (r: Option<&mut MemfsFile>)
        requires path.abs_clean()
        ensures r is Some <==> old(self).st().files.contains_key(path@),
                r is Some ==> r->Some_0.fv() == old(self).st().files[path@],
                r is None ==> final(self).st() == old(self).st(),
                r is Some ==> final(self).st() == (St { files: old(self).st().files.insert(path@, final(r->Some_0).fv()), ..old(self).st() }),
    { unimplemented!() }
    #[verifier::external_body]
    pub fn insert_entry(&mut self, path: PathBuf, entry: MemfsEntry)
        requires path.abs_clean()
        ensures final(self).st() == (St { entries: old(self).st().entries.insert(path@, entry.ev()), ..old(self).st() })
    { unimplemented!() }
    #[verifier::external_body]
    pub fn insert_file(&mut self, path: PathBuf, file: MemfsFile)
        requires path.abs_clean()
        ensures final(self).st() == (St { files: old(self).st().files.insert(path@, file.fv()), ..old(self).st() })
    { unimplemented!() }
    #[verifier::external_body]
    pub fn remove_entry(&mut self, path: &PathBuf) -> (r: Option<MemfsEntry>)
        requires path.abs_clean()
        ensures final(self).st() == (St { entries: old(self).st().entries.remove(path@), ..old(self).st() }),
                r is Some <==> old(self).st().entries.contains_key(path@),
                r is Some ==> r->Some_0.ev() == old(self).st().entries[path@],
    { unimplemented!() }
    #[verifier::external_body]
    pub fn remove_file(&mut self, path: &PathBuf) -> (r: Option<MemfsFile>)
        requires path.abs_clean()
        ensures final(self).st() == (St { files: old(self).st().files.remove(path@), ..old(self).st() }),
                r is Some <==> old(self).st().files.contains_key(path@),
                r is Some ==> r->Some_0.fv() == old(self).st().files[path@],
    { unimplemented!() }
    #[verifier::external_body]
    pub fn set_cwd(&mut self, path: PathBuf)
        ensures final(self).st() == (St { cwd: path@, cwd_ok: path.abs_clean(), ..old(self).st() })
    { unimplemented!() }
}

// ---- well-formedness of the namespace (property C03), written from the property statement.
// Split into named per-path predicates that serve as triggers (a monolithic quantified formula exhausts the rlimit).
pub open spec fn entry_ok(s: St, p: PathV) -> bool {
    let e = s.entries[p];
    &&& e.path == p && e.path_ok
    &&& (e.dir != e.file)
    &&& (e.kids is Some <==> e.dir)
    &&& (p.len() > 0 ==> {
            let d = p.drop_last();
            &&& s.entries.contains_key(d)
            &&& s.entries[d].dir && !s.entries[d].link
            &&& s.entries[d].kids is Some
            &&& s.entries[d].kids->Some_0.contains(p.last())
        })
}
pub open spec fn kids_ok(s: St, p: PathV, n: Name) -> bool {
    (s.entries.contains_key(p) && s.entries[p].kids is Some && s.entries[p].kids->Some_0.contains(n)) ==> s.entries.contains_key(p.push(n))
}
pub open spec fn file_ok(s: St, p: PathV) -> bool {
    &&& s.files.contains_key(p) <==> (s.entries.contains_key(p) && s.entries[p].file && !s.entries[p].link)
    &&& s.files.contains_key(p) ==> s.files[p].pos == 0
}
pub open spec fn wf(s: St) -> bool {
    &&& s.entries.contains_key(root())
    &&& s.entries[root()].dir && !s.entries[root()].link
    &&& s.cwd_ok
    &&& forall|p: PathV| s.entries.contains_key(p) ==> #[trigger] entry_ok(s, p)
    &&& forall|p: PathV, n: Name| #[trigger] kids_ok(s, p, n)
    &&& forall|p: PathV| #[trigger] file_ok(s, p)
}
