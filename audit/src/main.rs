// Assumption audit (thorough tier): the ASSUMED[...] contracts in /verif/prelude that are executable are re-stated here as plain Rust
// and compared with the real std on exhaustively enumerated small inputs.  A disagreement means the PRELUDE is wrong (exit 2 in
// the check: undecided, never a violation of rivia).  This program uses std only.
use std::path::{Component, Path, PathBuf};

#[derive(Clone, Debug, PartialEq, Eq)]
enum C { Root, Cur, Par, N(String) }
fn comps(p: &Path) -> Vec<C> {
    p.components().map(|c| match c {
        Component::RootDir => C::Root, Component::CurDir => C::Cur, Component::ParentDir => C::Par,
        Component::Normal(n) => C::N(n.to_str().unwrap().to_string()), _ => unreachable!() }).collect()
}
fn cstr(c: &C) -> String { match c { C::Root => "/".into(), C::Cur => ".".into(), C::Par => "..".into(), C::N(n) => n.clone() } }
// ---- the spec functions of prelude/path_comps.rs
fn push_spec(s: &[C], c: &C) -> Vec<C> {
    if *c == C::Root { vec![C::Root] } else if *c == C::Cur && !s.is_empty() { s.to_vec() } else { let mut v = s.to_vec(); v.push(c.clone()); v }
}
fn pop_spec(s: &[C]) -> Vec<C> { if !s.is_empty() && *s.last().unwrap() != C::Root { s[..s.len() - 1].to_vec() } else { s.to_vec() } }
fn is_abs(s: &[C]) -> bool { !s.is_empty() && s[0] == C::Root }
fn join_spec(a: &[C], b: &[C]) -> Vec<C> {
    if is_abs(b) { b.to_vec() } else if a.is_empty() { b.to_vec() } else if !b.is_empty() && b[0] == C::Cur { [a, &b[1..]].concat() } else { [a, b].concat() }
}
fn collect_spec(acc: &[C], s: &[C]) -> Vec<C> { let mut a = acc.to_vec(); for c in s { a = push_spec(&a, c); } a }
fn render(s: &[C]) -> String {
    let mut out = String::new();
    for (i, c) in s.iter().enumerate() {
        if i > 0 && !(i == 1 && s[0] == C::Root) { out.push('/'); }
        out.push_str(&cstr(c));
    }
    out
}
fn canonical(p: &Path) -> bool { p.to_str().unwrap() == render(&comps(p)) }

fn strings(alpha: &[char], max: usize) -> Vec<String> {
    let mut all = vec![String::new()];
    let mut cur = vec![String::new()];
    for _ in 0..max {
        let mut next = vec![];
        for s in &cur { for a in alpha { let mut t = s.clone(); t.push(*a); next.push(t); } }
        all.extend(next.iter().cloned());
        cur = next;
    }
    all
}

fn main() {
    let mut checks: u64 = 0;
    let mut fails: Vec<String> = vec![];
    macro_rules! chk { ($c:expr, $($m:tt)*) => { checks += 1; if !$c { if fails.len() < 20 { fails.push(format!($($m)*)); } } } }

    // ---- A. std::path (ASSUMED[path-components], ASSUMED[pathbuf-ops], canonical())
    let paths = strings(&['/', '.', 'a', 'b'], 6);
    let small = strings(&['/', '.', 'a'], 4);
    let singles = [C::Root, C::Cur, C::Par, C::N("a".into())];
    for s in &paths {
        let p = Path::new(s);
        let cs = comps(p);
        for (i, c) in cs.iter().enumerate() {
            if i > 0 { chk!(*c != C::Root && *c != C::Cur, "std_comps violated for {:?}: {:?}", s, cs); }
            if let C::N(n) = c { chk!(!n.is_empty() && !n.contains('/') && n != "." && n != "..", "normal name shape {:?}", s); }
        }
        chk!(p.is_absolute() == is_abs(&cs), "is_absolute {:?}", s);
        // parent
        let par = p.parent().map(|x| comps(x));
        if cs.is_empty() || cs == vec![C::Root] { chk!(par.is_none(), "parent None {:?}", s); } else { chk!(par == Some(cs[..cs.len() - 1].to_vec()), "parent {:?} -> {:?}", s, par); }
        // file_name
        let fname = p.file_name().map(|x| x.to_str().unwrap().to_string());
        match cs.last() { Some(C::N(n)) => { chk!(fname == Some(n.clone()), "file_name {:?}", s); }, _ => { chk!(fname.is_none(), "file_name none {:?}", s); } }
        // components().collect() == collect_spec(empty, comps), and the result is canonical
        let col: PathBuf = p.components().collect();
        chk!(comps(&col) == collect_spec(&[], &cs), "collect {:?}", s);
        chk!(canonical(&col), "collect canonical {:?} -> {:?}", s, col);
        // Components::as_path after consuming k
        for k in 0..=cs.len() { let mut it = p.components(); for _ in 0..k { it.next(); } chk!(comps(it.as_path()) == cs[k..].to_vec(), "as_path {:?} {}", s, k); }
        // push / pop of single components
        for c in &singles {
            let mut q = p.to_path_buf(); q.push(cstr(c));
            chk!(comps(&q) == push_spec(&cs, c), "push {:?} {:?} -> {:?}", s, c, comps(&q));
            if canonical(p) { chk!(canonical(&q) == !(*c == C::Cur && !cs.is_empty()), "push canonical {:?} {:?} -> {:?}", s, c, q); }
        }
        let mut q = p.to_path_buf(); q.pop();
        chk!(comps(&q) == pop_spec(&cs), "pop {:?}", s);
        if canonical(p) { chk!(canonical(&q), "pop canonical {:?} -> {:?}", s, q); }
        chk!(canonical(&PathBuf::new()), "new canonical");
    }
    for a in &small { for b in &small {
        let j = Path::new(a).join(b);
        chk!(comps(&j) == join_spec(&comps(Path::new(a)), &comps(Path::new(b))), "join {:?} {:?} -> {:?}", a, b, comps(&j));
        chk!((Path::new(a) == Path::new(b)) == (comps(Path::new(a)) == comps(Path::new(b))), "PathBuf == is component-wise {:?} {:?}", a, b);
    } }

    // ---- B. str (ASSUMED[str-utf8]): byte length = sum of char widths, boundaries, prefix/suffix, slicing
    let strs = strings(&['a', 'é', '€', '😀', '/'], 4);
    for s in &strs {
        let ch: Vec<char> = s.chars().collect();
        let width = |c: &char| c.len_utf8();
        chk!(s.len() == ch.iter().map(width).sum::<usize>(), "len {:?}", s);
        chk!(ch.iter().all(|c| (1..=4).contains(&c.len_utf8())), "char width {:?}", s);
        chk!(s.chars().count() == ch.len(), "count {:?}", s);
        for n in 0..=s.len() + 1 {
            let spec = (0..=ch.len()).any(|k| ch[..k].iter().map(width).sum::<usize>() == n);
            chk!(s.is_char_boundary(n) == spec, "boundary {:?} {}", s, n);
            if spec {
                let k = (0..=ch.len()).find(|k| ch[..*k].iter().map(width).sum::<usize>() == n).unwrap();
                chk!(s[..n].chars().collect::<Vec<_>>() == ch[..k].to_vec() && s[n..].chars().collect::<Vec<_>>() == ch[k..].to_vec(), "slice {:?} {}", s, n);
            }
        }
    }
    let strs2 = strings(&['a', 'é', '/'], 3);
    for s in &strs2 { for t in &strs2 {
        let (a, b): (Vec<char>, Vec<char>) = (s.chars().collect(), t.chars().collect());
        chk!(s.starts_with(t.as_str()) == (b.len() <= a.len() && a[..b.len()] == b[..]), "starts_with {:?} {:?}", s, t);
        chk!(s.ends_with(t.as_str()) == (b.len() <= a.len() && a[a.len() - b.len()..] == b[..]), "ends_with {:?} {:?}", s, t);
        let spec_contains = (0..=a.len()).any(|i| i + b.len() <= a.len() && a[i..i + b.len()] == b[..]);
        chk!(s.contains(t.as_str()) == spec_contains, "contains {:?} {:?}", s, t);
    } }
    // ---- D. split(':'), find("//"), trim_start_matches, to_lowercase emptiness
    for s in strings(&[':', 'a', '/'], 5) {
        let parts: Vec<&str> = s.split(':').collect();
        chk!(parts.iter().all(|p| !p.contains(':')) && parts.join(":") == s, "split {:?}", s);
        let ch: Vec<char> = s.chars().collect();
        let spec = (0..ch.len().saturating_sub(1)).find(|i| ch[*i] == '/' && ch[*i + 1] == '/');
        chk!(s.find("//") == spec, "find {:?}", s);   // ASCII here: byte offset == char index
        let mut x = s.as_str(); while !"a/".is_empty() && x.starts_with("a/") { x = &x[2..]; }
        chk!(s.trim_start_matches("a/") == x, "trim_start_matches {:?}", s);
        chk!(s.to_lowercase().is_empty() == s.is_empty(), "lowercase empty {:?}", s);
    }
    // ---- C. iterators (ASSUMED[iter-std]): nth, rev().nth, last, count, next_back
    for n in 0..6usize { for k in 0..8usize {
        let v: Vec<usize> = (0..n).collect();
        let mut it = v.clone().into_iter(); let r = it.nth(k); let rest: Vec<usize> = it.collect();
        if k < n { chk!(r == Some(v[k]) && rest == v[k + 1..].to_vec(), "nth {} {}", n, k); } else { chk!(r.is_none() && rest.is_empty(), "nth oob {} {}", n, k); }
        let mut it = v.clone().into_iter(); let r = (&mut it).rev().nth(k); let rest: Vec<usize> = it.collect();
        if k < n { chk!(r == Some(v[n - 1 - k]) && rest == v[..n - k - 1].to_vec(), "rev nth {} {}", n, k); } else { chk!(r.is_none() && rest.is_empty(), "rev nth oob {} {}", n, k); }
        chk!(v.clone().into_iter().last() == v.last().cloned() && v.clone().into_iter().count() == n, "last/count {}", n);
    } }
    // Vec built from reversed chars pops in forward order (ASSUMED[vec-rev-stack])
    for s in strings(&['a', 'b', ','], 4) { let mut st: Vec<char> = s.chars().rev().collect(); let mut out = String::new(); while let Some(c) = st.pop() { out.push(c); } chk!(out == s, "rev stack {:?}", s); }

    // ---- E. contracts assumed by the traversal / adaptor units: str::find / rfind, Peekable::next_if / peek, slice::sort_by, Iterator::any,
    //         Iterator::collect on `&mut self`, HashSet iteration, Option::or / xor, Result::unwrap_or
    for s in &strs2 { for t in &strs2 {
        let (a, b): (Vec<char>, Vec<char>) = (s.chars().collect(), t.chars().collect());
        let occ = |k: usize| k + b.len() <= a.len() && a[k..k + b.len()] == b[..];
        let bl = |k: usize| a[..k].iter().map(|c| c.len_utf8()).sum::<usize>();
        let first = (0..=a.len()).find(|k| occ(*k)).map(bl);
        let last = (0..=a.len()).rev().find(|k| occ(*k)).map(bl);
        chk!(s.find(t.as_str()) == first, "find {:?} {:?}", s, t);
        chk!(s.rfind(t.as_str()) == last, "rfind {:?} {:?}", s, t);
    } }
    for n in 0..6usize { for th in 0..7usize {
        let v: Vec<usize> = (0..n).collect();
        // next_if: pops the front item iff the predicate accepts it
        let mut it = v.clone().into_iter().peekable();
        let r = it.next_if(|x| *x < th);
        let rest: Vec<usize> = it.collect();
        if n > 0 && 0 < th { chk!(r == Some(0) && rest == v[1..].to_vec(), "next_if pop {} {}", n, th); } else { chk!(r.is_none() && rest == v, "next_if keep {} {}", n, th); }
        let mut it = v.clone().into_iter().peekable();
        chk!(it.peek().copied() == v.first().copied() && it.collect::<Vec<_>>() == v, "peek {}", n);
        // any: true iff the closure answers true for some element
        chk!(v.iter().any(|x| *x == th) == (th < n), "any {} {}", n, th);
        // collect through `&mut self` drains the iterator
        let mut it = v.clone().into_iter(); let got: Vec<usize> = (&mut it).collect(); chk!(got == v && it.next().is_none(), "collect by_ref {}", n);
    } }
    // sort_by: a permutation, ordered by the comparator, stable
    for s in strings(&['a', 'b', 'c'], 5) {
        let v: Vec<(char, usize)> = s.chars().enumerate().map(|(i, c)| (c, i)).collect();
        let mut w = v.clone();
        w.sort_by(|x, y| x.0.cmp(&y.0));
        let mut a = v.clone(); let mut b = w.clone(); a.sort(); b.sort();
        chk!(a == b, "sort_by permutation {:?}", s);
        chk!(w.windows(2).all(|p| p[0].0 <= p[1].0), "sort_by ordered {:?}", s);
        chk!(w.windows(2).all(|p| p[0].0 != p[1].0 || p[0].1 < p[1].1), "sort_by stable {:?}", s);
    }
    // HashSet iteration: every element exactly once
    for s in strings(&['a', 'b', 'c'], 4) {
        let hs: std::collections::HashSet<String> = s.chars().map(|c| c.to_string()).collect();
        let mut seen: Vec<String> = hs.iter().cloned().collect(); let n = seen.len(); seen.sort(); seen.dedup();
        chk!(seen.len() == n && n == hs.len() && s.chars().all(|c| seen.contains(&c.to_string())), "hashset iter {:?}", s);
    }
    for a in [None, Some(1)] { for b in [None, Some(2)] {
        chk!(a.or(b) == if a.is_some() { a } else { b }, "Option::or");
        chk!(a.xor(b) == match (a, b) { (Some(x), None) => Some(x), (None, Some(y)) => Some(y), _ => None }, "Option::xor");
    } }
    for r in [Ok::<u8, u8>(1), Err(2)] { chk!(r.unwrap_or(9) == match r { Ok(v) => v, Err(_) => 9 }, "Result::unwrap_or"); }

    println!("AUDIT checks={} failures={}", checks, fails.len());
    for f in &fails { println!("PRELUDE-AUDIT-FAIL {}", f); }
    std::process::exit(if fails.is_empty() { 0 } else { 2 });
}
